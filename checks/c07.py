"""C07 — a returned projection function reproduces the embedding and is affine.
Model: lean/TapkeeVerif/Model/Project.lean (+ Pca.computeMean); generated table: Gen/Projections.lean
(tools/translate_proj.py); theorems: Props/C07.lean; harness: harness/c07_proj.cpp; driver: lean/Driver/C07.lean."""
import os
import sys
from fractions import Fraction

import vlib
from checks import _spectral as sp

PROPERTY = "C07"
LEAN_MODULES = ["TapkeeVerif.Props.C07"]
LEAN_EXES = ["model_c07"]
REQUIRED_THEOREMS_FINAL = [
    "TapkeeVerif.C07.embedding_row_eq_projection",
    "TapkeeVerif.C07.projection_affine",
    "TapkeeVerif.C07.mean_is_training_mean",
    "TapkeeVerif.C07.non_projecting_methods_return_empty",
]
REQUIRED_THEOREMS = REQUIRED_THEOREMS_FINAL

PROJECTING = ["pca", "rp", "npe", "lltsa", "lpp"]
ALL_METHODS = ("klle npe kltsa lltsa hlle la lpp dm isomap lisomap mds lmds spe kpca pca rp fa tsne ms passthru").split()
# harness short names <-> names in the generated table
LONG = {"klle": "KernelLocallyLinearEmbedding", "npe": "NeighborhoodPreservingEmbedding",
        "kltsa": "KernelLocalTangentSpaceAlignment", "lltsa": "LinearLocalTangentSpaceAlignment",
        "hlle": "HessianLocallyLinearEmbedding", "la": "LaplacianEigenmaps", "lpp": "LocalityPreservingProjections",
        "dm": "DiffusionMap", "isomap": "Isomap", "lisomap": "LandmarkIsomap", "mds": "MultidimensionalScaling",
        "lmds": "LandmarkMultidimensionalScaling", "spe": "StochasticProximityEmbedding",
        "kpca": "KernelPrincipalComponentAnalysis", "pca": "PrincipalComponentAnalysis", "rp": "RandomProjection",
        "fa": "FactorAnalysis", "tsne": "tDistributedStochasticNeighborEmbedding", "ms": "ManifoldSculpting",
        "passthru": "PassThru"}


def translate(ctx):
    sys.path.insert(0, os.path.join(vlib.ROOT, "tools"))
    import translate_proj
    text = translate_proj.generate(vlib.REPO)
    vlib.write_if_changed(os.path.join(vlib.LEAN_DIR, "TapkeeVerif", "Gen", "Projections.lean"), text)
    # keep the parsed table for the run-time cross-check of the translator (table vs running code)
    ctx._table = {}
    for line in text.split("\n"):
        line = line.strip()
        if line.startswith('("'):
            name = line.split('"')[1]
            ctx._table[name] = ".matrix" in line


# ----------------------------------------------------------------------------- case text
def case_line(c):
    if c["topic"] == "hist":
        return ("hist N=%d D=%d d=%d k=%d seed=%d ops=%s data=%s"
                % (c["N"], c["D"], c["d"], c["k"], c["seed"], ",".join(c["ops"]), sp.mat_text(c["rows"]))) + sp.decoy_fields(c)
    if c["topic"] == "empty":
        return ("empty method=%s N=%d D=%d d=%d k=%d seed=%d data=%s"
                % (c["method"], c["N"], c["D"], c["d"], c["k"], c["seed"], sp.mat_text(c["rows"]))) + sp.decoy_fields(c)
    combs = ",".join("-" if cb is None else "%d:%d:%s" % (cb[0], cb[1], sp.fr(cb[2])) for cb in c["combs"])
    return ("proj method=%s N=%d D=%d d=%d k=%d solver=dense seed=%d exact=%d nq=%d comb=%s data=%s q=%s"
            % (c["method"], c["N"], c["D"], c["d"], c["k"], c["seed"], 1 if c["exact"] else 0, len(c["q"]),
               combs or "-", sp.mat_text(c["rows"]), sp.mat_text(c["q"]) or "-") + sp.decoy_fields(c))


def parse_case(line):
    f = sp.fields(line)
    rows = [[Fraction(v) for v in r.split(",")] for r in f["data"].split(";")]
    c = {"topic": line.split(" ", 1)[0], "method": f.get("method", "history"), "N": int(f["N"]), "D": int(f["D"]), "d": int(f["d"]),
         "k": int(f.get("k", "5")), "seed": int(f.get("seed", "1")), "rows": rows, "label": "replay"}
    sp.parse_decoys(f, c)
    if c["topic"] == "hist":
        c["ops"] = f["ops"].split(",")
    if c["topic"] == "proj":
        c["exact"] = f.get("exact") == "1"
        c["q"] = [] if f.get("q", "-") == "-" else [[Fraction(v) for v in r.split(",")] for r in f["q"].split(";")]
        c["combs"] = []
        for t in (f.get("comb", "-").split(",") if f.get("comb", "-") != "-" or c["q"] else []):
            if t == "-":
                c["combs"].append(None)
            else:
                i, j, a = t.split(":")
                c["combs"].append((int(i), int(j), Fraction(a)))
        while len(c["combs"]) < len(c["q"]):
            c["combs"].append(None)
    return c


def judge_hist(c, io, v):
    """ONE TapkeeOutput variable reused across a sequence of embed calls: after every assignment the projection must be
    present iff the LAST method projects (also in a copy-constructed snapshot) and projection(x_i) must be row i of the
    LAST embedding, bitwise"""
    blocks = io.split(" | ")[1:]
    if len(blocks) != len(c["ops"]):
        v["bad"].append(("history", "steps-missing"))
        return
    for n, (op, b) in enumerate(zip(c["ops"], blocks)):
        m, kind = op.split(":")
        f = sp.fields(b)
        expect = "1" if m in PROJECTING else "0"
        if f.get("has") != expect or f.get("shas") != expect:
            what = "stale-projection-of-an-earlier-method-kept" if expect == "0" else "projection-lost"
            v["bad"].append(("history", "%s-after-%s-assignment" % (what, kind)))
            return
        if expect == "1" and not sp.has_nonfinite(b) and f.get("T") != f.get("Y"):
            v["bad"].append(("history", "projection-is-not-the-last-embedding-after-%s-assignment" % kind))
            return


def valid_request(c):
    """the request is inside every documented parameter range of the method"""
    return 1 <= c["d"] <= c["D"] and c["d"] < c["N"] and 3 <= c["k"] < c["N"] and c["d"] <= c["k"]


def degenerate(c):
    """stated degeneracy predicate of the DATA under which NPE / LLTSA / LPP may fail numerically: the centred features
    do not span all D dimensions (the D x D right-hand side X·Xᵀ / X·D·Xᵀ of the generalised eigenproblem is singular)
    or two samples coincide (a zero neighbour distance)"""
    rows = c["rows"]
    if len(set(tuple(r) for r in rows)) < len(rows):
        return True
    return sp.centred_points_rank(rows) < c["D"]


# ----------------------------------------------------------------------------- judging
def judge(ctx, binary, cases):
    lines = [case_line(c) for c in cases]
    impl = ctx.run_impl_cases(binary, lines, per_case_timeout=None)
    jl, where = [], []
    verdicts = [None] * len(cases)
    for n, (c, line, io) in enumerate(zip(cases, lines, impl)):
        v = {"impl": io[:500], "model": "", "bad": [], "soft": [], "skip": None, "cmp": ""}
        verdicts[n] = v
        if io.startswith("abort:"):
            v["bad"].append(("impl", io.split("@")[0]))
            continue
        # target dimension above the feature dimension: the four eigen-based projecting methods must refuse it with the
        # documented wrong_parameter_error (validate(), fix F-DIM-RANK-LINEAR a64904a); Random Projection accepts any d
        if c["topic"] == "proj" and c["d"] > c["D"] and c["method"] in ("pca", "npe", "lltsa", "lpp"):
            if io == "throw:wrong_parameter_error":
                v["skip"] = "documented-error:d>D"
            else:
                v["bad"].append(("validate", "d>D-not-rejected:" + io.split(" ")[0].split("@")[0]))
            continue
        if io.startswith("throw:") and c["topic"] == "proj":
            # valid request (1 <= d <= D, 3 <= k < N, d <= k): a parameter error is a failing input for all five methods;
            # PCA / Random Projection have no numerical precondition: any throw is a failure;
            # NPE / LLTSA / LPP solve a generalised eigenproblem whose right-hand side is singular exactly when the data
            # are degenerate (predicate `degenerate`): only there a numerical failure is an accepted outcome
            if io == "throw:wrong_parameter_error" and valid_request(c):
                v["bad"].append(("validate", "valid-request-rejected"))
            elif c["method"] in ("pca", "rp") or not degenerate(c):
                v["bad"].append(("impl", io))
            else:
                v["skip"] = "degenerate-data:" + io
            continue
        if io.startswith("throw:"):
            # `empty` topic: fixed benign parameters (d = 2 <= D = 3, k = 7 < N) on generic data: nothing may throw
            v["bad"].append(("impl", io))
            continue
        if c["topic"] == "hist":
            judge_hist(c, io, v)
            continue
        f = sp.fields(io)
        if c["topic"] == "empty":
            expect = 1 if c["method"] in PROJECTING else 0
            if int(f.get("has", "-1")) != expect:
                v["bad"].append(("has", "projection-returned-by-non-projecting-method" if expect == 0
                                 else "no-projection-returned"))
            table = getattr(ctx, "_table", {})
            if LONG[c["method"]] in table and table[LONG[c["method"]]] != (f.get("has") == "1"):
                v["soft"].append(("table", "generated-table-disagrees-with-running-code"))
            continue
        if f.get("has") != "1" or "P" not in f:
            v["bad"].append(("has", "no-projection-returned"))
            continue
        if sp.has_nonfinite(io):
            if c["method"] in ("pca", "rp") or not degenerate(c):
                v["bad"].append(("finite", "non-finite-projection-or-embedding"))
            else:
                v["skip"] = "degenerate-data:nonfinite-output"
            continue
        jl.append(line + " " + io[3:])
        where.append(n)
    if jl:
        rc, out, err = ctx.run_model("model_c07", jl)
        if rc != 0 or len(out) != len(jl):
            ctx.broken("model-driver", "model_c07", "model driver failed: rc=%s %s" % (rc, err[-300:]))
            out = out + ["driver-failed"] * (len(jl) - len(out))
        for n, mo in zip(where, out):
            v = verdicts[n]
            v["model"] = mo
            t = sp.fields(mo)
            if not t:
                v["soft"].append(("driver", mo))
            for key in ("train", "mean", "unseen"):
                val = t.get(key, "missing")
                if not (val.startswith("exact") or val.startswith("approx")):
                    v["bad"].append((key, val.split(":")[0].split("@")[0]))
            # projection(x_i) and row i of the embedding are the same expression over the same doubles: BITWISE equality
            # is demanded; agreement that is only within 2^-40 is reported as a broken correspondence, not as a failing input
            if t.get("train", "").startswith("approx"):
                v["soft"].append(("train", "not-bitwise"))
            if not t.get("affine", "missing").startswith("ok"):
                v["bad"].append(("affine", t.get("affine", "missing").split(":")[0]))
            if t.get("pure", "missing") != "ok":
                v["bad"].append(("pure", t.get("pure", "missing")))
            v["train_exact"] = t.get("train", "").startswith("exact")
            v["cmp"] = t.get("cmp", "")
    for c, v in zip(cases, verdicts):
        first = (v["bad"] or v["soft"] or [None])[0]
        v["sig"] = None if first is None else "%s:%s:%s=%s" % (c["topic"], c["method"], first[0], first[1])
    return verdicts


def subcase(c, keep):
    s = dict(c)
    s["rows"] = [c["rows"][i] for i in keep]
    s["N"] = len(keep)
    s["k"] = max(3, min(c["k"], s["N"] - 1))
    if c.get("sel"):
        s["sel"] = [c["sel"][i] for i in keep]
    if c["topic"] == "proj":
        # keep only the queries whose combination partners survive, re-indexed
        pos = {old: new for new, old in enumerate(keep)}
        q, combs = [], []
        for qq, cb in zip(c["q"], c["combs"]):
            if cb is None:
                q.append(qq)
                combs.append(None)
            elif cb[0] in pos and cb[1] in pos:
                q.append(qq)
                combs.append((pos[cb[0]], pos[cb[1]], cb[2]))
        s["q"], s["combs"] = q, combs
        s["exact"] = c["exact"] and sp.is_pow2(s["N"])
    return s


def shrink(ctx, binary, c, sig, budget=30):
    lo = 5 if c["method"] not in ("pca", "rp", "passthru", "mds", "kpca", "fa") else 2
    if c["topic"] == "hist":
        lo = 9

    def failing(keep):
        if len(keep) < max(lo, c["d"] + 1):
            return False
        return judge(ctx, binary, [subcase(c, keep)])[0]["sig"] == sig
    return subcase(c, vlib.ddmin(list(range(c["N"])), failing, max_tests=budget))


WHAT = {
    "train": "projection(x_i) differs from row i of the returned embedding",
    "mean": "the projection's mean vector is not the mean of the training samples",
    "unseen": "the projection function is not x -> P^T (x - mean) for the returned (P, mean)",
    "affine": "the projection function is not affine",
    "pure": "the projection function is not a pure function of its argument (results of earlier applications are "
            "disturbed by later ones / several applications in one expression interfere)",
    "has": "projection presence is wrong for the method",
    "history": "a TapkeeOutput variable reused across embed calls does not hold the LAST call's projection state",
    "validate": "parameter validation is wrong: d > D not rejected with wrong_parameter_error, or a valid request rejected",
    "finite": "the returned projection matrix / embedding is not finite on non-degenerate data",
    "impl": "the implementation aborted / threw",
    "table": "Gen/Projections.lean disagrees with the running code",
    "driver": "model driver could not judge the case",
}


def report(ctx, binary, c, v, do_shrink=True):
    sig = v["sig"]
    key = sig.split(":", 2)[2].split("=")[0]
    if sig in ctx._seen:
        ctx._seen[sig] += 1
        return
    ctx._seen[sig] = 1
    if v["bad"]:
        small = shrink(ctx, binary, c, sig) if do_shrink else c
        vv = judge(ctx, binary, [small])[0]
        ctx.fail(sig, "%s (%s, N=%d D=%d d=%d k=%d, %s): %s" % (
            WHAT.get(key, key), c["method"], small["N"], small["D"], small["d"], small["k"], c["label"],
            " ".join("%s=%s" % b for b in (vv["bad"] or v["bad"]))),
            case=case_line(small), detail={"impl": vv["impl"], "model": vv["model"], "shrunk_from_N": c["N"],
                                           "stderr": getattr(ctx, "last_abort_stderr", "")[-1500:] if key == "impl" else ""})
    else:
        ctx.broken("corr:" + sig, "correspondence c07_proj (%s)" % WHAT.get(key, key),
                   "model/table and implementation disagree: %s" % (v["soft"],), case=case_line(c),
                   detail={"impl": v["impl"], "model": v["model"]})


def account(ctx, c, v):
    line_key = case_line(c)
    ctx.count(line_key, c["N"] >= 4)
    ctx.cov["traces_validated_against_impl"] += 1
    ctx.stat("gen:" + c["label"])
    ctx.stat("topic:" + c["topic"])
    ctx.stat("method:" + c["method"])
    ctx.stat("id-range:shuffled-subset-with-decoys" if c.get("sel") else "id-range:identity")
    if c["topic"] == "proj":
        ctx.stat("queries", len(c["q"]))
        ctx.stat("queries:combinations", len([x for x in c["combs"] if x is not None]))
        ctx.stat("mode:exact" if c["exact"] else "mode:approx")
        if v.get("train_exact") is True:
            ctx.stat("train-vs-embedding:bitwise-equal")
        elif v.get("train_exact") is False and v["sig"] is None:
            ctx.stat("train-vs-embedding:approx-fallback")
    if v.get("cmp"):
        for part in v["cmp"].split(","):
            k, n = part.split(":")
            ctx.stat("comparisons:" + k, int(n))
    if c["topic"] == "proj" and c["d"] <= c["D"]:
        ctx._per_method = getattr(ctx, "_per_method", {})
        pm = ctx._per_method.setdefault(c["method"], [0, 0])
        pm[0] += 1
        pm[1] += 1 if v["skip"] else 0
    if v["skip"]:
        ctx.stat("skipped:" + v["skip"].split(":std:")[0])
    else:
        ctx.stat("verdict:ok" if v["sig"] is None else "verdict:oracle-false" if v["bad"] else "verdict:table-or-model-disagree")
    if v["sig"] is None and not v["skip"] and c["topic"] == "proj" and len(ctx.cov["samples"]) < 5 and c["N"] <= 8:
        ctx.sample({"case": line_key[:400], "impl": v["impl"][:200], "model": v["model"]})


# ----------------------------------------------------------------------------- generators
def gen_queries(r, rows, D, nq):
    q, combs = [], []
    N = len(rows)
    for t in range(nq):
        kind = r.below(3)
        if kind == 0:      # unseen vector, possibly far outside the data
            q.append([Fraction(r.range(-40, 40), r.choice([1, 1, 2, 8])) for _ in range(D)])
            combs.append(None)
        else:
            i, j = r.below(N), r.below(N)
            a = Fraction(r.range(0, 16), 16) if kind == 1 else Fraction(r.range(-24, 40), 8)   # convex / affine
            q.append([a * rows[i][k] + (1 - a) * rows[j][k] for k in range(D)])
            combs.append((i, j, a))
    return q, combs


def gen_cases(ctx, quick):
    r = ctx.rng
    rounds = 8 if quick else 80
    nmax = 32 if quick else 64
    cases = []
    for rnd in range(rounds):
        for m in PROJECTING:
            N = r.choice([8, 16, 32]) if r.chance(1, 3) else r.range(7, 14) if r.chance(2, 3) else r.range(7, nmax)
            D = r.range(2, 4) if r.chance(2, 3) else r.range(2, 8)
            if m in ("npe", "lltsa", "lpp"):
                D = min(D, 4)
                N = max(N, 3 * D + 4)
            rows = [[Fraction(v) for v in row] for row in sp.low_rank_points(r, N, D, D, amp=3)]
            if r.chance(1, 4):   # non-integer data
                rows = [[v / 4 for v in row] for row in rows]
            if m in ("pca", "rp") and r.chance(1, 3):   # other units (power-of-two scale: exact), affine maps are scale-free
                rows = [[v * Fraction(2) ** r.choice([-30, -12, 10, 24]) for v in row] for row in rows]
            d = r.range(1, min(D, N - 1))
            if rnd == 0:
                d = min(D, N - 1)          # the largest valid target dimension (d = D) of every method, every run
            elif rnd == 1:
                d = 1
            k = min(N - 1, r.range(max(3, d + 2), 8))
            q, combs = gen_queries(r, rows, D, r.range(2, 6))
            big = max(abs(v) for row in rows for v in row)
            if big > 10 ** 4 or big < Fraction(1, 100):      # keep the unseen queries in the units of the data
                unit = big / 16
                q = [[v * unit for v in qq] if cb is None else qq for qq, cb in zip(q, combs)]
            integer = all(v.denominator == 1 for row in rows for v in row)
            cases.append({"topic": "proj", "label": "five-methods", "method": m, "N": N, "D": D, "d": d, "k": k,
                          "seed": r.range(1, 10 ** 6), "rows": rows, "q": q, "combs": combs,
                          "exact": sp.is_pow2(N) and integer})
            if r.chance(1, 2):   # NON-IDENTITY id range: shuffled subset of a larger id space, decoy samples in between
                cases[-1]["all"], cases[-1]["sel"] = sp.with_decoys_points(r, rows)
        # mean far from the origin compared with the spread (PCA / Random Projection: no neighbourhood graph involved):
        # Pᵀ(x − mean) must be formed from the centred vector, Pᵀx − Pᵀmean cancels catastrophically
        for m in ("pca", "rp"):
            N = r.range(6, 12)
            D = r.range(2, 4)
            off = [r.choice([-1, 1]) * 2 ** r.range(24, 36) + r.range(-5, 5) for _ in range(D)]
            rows = [[Fraction(o + v) for o, v in zip(off, row)] for row in sp.low_rank_points(r, N, D, D, amp=2)]
            d = r.range(1, D)
            q, combs = gen_queries(r, rows, D, 3)
            q = [[rows[0][k] + v for k, v in enumerate(qq)] if cb is None else qq for qq, cb in zip(q, combs)]
            cases.append({"topic": "proj", "label": "large-mean", "method": m, "N": N, "D": D, "d": d, "k": 5,
                          "seed": r.range(1, 10 ** 6), "rows": rows, "q": q, "combs": combs, "exact": False})
        # data in VERY small units (coordinates ~2^-48 .. 2^-41, i.e. below every absolute epsilon such as Eigen's
        # isZero() 1e-12 or a 1e-9 ridge) with a mean that is NOT small relative to the spread: projection(x) = Pᵀ(x − mean)
        # and the embedding rows must still agree and be centred (seeded change C07-w6 needed this family).  Power-of-two
        # units keep the data exact; PCA and Random Projection are exactly scale-equivariant.
        for m in ("pca", "rp"):
            N = r.range(6, 12)
            D = r.range(2, 4)
            unit = Fraction(2) ** r.choice([-48, -46, -44])     # harness numbers are parsed with stoll: denominators < 2^63
            off = [r.choice([-1, 1]) * r.range(1, 9) for _ in range(D)]
            rows = [[(Fraction(o) + v) * unit for o, v in zip(off, row)] for row in sp.low_rank_points(r, N, D, D, amp=3)]
            d = r.range(1, D)
            q, combs = gen_queries(r, rows, D, 3)
            q = [[v * unit for v in qq] if cb is None else qq for qq, cb in zip(q, combs)]
            cases.append({"topic": "proj", "label": "tiny-units", "method": m, "N": N, "D": D, "d": d, "k": 5,
                          "seed": r.range(1, 10 ** 6), "rows": rows, "q": q, "combs": combs, "exact": False})
            if r.chance(1, 2):
                cases[-1]["all"], cases[-1]["sel"] = sp.with_decoys_points(r, rows)
        # every method once per round: presence / absence of a projection
        N = r.range(12, 20)
        D = 3
        rows = [[Fraction(v) for v in row] for row in sp.low_rank_points(r, N, D, D, amp=3)]
        decoy = sp.with_decoys_points(r, rows) if rnd % 2 else None
        for m in ALL_METHODS:
            cases.append({"topic": "empty", "label": "all-20-methods", "method": m, "N": N, "D": D, "d": 2, "k": 7,
                          "seed": r.range(1, 10 ** 6), "rows": rows})
            if decoy:
                cases[-1]["all"], cases[-1]["sel"] = decoy
    # history leg: ONE TapkeeOutput variable across a seeded sequence of embed calls, projecting <-> non-projecting methods,
    # copy-assignment / move-assignment / copy-construction
    nonproj = ["mds", "kpca", "isomap", "passthru", "fa", "la"]
    for rnd in range(3 if quick else 30):
        N = r.range(10, 14)
        D = 3
        rows = [[Fraction(v) for v in row] for row in sp.low_rank_points(r, N, D, D, amp=3)]
        ops = []
        for t in range(r.range(6, 9)):
            pool = PROJECTING if (t + rnd) % 2 == 0 else nonproj
            if r.chance(1, 5):
                pool = PROJECTING + nonproj
            ops.append("%s:%s" % (r.choice(pool), r.choice(["copy", "move", "cctor"])))
        cases.append({"topic": "hist", "label": "history", "method": "history", "N": N, "D": D, "d": 2, "k": 6,
                      "seed": r.range(1, 10 ** 6), "rows": rows, "ops": ops})
        if rnd % 2:
            cases[-1]["all"], cases[-1]["sel"] = sp.with_decoys_points(r, rows)
    # target dimension beyond the feature dimension (validated against N only): F-DIM-RANK probe
    for m in PROJECTING:
        N, D = 10, 3
        rows = [[Fraction(v) for v in row] for row in sp.low_rank_points(r, N, D, D, amp=3)]
        q, combs = gen_queries(r, rows, D, 2)
        cases.append({"topic": "proj", "label": "d>D", "method": m, "N": N, "D": D, "d": 5, "k": 6,
                      "seed": 1, "rows": rows, "q": q, "combs": combs, "exact": False})
    # the harness parses numbers with std::stoll (harness/vcommon.hpp): a numerator or denominator of 2^63 or more makes
    # the HARNESS throw (std::stoll), which is not an observation of tapkee.  Per-element power-of-two units combined in
    # convex / affine queries can exceed that (seen in the thorough tier) - such cases are dropped and counted.
    def width_ok(c):
        nums = [v for row in c.get("rows", []) for v in row] + [v for qq in c.get("q", []) for v in qq]
        nums += [v for row in c.get("all", []) or [] for v in row]
        return all(abs(Fraction(v).numerator) < 2 ** 62 and Fraction(v).denominator < 2 ** 62 for v in nums)
    kept = [c for c in cases if width_ok(c)]
    if len(kept) != len(cases):
        ctx.stat("skipped:number-wider-than-the-harness-parser", len(cases) - len(kept))
    return kept


def build(ctx):
    binary, log = ctx.build_harness("c07_proj.cpp", name=sp.harness_name("c07_proj"), flags=sp.FLAGS, extra=sp.header_flag())
    if not binary:
        ctx.broken("harness-build", "harness c07_proj.cpp", "harness does not compile against /repo: " + log[-800:])
    return binary


def run_all(ctx, binary, cases, do_shrink=True):
    ctx._seen = getattr(ctx, "_seen", {})
    for i in range(0, len(cases), 50):
        chunk = cases[i:i + 50]
        for c, v in zip(chunk, judge(ctx, binary, chunk)):
            account(ctx, c, v)
            if v["sig"] is not None:
                report(ctx, binary, c, v, do_shrink)


def correspond(ctx):
    binary = build(ctx)
    if not binary:
        return
    quick = ctx.tier == "quick"
    corpus = []
    for prefix in ("proj", "empty"):
        corpus += [parse_case(l) for l in sp.load_corpus("C07", prefix)]
    for c in corpus:
        c["label"] = "corpus"
    run_all(ctx, binary, corpus, do_shrink=False)
    cases = gen_cases(ctx, quick)
    ctx.log("%d generated cases" % len(cases))
    run_all(ctx, binary, cases)
    ctx.extra["failure_signature_counts"] = dict(ctx._seen)
    # a method whose cases are mostly skipped is not being checked: more than 25 % skips is a broken correspondence
    per = getattr(ctx, "_per_method", {})
    ctx.extra["judged_per_method"] = {m: {"cases": n, "skipped": k} for m, (n, k) in per.items()}
    for m in PROJECTING:
        n, k = per.get(m, (0, 0))
        if n == 0 or 4 * k > n:
            ctx.broken("corr:skip-rate:" + m, "correspondence c07_proj (cases judged per method)",
                       "%s: %d of %d valid-request cases were skipped (degenerate data / none generated): the method is "
                       "not being checked" % (m, k, n))
    ctx.extra["generated_table"] = {k: ("matrix" if v else "unimplemented") for k, v in getattr(ctx, "_table", {}).items()}
    ctx.cov["rule"] = ("public-API runs of the five projecting methods (PCA, Random Projection, NPE, LLTSA, LPP) on integer "
                       "and dyadic feature data (N <= %d, D <= 8, d <= D): projection(x_i) vs embedding row i (bitwise), "
                       "stored mean vs model mean, projection of unseen vectors vs the model's project on the returned "
                       "(P, mean), affinity on exact convex / affine combinations — also with a*f(x_i)+(1-a)*f(x_j) "
                       "evaluated by the implementation in ONE expression, an earlier result held by reference across a "
                       "later application, and f(x)-f(y); all 20 methods: presence of a projection "
                       "object vs the generated table; a history leg (ONE TapkeeOutput variable reused across 6-8 embed calls, "
                       "projecting <-> non-projecting, copy / move assignment and copy construction: projection present iff the "
                       "LAST method projects, and equal to the LAST embedding); d > D probes; non-trivial = N >= 4; distinct by case text"
                       % (32 if quick else 64))
    ctx.assumptions += [
        "harness compiled at -O0 -g1 (ASan+UBSan on) instead of -O1 -g: the all-methods translation unit needs 2-3 min and "
        "several GB otherwise",
        "IEEE rounding: projection(x_i) and the embedding row are demanded BITWISE equal (agreement only within 2^-40 is "
        "reported as a broken correspondence); model-vs-implementation values of P^T(x-mean) within 2^-40 of the largest product magnitude",
        "NPE, LLTSA, LPP: a numerical failure (throw / non-finite output) is accepted only when the DATA are degenerate "
        "(centred features of rank < D, or coincident samples — computed exactly per case, counted); everywhere else, and "
        "for PCA / Random Projection always, it is a failing input; wrong_parameter_error on a valid request "
        "(1 <= d <= D, 3 <= k < N, d <= k) is a failing input; more than 25 % skipped cases of a method is a broken "
        "correspondence",
    ]


def replay_case(ctx, body):
    binary = build(ctx)
    if not binary:
        return
    ctx._seen = {}
    run_all(ctx, binary, [parse_case(body["case"])], do_shrink=False)
