"""C19 — SPE, Random Projection, Factor Analysis meet their spec for every random stream.

Model: lean/TapkeeVerif/Model/{Spe,RandProj,Fa}.lean (randomness = input streams); theorems: Props/C19.lean;
harness: harness/c19_rand.cpp, built twice:
  * `streams` (ASan+UBSan, -DC19_STREAMS): shuffle generator seeded, uniform / gaussian / Eigen::Random streams supplied
    by the case line -> model and code are driven by the SAME streams (index bookkeeping, update algebra, RP, FA);
  * `nat` (no sanitizers, -O2): the library's default random paths under std::srand + seeded shuffle generator ->
    statistical TESTS over seeds (convergence, finiteness, moments) and translation metamorphism.

Sections of correspond():
  A  index bookkeeping of spe_embedding vs model, per iteration (pairs seen through the distance callback)
  B  update algebra: exact mode (one iteration, equality of coordinates) and approx mode (2..25 iterations, 2^-30)
  C  Random Projection: model from the Gaussian stream (exact / approx), observed matrix, translation metamorphism
  D  Factor Analysis: T = 0 exact algebra, transcribed EM step (eps = 0) approx, span / column-mean / translation
  E  statistical TESTS (labelled as tests): SPE global stress, SPE local finiteness + neighbour stress, moments
  F  long-run selection coverage of the local strategy (consequence search for the index-vector overwrite)
"""
import math
import os
import re
import threading
from fractions import Fraction

import vlib

PROPERTY = "C19"
LEAN_MODULES = ["TapkeeVerif.Props.C19", "TapkeeVerif.Props.C19Tree"]
LEAN_EXES = ["model_c19"]
REQUIRED_THEOREMS = [
    "TapkeeVerif.C19.spe_indices_perm_global",
    "TapkeeVerif.C19.spe_global_pairs_distinct",
    "TapkeeVerif.C19.spe_indices_perm_local_refuted",
    "TapkeeVerif.C19.spe_indices_local_partial",
    "TapkeeVerif.C19.spe_indices_perm_local_separate",
    "TapkeeVerif.C19.spe_indices_perm_local_current",
    "TapkeeVerif.C19.spe_indices_perm_local",
    "TapkeeVerif.C19.spe_local_pairs",
    "TapkeeVerif.C19.spe_alpha_defined",
    "TapkeeVerif.C19.spe_run_total_current",
    "TapkeeVerif.C19.spe_local_duplicate_first_members",
    "TapkeeVerif.C19.spe_floor_pick_in_range",
    "TapkeeVerif.C19.spe_run_uses_step_pairs",
    "TapkeeVerif.C19.spe_pair_step_contracts",
    "TapkeeVerif.C19.spe_fixed_point",
    "TapkeeVerif.C19.spe_iteration_preserves_centroid",
    "TapkeeVerif.C19.spe_run_total",
    "TapkeeVerif.C19.spe_alpha_zero_distances",
    "TapkeeVerif.C19.uniform_random_in_unit_interval",
    "TapkeeVerif.C19.gaussian_random_finite",
    "TapkeeVerif.C19.gaussian_random_terminates",
    "TapkeeVerif.C19.rp_translation_invariant",
    "TapkeeVerif.C19.rp_is_linear_in_centred_data",
    "TapkeeVerif.C19.fa_translation_invariant",
    "TapkeeVerif.C19.fa_is_centred_times_loading",
]

APPROX = Fraction(1, 2 ** 30)

GEN_FILE = os.path.join(vlib.LEAN_DIR, "TapkeeVerif", "Gen", "SpeVariant.lean")


# ----------------------------------------------------------------------------- translator (Gen/SpeVariant.lean)
# Two SHAPE bits of routines/spe.hpp select the model variant (both variants are modelled and proved about):
#   spePartnersInPlace : the local strategy stores the picked partner into the shuffled index vector itself
#   speAlphaZeroGuard  : the global normaliser alpha is protected against a vanishing maximum distance
# They are recognised statically (tolerant of renamed locals, commuted operands, `if` vs `?:`, std:: prefixes); a shape
# that is not recognised is NOT a failure: the bits are then decided DYNAMICALLY from the behaviour of the real routine on
# tiny witness cases (recorded in the evidence).  Only contradictory dynamic evidence is a broken tie.  The bits merely
# choose the model; the property oracles on the implementation's observations do not depend on them.
def _spe_code(repo):
    src = open(os.path.join(repo, "include", "tapkee", "routines", "spe.hpp")).read()
    code = re.sub(r"/\*.*?\*/", " ", src, flags=re.S)
    code = re.sub(r"//[^\n]*", " ", code)
    return code.replace("std::", "").replace("tapkee::", "")


def spe_variant(repo):
    """True: partner written into the shuffled vector (`S[a + b] = H[r]`); False: into another vector (`V[j] = H[r]`);
    None: shape not recognised"""
    code = _spe_code(repo)
    m = re.search(r"random_shuffle\s*\(\s*(\w+)\s*\.\s*begin", code)
    shuffled = m.group(1) if m else None
    rv = re.findall(r"(\w+)\s*=\s*[^;{}]*\buniform_random\s*\(\s*\)[^;{}]*;", code)
    if shuffled is None or len(rv) != 1:
        return None
    st = re.findall(r"(\w+)\s*\[\s*([^\]]+?)\s*\]\s*=\s*(\w+)\s*\[\s*%s\s*\]\s*;" % re.escape(rv[0]), code)
    if len(st) != 1:
        return None
    target, index, _helper = st[0]
    index = re.sub(r"\s+", "", index)
    if target == shuffled and re.fullmatch(r"\w+\+\w+", index):
        return True
    if target != shuffled and re.fullmatch(r"\w+", index) and (
            re.search(r"\b%s\s*\.\s*begin" % re.escape(target), code) or len(re.findall(r"\b%s\s*\[" % re.escape(target), code)) >= 2):
        return False
    return None


def spe_alpha_guard(repo):
    """True / False / None (not recognised): is the division by the maximum distance protected by a comparison of that
    maximum with zero (in a `?:` or an enclosing / preceding `if`)?"""
    code = _spe_code(repo)
    assigns = [m for m in re.finditer(r"\balpha\s*=\s*([^;]+);", code)]
    nonzero = [m for m in assigns if re.sub(r"\s+", "", m.group(1)) not in ("0", "0.0", "0.")]
    if not assigns or not nonzero:
        return None
    seg = re.sub(r"\s+", "", code[assigns[0].start():nonzero[-1].end()])
    # the name of the maximum: the divisor in the expression that also contains sqrt(2...)
    expr = re.sub(r"\s+", "", " ".join(m.group(1) for m in nonzero))
    if "sqrt(2" not in expr:
        return None
    dv = re.findall(r"/\(?(\w+)\)?", expr)
    dv = [d for d in dv if not re.fullmatch(r"[0-9.]+", d)]
    if len(set(dv)) != 1:
        return None
    mx = re.escape(dv[0])
    zero = r"0(?:\.0*)?"
    guard = re.search(r"%s(>|!=)%s(?![0-9.])|(?<![0-9.])%s(<|!=)%s\b|%s==%s(?![0-9.])|(?<![0-9.])%s==%s\b" % (mx, zero, zero, mx, mx, zero, zero, mx), seg)
    return bool(guard)


def _simulate_local(N, nb, k, nup, perms, unif, inplace):
    idx = list(range(N))
    c = 0
    out = []
    for pi in perms:
        idx = [idx[p] for p in pi]
        partners = []
        for j in range(nup):
            partners.append(nb[idx[j]][int(math.floor(unif[c] * (k - 1)))])
            c += 1
        if inplace:
            for j in range(nup):
                idx[nup + j] = partners[j]
        out += [(idx[j], partners[j]) for j in range(nup)]
    return out


def dynamic_shape(ctx, need_variant, need_guard):
    """decide the shape bits from the behaviour of the real routine on tiny witness cases (streams harness)"""
    sflags = ["-g1" if f == "-g" else f for f in vlib.HARNESS_FLAGS]
    binary, log = ctx.build_harness("c19_rand.cpp", name="c19_rand_streams", extra=["-DC19_STREAMS"], flags=sflags)
    if not binary:
        raise ValueError("shape of spe.hpp not recognised and the harness does not build: " + log[-400:])
    inplace = guard = None
    if need_guard:
        out = ctx.run_impl_cases(binary, ["spe N=2 d=1 g=1 k=0 nup=1 T=1 tol=1/8 seed=1 mode=approx dm=0,0,0,0 y0=0,1 np=1"])
        if not out or out[0].startswith("abort:"):
            raise ValueError("dynamic shape decision (alpha guard): the witness case aborts: %s" % out[:1])
        guard = fields("x " + out[0]).get("fin") == "1"
    if need_variant:
        r = vlib.SplitMix64(777)
        lines, meta = [], []
        for _ in range(12):
            N = r.range(4, 6)
            k = r.range(1, 2)
            nb = random_lists(r, N, k)
            nup = N // 2
            T = 5
            unif = [Fraction(r.below(8), 8) for _ in range(T * nup)]
            lines.append(spe_line(N, 1, 0, k, nup, T, Fraction(1, 8), r.below(1000), nb, small_dm(r, N), [[Fraction(0)]] * N, unif, "idx")
                         + " np=%d" % T)
            meta.append((N, nb, k, nup, unif))
        outs = ctx.run_impl_cases(binary, lines)
        ok = {True: True, False: True}
        for (N, nb, k, nup, unif), io in zip(meta, outs):
            if io.startswith("abort:"):
                raise ValueError("dynamic shape decision (partner store): a witness case aborts: " + io)
            o = fields("x " + io)
            perms = [list(map(int, p.split(","))) for p in o["perms"].split(";")]
            pairs = parse_pairs(o["pairs"])
            for v in (True, False):
                if _simulate_local(N, nb, k, nup, perms, [float(u) for u in unif], v) != pairs:
                    ok[v] = False
        if ok[True] == ok[False]:
            raise ValueError("dynamic shape decision (partner store) is contradictory: in-place matches=%s, separate matches=%s"
                             % (ok[True], ok[False]))
        inplace = ok[True]
    return inplace, guard


def translate(ctx):
    inplace = spe_variant(vlib.REPO)
    guard = spe_alpha_guard(vlib.REPO)
    how = {"partner_store": "recognised statically", "alpha_guard": "recognised statically"}
    if inplace is None or guard is None:
        dyn_inplace, dyn_guard = dynamic_shape(ctx, inplace is None, guard is None)
        if inplace is None:
            inplace = dyn_inplace
            how["partner_store"] = "flag determined dynamically (shape of the statement not recognised)"
        if guard is None:
            guard = dyn_guard
            how["alpha_guard"] = "flag determined dynamically (shape of the assignment not recognised)"
    text = ("/-! GENERATED by checks/c19.py (translate) from include/tapkee/routines/spe.hpp — do not edit.\n"
            "    Where the local strategy of `spe_embedding` stores the partner it picked:\n"
            "    `true`  : `indices[nupdates + j] = ind1Neighbors[r]` (in place, the pinned commit);\n"
            "    `false` : a separate vector `v[j] = ind1Neighbors[r]`, `ind2 = v.begin()`. -/\n"
            "namespace TapkeeVerif.Gen\n\n"
            "def spePartnersInPlace : Bool := %s\n\n"
            "/-- global strategy: `alpha = max > 0.0 ? 1.0 / max * sqrt(2.0) : 0.0` (`true`) or the unguarded\n"
            "    `alpha = 1.0 / max * sqrt(2.0)` (`false`, divides by zero when all input distances vanish) -/\n"
            "def speAlphaZeroGuard : Bool := %s\n\n"
            "end TapkeeVerif.Gen\n" % ("true" if inplace else "false", "true" if guard else "false"))
    changed = vlib.write_if_changed(GEN_FILE, text)
    ctx.log("Gen/SpeVariant.lean %s (partners %s [%s]; alpha %s [%s])" % (
        "regenerated" if changed else "unchanged", "in place" if inplace else "in a separate vector", how["partner_store"],
        "guarded" if guard else "unguarded", how["alpha_guard"]))
    ctx.extra["spe_partner_store"] = "in-place overwrite of indices" if inplace else "separate vector"
    ctx.extra["spe_alpha_zero_guard"] = guard
    ctx.extra["spe_shape_bits_how"] = how


# ----------------------------------------------------------------------------- numbers
def num(s):
    """harness / case number -> Fraction (exact)"""
    if ":" in s:
        m, e = s.split(":")
        e = int(e)
        return Fraction(int(m)) * (Fraction(2) ** e)
    return Fraction(s)


def fr(x):
    x = Fraction(x)
    return str(x.numerator) if x.denominator == 1 else "%d/%d" % (x.numerator, x.denominator)


def rows(s):
    return [[num(t) for t in r.split(",")] for r in s.split(";")] if s else []


def fields(line):
    return dict(t.split("=", 1) for t in line.split()[1:] if "=" in t)


def fmt_rows(m):
    return ";".join(",".join(fr(x) for x in r) for r in m)


def rel_err(a, b):
    """max |a-b| / max(1, max|a|) over two equally shaped row lists (exact rational arithmetic)"""
    fa = [x for r in a for x in r]
    fb = [x for r in b for x in r]
    if len(fa) != len(fb):
        return None
    scale = max([Fraction(1)] + [abs(x) for x in fa])
    return max([Fraction(0)] + [abs(x - y) for x, y in zip(fa, fb)]) / scale


def fdist(p, q):
    return math.sqrt(sum((float(a) - float(b)) ** 2 for a, b in zip(p, q)))


# ----------------------------------------------------------------------------- harness builds
class Bins:
    streams = None
    nat = None


def build(ctx):
    res = {}

    def mk(name, extra, flags):
        res[name] = ctx.build_harness("c19_rand.cpp", name="c19_rand_" + name, extra=extra, flags=flags)

    sflags = ["-g1" if f == "-g" else f for f in vlib.HARNESS_FLAGS]
    th = [threading.Thread(target=mk, args=("streams", ["-DC19_STREAMS"], sflags)),
          threading.Thread(target=mk, args=("nat", [], list(vlib.FAST_FLAGS)))]
    for t in th:
        t.start()
    for t in th:
        t.join()
    b = Bins()
    for name in ("streams", "nat"):
        binary, log = res[name]
        if not binary:
            ctx.broken("harness-build:" + name, "harness c19_rand.cpp (%s build)" % name,
                       "harness does not compile against the repository: " + log[-1200:])
            return None
        setattr(b, name, binary)
    return b


def run_impl(ctx, binary, lines):
    return ctx.run_impl_cases(binary, lines, timeout=900)


def run_model(ctx, lines):
    if not lines:
        return []
    rc, out, err = ctx.run_model("model_c19", lines)
    if rc != 0 or len(out) != len(lines):
        ctx.broken("model-driver", "model_c19", "model driver failed: rc=%s answered %d of %d lines %s"
                   % (rc, len(out), len(lines), err[-300:]))
        return None
    return out


def abort_fail(ctx, what, line, io):
    sig = io[len("abort:"):]
    ctx.stat("impl-abort")
    ctx.fail("abort:" + sig, "%s aborts (%s)" % (what, sig), case=line,
             detail={"impl": io, "stderr": getattr(ctx, "last_abort_stderr", "")[-1500:]})


# ----------------------------------------------------------------------------- SPE: generators
def knn_lists(pts, k):
    out = []
    for i in range(len(pts)):
        o = sorted((sum((a - b) ** 2 for a, b in zip(pts[i], pts[j])), j) for j in range(len(pts)) if j != i)
        out.append([j for _, j in o[:k]])
    return out


def random_lists(r, N, k):
    return [r.shuffle([j for j in range(N) if j != i])[:k] for i in range(N)]


def with_ids(r, line, N):
    """the iterator range holds item ids: a shuffled subset of a larger id space (3 of 4 cases), so that positions in the
    range and items differ; all data stay positional and the callbacks translate ids back (harness: IdMap)"""
    if r.chance(1, 4):
        return line
    return line + " ids=" + ",".join(map(str, r.shuffle(list(range(3 * N + 5)))[:N]))


def spe_line(N, d, g, k, nup, T, tol, seed, nb, dm, y0, unif, mode):
    s = "spe N=%d d=%d g=%d k=%d nup=%d T=%d tol=%s seed=%d mode=%s" % (N, d, g, k, nup, T, fr(tol), seed, mode)
    if not g:
        s += " nb=" + ";".join(",".join(map(str, l)) for l in nb)
    s += " dm=" + ",".join(fr(x) for row in dm for x in row)
    s += " y0=" + ",".join(fr(x) for p in y0 for x in p)
    if unif:
        s += " unif=" + ",".join(fr(u) for u in unif)
    return s


def small_dm(r, N, den=1, lo=1, hi=8):
    dm = [[Fraction(0)] * N for _ in range(N)]
    for i in range(N):
        for j in range(i + 1, N):
            dm[i][j] = dm[j][i] = Fraction(r.range(lo, hi), den)
    return dm


def pick_nup(r, N):
    c = r.below(6)
    if c == 0:
        return 1
    if c == 1:
        return max(1, N // 2)
    if c == 2:
        return N
    if c == 3:
        return N // 2 + 1 + r.below(3)
    return r.range(1, max(1, N // 2))


def gen_idx_case(r, quick):
    N = r.range(2, 12) if r.chance(3, 4) else r.range(13, 24 if quick else 48)
    g = 1 if r.chance(2, 5) else 0
    k = 0
    nb = []
    if not g:
        k = r.range(1, min(6, N - 1))
        if r.chance(1, 2):
            pts = [[Fraction(r.below(17)), Fraction(r.below(17))] for _ in range(N)]
            nb = knn_lists(pts, k)
        else:
            nb = random_lists(r, N, k)
    nup = pick_nup(r, N)
    if r.chance(1, 25) and N <= 10:
        T = 0  # default max_iter
    else:
        T = r.range(1, 8) if r.chance(1, 2) else r.range(9, 40 if quick else 200)
    seed = r.below(1 << 31)
    iters = T if T else (2000 + (4 * N * N) // 100) * (1 if g else 3)
    nupc = min(nup, N // 2)
    edge = [Fraction(0), Fraction(63, 64), Fraction(1, 2), Fraction(1, 64)]
    unif = [] if g else [(r.choice(edge) if r.chance(1, 5) else Fraction(r.below(64), 64)) for _ in range(iters * nupc)]
    y0 = [[Fraction(r.below(9), 8)] for _ in range(N)]
    return with_ids(r, spe_line(N, 1, g, k, nup, T, Fraction(1, 8), seed, nb, small_dm(r, N), y0, unif, "idx"), N)


# vectors whose norm D satisfies D + tol = power of two (so that every quotient of the update is exact)
EXACT_MENU = {
    2: [(Fraction(3, 8), [(3, 4), (4, 3), (5, 0), (0, 5), (5, 12), (12, 5), (13, 0), (0, 13), (20, 21), (0, 0)]),
        (Fraction(1, 8), [(7, 0), (0, 7), (9, 12), (12, 9), (3, 0), (0, 3), (15, 0), (0, 0)])],
    3: [(Fraction(1, 8), [(1, 2, 2), (2, 1, 2), (2, 2, 1), (2, 3, 6), (6, 2, 3), (3, 6, 2), (7, 0, 0), (0, 3, 0),
                          (0, 9, 12), (0, 0, 0)]),
        (Fraction(3, 8), [(3, 4, 0), (0, 4, 3), (5, 0, 0), (0, 5, 12), (12, 0, 5), (0, 0, 13), (0, 0, 0)])],
}


def design_exact(r, N, d, pairs):
    """positions (dyadic) such that every pair (a,b) has y_a - y_b in the menu; None if the pair graph has a cycle"""
    tol, menu = r.choice(EXACT_MENU[d])
    adj = {}
    und = set()
    for a, b in pairs:
        if a == b:
            return None
        key = (min(a, b), max(a, b))
        if key in und:
            continue
        und.add(key)
        adj.setdefault(a, []).append((b, +1))
        adj.setdefault(b, []).append((a, -1))
    pos = {}
    vec = {}
    for root in range(N):
        if root in pos:
            continue
        pos[root] = [Fraction(r.below(9), 8) for _ in range(d)]
        stack = [(root, -1)]
        while stack:
            u, parent = stack.pop()
            for (v, sgn) in adj.get(u, []):
                if v == parent:
                    continue
                if v in pos:
                    return None  # cycle
                key = (min(u, v), max(u, v))
                w = [Fraction(c * r.choice([1, -1]), 8) for c in r.choice(menu)]
                vec[key] = w
                # sgn=+1: edge (u, v) means y_u - y_v = w ; sgn=-1: edge (v, u) means y_v - y_u = w
                pos[v] = [pu - wc for pu, wc in zip(pos[u], w)] if sgn > 0 else [pu + wc for pu, wc in zip(pos[u], w)]
                stack.append((v, u))
    return tol, [pos[i] for i in range(N)]


def gen_approx_case(r, quick):
    N = r.range(3, 12)
    d = r.range(1, 3)
    g = 1 if r.chance(1, 2) else 0
    k = 0
    nb = []
    pts = [[Fraction(r.below(33), 8) for _ in range(2)] for _ in range(N)]
    if not g:
        k = r.range(1, min(4, N - 1))
        nb = knn_lists(pts, k)
    nup = pick_nup(r, N)
    T = r.range(2, 12 if quick else 25)
    tol = r.choice([Fraction(1, 2), Fraction(1, 8), Fraction(1, 32)])
    dm = [[Fraction(0)] * N for _ in range(N)]
    for i in range(N):
        for j in range(i + 1, N):
            dd = Fraction(max(1, round(fdist(pts[i], pts[j]) * 16)), 16)
            dm[i][j] = dm[j][i] = dd
    if g and r.chance(1, 16):
        # all samples coincide: every input distance is 0 (trivially realisable; the maximum distance vanishes)
        dm = [[Fraction(0)] * N for _ in range(N)]
    y0 = [[Fraction(r.below(65), 64) for _ in range(d)] for _ in range(N)]
    nupc = min(nup, N // 2)
    unif = [] if g else [Fraction(r.below(64), 64) for _ in range(T * nupc)]
    return with_ids(r, spe_line(N, d, g, k, nup, T, tol, r.below(1 << 31), nb, dm, y0, unif, "approx"), N)


# ----------------------------------------------------------------------------- SPE: oracle + correspondence
def spe_oracle(f, pairs, nupc, perms):
    """property oracle on the pairs the implementation evaluated.  Returns (signature, message) or None.
       all indices < N; no self pairs; global: every iteration uses 2*nup distinct indices;
       local: the first members are the first nup entries of the permutation maintained by the successive shuffles
       (P_t = P_{t-1} o pi_t, P_{-1} = identity) and every partner is a true neighbour of its first member."""
    N = int(f["N"])
    g = int(f["g"])
    nb = [list(map(int, l.split(","))) for l in f["nb"].split(";")] if not g else None
    if nupc == 0:
        return None
    P = list(range(N))
    for t in range(len(pairs) // nupc):
        it = pairs[t * nupc:(t + 1) * nupc]
        for (a, b) in it:
            if not (0 <= a < N and 0 <= b < N):
                return ("spe:index-out-of-range", "iteration %d uses index pair (%d,%d) with N=%d" % (t, a, b, N))
        for (a, b) in it:
            if a == b:
                return ("spe:self-pair", "iteration %d updates the self pair (%d,%d)" % (t, a, b))
        if t < len(perms):
            pi = perms[t]
            if sorted(pi) != list(range(N)):
                return ("spe:shuffle-not-permutation", "std::shuffle oracle returned a non-permutation at iteration %d" % t)
            P = [P[p] for p in pi]
        if g:
            flat = [x for ab in it for x in ab]
            if len(set(flat)) != len(flat):
                return ("spe-global:repeated-index", "iteration %d of the global strategy uses an index twice: %s" % (t, it))
            if t < len(perms) and ([a for a, _ in it] != P[:nupc] or [b for _, b in it] != P[nupc:2 * nupc]):
                return ("spe-global:not-the-shuffled-prefix", "iteration %d: pairs %s are not the first 2*nup entries of the shuffled permutation %s" % (t, it, P))
        else:
            for (a, b) in it:
                if b not in nb[a]:
                    return ("spe-local:partner-not-neighbour", "iteration %d pairs %d with %d which is not among its neighbours %s" % (t, a, b, nb[a]))
            firsts = [a for a, _ in it]
            if len(set(firsts)) != len(firsts):
                return ("spe-local:perm", "iteration %d of the local strategy selects a point twice as first member: %s "
                        "(the index vector is no longer a permutation)" % (t, firsts))
            if t < len(perms) and firsts != P[:nupc]:
                return ("spe-local:perm", "iteration %d of the local strategy: first members %s are not the first nup entries %s "
                        "of the permutation maintained by the shuffles (index vector no longer that permutation, or the callback "
                        "did not receive the items at those positions)"
                        % (t, firsts, P[:nupc]))
    return None


def parse_pairs(s):
    """`a-b,c-d,...` (an index can be negative: -1 = the callback received something that is not an item of the range)"""
    return [(int(m.group(1)), int(m.group(2))) for m in re.finditer(r"(-?\d+)-(-?\d+)(?:,|$)", s)] if s else []


def judge_spe(ctx, bins, lines, label):
    """lines: self-contained `spe` case lines (mode=idx|exact|approx)"""
    if not lines:
        return []
    defs = run_model(ctx, ["spedef N=%s g=%s T=%s nup=%s" % (f["N"], f["g"], f["T"], f["nup"]) for f in map(fields, lines)])
    if defs is None:
        return []
    info = [fields("x " + d) for d in defs]
    impl_lines = [l + " np=%s" % i["iters"] for l, i in zip(lines, info)]
    impl = run_impl(ctx, bins.streams, impl_lines)
    mlines, keep = [], []
    results = [None] * len(lines)
    for n, (line, io, inf) in enumerate(zip(lines, impl, info)):
        f = fields(line)
        mode = f["mode"]
        ctx.stat("spe:" + label)
        ctx.stat("spe:%s" % ("global" if f["g"] == "1" else "local"))
        if io.startswith("abort:"):
            abort_fail(ctx, "spe_embedding (N=%s nup=%s %s strategy)" % (f["N"], f["nup"], "global" if f["g"] == "1" else "local"), line, io)
            results[n] = "abort"
            continue
        o = fields("x " + io)
        ml = "spe " + " ".join("%s=%s" % (k, v) for k, v in f.items() if k not in ("mode", "y0", "seed", "k", "ids"))
        ml += " mode=%s perms=%s" % ("idx" if mode == "idx" else "full", o.get("perms", ""))
        if mode != "idx":
            ml += " y0=%s yobs=%s" % (o["y0"], o["y"])
        mlines.append(ml)
        keep.append((n, line, f, o, inf))
    model = run_model(ctx, mlines)
    if model is None:
        return results
    for (n, line, f, o, inf), mo in zip(keep, model):
        mode = f["mode"]
        N = int(f["N"])
        nupc = int(inf["nup"])
        iters = int(inf["iters"])
        pairs = parse_pairs(o.get("pairs", ""))
        perms = [list(map(int, p.split(","))) for p in o["perms"].split(";")] if o.get("perms") else []
        nontrivial = iters >= 2 and nupc >= 1 and N >= 3
        ctx.count(line, nontrivial)
        ctx.cov["traces_validated_against_impl"] += 1
        ctx.stat("spe-iterations", iters)
        ctx.stat("spe-pairs", len(pairs))
        # 1. property oracle on the implementation's observations
        bad = None
        if o.get("fin") != "1" and f["g"] == "1" and all(t in ("0", "0/1") for t in f["dm"].split(",")):
            bad = ("spe-global:zero-distances", "global strategy on coinciding samples (all input distances 0): alpha = 1/max*sqrt(2) "
                   "divides by zero and every coordinate of the embedding is NaN")
        elif o.get("fin") != "1":
            bad = ("spe:nonfinite", "spe_embedding returned non-finite coordinates")
        elif int(o.get("badid", "0")) > 0:
            bad = ("range:callback-received-non-item", "the distance callback was called %s times with something that is not an item "
                   "of the iterator range (items %s): positions instead of begin[position]?" % (o["badid"], f.get("ids", "0..N-1")[:60]))
        elif int(o.get("oobidx", "0")) > 0:
            bad = ("spe:index-out-of-range", "the distance callback was called with an index outside 0..N-1")
        elif o.get("rows") != f["N"] or o.get("cols") != f["d"]:
            bad = ("spe:shape", "embedding is %s x %s, expected %s x %s" % (o.get("rows"), o.get("cols"), f["N"], f["d"]))
        else:
            bad = spe_oracle(f, pairs, nupc, perms)
        if bad:
            ctx.stat("impl-oracle-reject")
            ctx.fail(bad[0], "SPE: " + bad[1], case=line, detail={"impl": o_short(o), "model": mo[:600]})
            results[n] = bad[0]
            continue
        # 2. model vs implementation
        if mo.startswith("bad") or "ERR:" in mo:
            ctx.stat("fidelity-mismatch")
            ctx.broken("corr:spe-model-error", "correspondence c19 spe (model answers %s, implementation ran)" % mo[-40:],
                       "SPE model reaches an error state on a case the implementation survived", case=line,
                       detail={"impl": o_short(o), "model": mo[:600]})
            results[n] = "model-error"
            continue
        m = fields("x " + mo)
        problems = []
        if nupc > 0 and (len(pairs) != iters * nupc):
            problems.append("iterations: implementation evaluated %d pairs, model %d iterations x %d updates" % (len(pairs), iters, nupc))
        if parse_pairs(m.get("pairs", "")) != pairs:
            problems.append("pairs differ")
        if o.get("preok") != "1":
            problems.append("pre-scan of the maximum distance is not the N(N-1)/2 pairs i<j in order")
        if o.get("gsync") != "1":
            problems.append("shuffle generator consumed differently from one std::shuffle of N indices per iteration")
        if m.get("permsok") != "1":
            problems.append("observed shuffles are not permutations")
        if o.get("nu") != m.get("nu"):
            problems.append("uniform_random() calls: implementation %s model %s" % (o.get("nu"), m.get("nu")))
        if o.get("uex") == "1" or o.get("eex") == "1":
            problems.append("a supplied stream was exhausted")
        if mode != "idx":
            yc = m.get("ycmp", "")
            if rows_of_y0(f) != rows(o["y0"]):
                problems.append("initial configuration not the supplied one (harness control)")
            if yc == "eq":
                ctx.stat("cmp-exact")
            elif yc.startswith("approx") and mode == "approx":
                ctx.stat("cmp-approx")
                e2 = int(yc.split(":")[1])
                ctx.extra["spe_worst_rel_err_log2"] = max(ctx.extra.get("spe_worst_rel_err_log2", -9999), e2)
            else:
                problems.append("coordinates after %d iteration(s): %s (mode %s)" % (iters, yc, mode))
        if problems:
            ctx.stat("fidelity-mismatch")
            ctx.broken("corr:spe-" + ("coords" if any("coordinates" in p for p in problems) else "indices"),
                       "correspondence c19 spe (model and spe_embedding driven by the same streams)",
                       "SPE model and implementation disagree: " + "; ".join(problems), case=line,
                       detail={"impl": o_short(o), "model": mo[:800]})
            results[n] = "mismatch"
        else:
            ctx.stat("fidelity-identical")
            results[n] = "ok"
            if mode != "idx" and len(line) < 900:
                ctx.sample({"case": line, "impl_y": o["y"][:300], "model": mo[:200]})
    return results


def rows_of_y0(f):
    d = int(f["d"])
    v = [num(t) for t in f["y0"].split(",")]
    return [v[i:i + d] for i in range(0, len(v), d)]


def o_short(o):
    return {k: (v if len(v) < 400 else v[:400] + "...") for k, v in o.items()}


def make_exact_cases(ctx, bins, r, count):
    """two-phase: learn the iteration-1 pairs for the seed (they do not depend on coordinates), then design
    coordinates / distances for which every intermediate of the real update is an exactly representable dyadic"""
    probes = []
    meta = []
    for _ in range(count * 2):
        N = r.range(2, 12)
        d = r.choice([2, 2, 3])
        k = r.range(1, min(4, N - 1))
        nb = random_lists(r, N, k) if r.chance(1, 2) else knn_lists([[Fraction(r.below(17)), Fraction(r.below(17))] for _ in range(N)], k)
        nup = r.range(1, max(1, N // 2)) if r.chance(2, 3) else N
        seed = r.below(1 << 31)
        nupc = min(nup, N // 2)
        unif = [Fraction(r.below(64), 64) for _ in range(nupc)]
        y0 = [[Fraction(0)] * d for _ in range(N)]
        dm = small_dm(r, N)
        probes.append(spe_line(N, d, 0, k, nup, 1, Fraction(1, 8), seed, nb, dm, y0, unif, "idx") + " np=1")
        meta.append((N, d, k, nup, seed, nb, unif))
    outs = run_impl(ctx, bins.streams, probes)
    cases = []
    for (N, d, k, nup, seed, nb, unif), io in zip(meta, outs):
        if io.startswith("abort:") or len(cases) >= count:
            continue
        pairs = parse_pairs(fields("x " + io).get("pairs", ""))
        des = design_exact(r, N, d, pairs)
        if des is None:
            ctx.stat("exact-design-rejected(cycle)")
            continue
        tol, y0 = des
        dm = small_dm(r, N, den=4, lo=0, hi=16)
        cases.append(with_ids(r, spe_line(N, d, 0, k, nup, 1, tol, seed, nb, dm, y0, unif, "exact"), N))
    return cases


# ----------------------------------------------------------------------------- Random Projection
def gen_rp_case(r, exact):
    if exact:
        D = r.choice([1, 4, 4, 16])
        N = r.choice([2, 4, 8])
        d = r.range(1, N - 1)
        pts = [[Fraction(r.range(-8, 8)) for _ in range(D)] for _ in range(N)]
        shift = [Fraction(r.range(-16, 16), r.choice([1, 1, 2])) for _ in range(D)]
        gauss = [Fraction(r.range(-12, 12), 4) for _ in range(D * d)]
    else:
        D = r.choice([2, 3, 5, 6, 7, 9])
        N = r.range(3, 9)
        d = r.range(1, N - 1)
        pts = [[Fraction(r.range(-64, 64), 8) for _ in range(D)] for _ in range(N)]
        shift = [Fraction(r.range(-100, 100), 8) for _ in range(D)]
        gauss = [Fraction(r.range(-4096, 4096), 1024) for _ in range(D * d)]
    return "rp N=%d D=%d d=%d mode=%s pts=%s shift=%s gauss=%s" % (
        N, D, d, "exact" if exact else "approx", fmt_rows(pts), ",".join(map(fr, shift)), ",".join(map(fr, gauss)))


def far_tol(shift):
    """declared tolerance of the large-offset translation pairs, relative at embedding level: offset * 2^-43.
    Centring data of spread ~2^4 that sit at distance `offset` from the origin costs about offset * 2^-53 per entry; the worst
    relative change measured on the clean tree is 2^-35.6 / 2^-30.9 / 2^-25.1 at offsets 2^20 / 2^24 / 2^30 (RP and FA,
    VERIF_SEED 1..3), i.e. a margin of >= 2^11; a one-pass variance formula loses offset^2 * 2^-53 and is far above it"""
    return max(abs(x) for x in shift) / Fraction(2 ** 43)


def far_shift(r, D):
    """translations by 2^20, 2^30 or 10^6 x spread (spread of the generated data: 16), random signs, non-integer jitter"""
    base = r.choice([Fraction(2 ** 20), Fraction(2 ** 30), Fraction(16 * 10 ** 6)])
    return [base * r.choice([1, -1]) + Fraction(r.range(-64, 64), 64) for _ in range(D)]


def note_far(ctx, what, shift, e):
    """worst observed relative change of an embedding under a large translation, per method and offset magnitude"""
    key = "%s offset~2^%d" % (what, round(math.log2(max(abs(float(x)) for x in shift))))
    d = ctx.extra.setdefault("far_translation_worst_log2", {})
    d[key] = max(d.get(key, -9999.0), round(math.log2(e), 1))


def gen_rp_far_case(r):
    D = r.range(1, 9)
    N = r.range(3, 17)
    d = r.range(1, N - 1)
    pts = [[Fraction(r.range(-512, 512), 64) for _ in range(D)] for _ in range(N)]
    gauss = [Fraction(r.range(-4096, 4096), 1024) for _ in range(D * d)]
    return "rp N=%d D=%d d=%d mode=far pts=%s shift=%s gauss=%s" % (
        N, D, d, fmt_rows(pts), ",".join(map(fr, far_shift(r, D))), ",".join(map(fr, gauss)))


def gen_rp_nat_case(r):
    D = r.range(1, 8)
    N = r.choice([2, 4, 8, 16])
    d = r.range(1, N - 1)
    pts = [[Fraction(r.range(-20, 20)) for _ in range(D)] for _ in range(N)]
    shift = [Fraction(r.range(-50, 50)) for _ in range(D)]
    rs = ""
    if r.chance(1, 2):
        rs = " rs=" + ",".join(map(str, gen_rand_script(r, r.range(1, 2 * D * d + 4))))
    return "rp N=%d D=%d d=%d mode=nat srand=%d pts=%s shift=%s%s" % (N, D, d, r.below(1 << 31), fmt_rows(pts), ",".join(map(fr, shift)), rs)


def judge_rp(ctx, bins, lines):
    if not lines:
        return
    fs = [fields(l) for l in lines]
    snat = [f["mode"] == "nat" for f in fs]
    impl = [None] * len(lines)
    for nat in (False, True):
        sub = [i for i in range(len(lines)) if snat[i] == nat]
        outs = run_impl(ctx, bins.nat if nat else bins.streams, [lines[i] for i in sub])
        for i, o in zip(sub, outs):
            impl[i] = o
    mlines, keep = [], []
    for line, f, io in zip(lines, fs, impl):
        ctx.stat("rp:" + f["mode"])
        if io.startswith("abort:"):
            abort_fail(ctx, "RandomProjection embed", line, io)
            continue
        if not io.startswith("ok "):
            ctx.fail("rp:throws", "RandomProjection raised %s on valid input" % io[:120], case=line)
            continue
        o = fields("x " + io)
        if o.get("fin") != "1":
            ctx.stat("impl-oracle-reject")
            ctx.count(line, True)
            ctx.fail("rp:nonfinite", "Random Projection returned a non-finite embedding / projection matrix (rand() stream %s)"
                     % f.get("rs", "seeded by srand")[:80], case=line, detail={"impl": o_short(o)})
            continue
        base = "N=%s D=%s d=%s pts=%s Pobs=%s yobs=%s" % (f["N"], f["D"], f["d"], f["pts"], o["P"], o["y"])
        if f["mode"] == "nat":
            mlines.append("rpobs " + base)
        else:
            mlines.append("rp " + base + " gauss=%s meanobs=%s" % (f["gauss"], o["mean"]))
        keep.append((line, f, o))
    model = run_model(ctx, mlines)
    if model is None:
        return
    for (line, f, o), mo in zip(keep, model):
        mode = f["mode"]
        N, D, d = int(f["N"]), int(f["D"]), int(f["d"])
        ctx.count(line, N >= 2 and D >= 1)
        ctx.cov["traces_validated_against_impl"] += 1
        m = fields("x " + mo)
        shift = [num(t) for t in f["shift"].split(",")]
        # ---- oracle on the implementation: shape, finiteness, translation invariance
        bad = None
        y = y2 = None
        if o["fin"] == "1":
            y, y2 = rows(o["y"]), rows(o["y2"])
        if int(o.get("badid", "0")) > 0:
            ctx.stat("impl-oracle-reject")
            ctx.fail("range:callback-received-non-item", "Random Projection called the feature callback %s times with something that is "
                     "not an item of the iterator range" % o["badid"], case=line)
            continue
        if o["fin"] != "1":
            bad = ("rp:nonfinite", "non-finite embedding / projection matrix (rand() stream %s)" % f.get("rs", "seeded")[:80])
        elif (int(o["rows"]), int(o["cols"])) != (N, d) or (int(o["prows"]), int(o["pcols"])) != (D, d):
            bad = ("rp:shape", "embedding %sx%s projection %sx%s for N=%d D=%d d=%d" % (o["rows"], o["cols"], o["prows"], o["pcols"], N, D, d))
        elif o["psame"] != "1":
            bad = ("rp:matrix-depends-on-data", "the same random stream produced a different projection matrix for the translated data")
        else:
            e = rel_err(y, y2)
            exact_expected = mode in ("exact", "nat")  # integer data, N a power of two, exactly representable shift
            ttol = far_tol(shift) if mode == "far" else APPROX
            if mode == "far" and e:
                note_far(ctx, "rp", shift, e)
            if e == 0:
                ctx.stat("translation-exact")
            elif e is not None and e <= ttol and not exact_expected:
                ctx.stat("translation-approx" if mode != "far" else "translation-far-approx")
            else:
                bad = ("rp:translation", "embedding changes under the translation %s (relative difference %s)" % (f["shift"], "2^%.1f" % math.log2(e) if e else e))
            mean, mean2 = [num(t) for t in o["mean"].split(",")], [num(t) for t in o["mean2"].split(",")]
            em = rel_err([mean2], [[a + b for a, b in zip(mean, shift)]])
            if bad is None and not (em == 0 or (em <= APPROX and not exact_expected)):
                bad = ("rp:mean", "mean of the translated data is not mean + shift")
        if bad:
            ctx.stat("impl-oracle-reject")
            ctx.fail(bad[0], "Random Projection: " + bad[1], case=line, detail={"impl": o_short(o), "model": mo})
            continue
        # ---- model vs implementation
        problems = []
        for key in (("pcmp", "mcmp", "ycmp") if mode != "nat" else ("ycmp",)):
            v = m.get(key, "missing")
            if v == "eq":
                ctx.stat("cmp-exact")
            elif v.startswith("approx") and mode != "exact":
                ctx.stat("cmp-approx")
            else:
                problems.append("%s=%s" % (key, v))
        if mode != "nat":
            if o["ng"] != m.get("ng") or o["gex"] == "1":
                problems.append("gaussian_random() calls: implementation %s model %s" % (o["ng"], m.get("ng")))
            if o["proj0"] != o["y"].split(";")[0]:
                if rel_err([[num(t) for t in o["proj0"].split(",")]], [y[0]]) > APPROX:
                    problems.append("projecting function of sample 0 differs from embedding row 0")
        if problems:
            ctx.stat("fidelity-mismatch")
            ctx.broken("corr:rp", "correspondence c19 rp (embedding = centred samples x Gaussian matrix of the stream)",
                       "Random Projection model and implementation disagree: " + "; ".join(problems), case=line,
                       detail={"impl": o_short(o), "model": mo})
        else:
            ctx.stat("fidelity-identical")
            if len(line) < 500:
                ctx.sample({"case": line, "impl_y": o["y"][:200], "model": mo})


# ----------------------------------------------------------------------------- Factor Analysis
def gen_fa_case(r, kind):
    """kind: t0 (exact algebra), em (transcribed EM, eps=0), nat (natural init, eps>0, many iterations)"""
    D = r.range(1, 4)
    d = r.range(1, 3)
    if kind == "t0":
        N = r.choice([2, 4, 8])
        N = max(N, 2)
        d = min(d, N - 1)
        pts = [[Fraction(r.range(-8, 8)) for _ in range(D)] for _ in range(N)]
        shift = [Fraction(r.range(-16, 16)) for _ in range(D)]
        a0 = [Fraction(r.range(-8, 8), 8) for _ in range(D * d)]
        return "fa N=%d D=%d d=%d T=0 eps=%s mode=t0 pts=%s shift=%s a0=%s" % (
            N, D, d, r.choice(["0", "1/1024"]), fmt_rows(pts), ",".join(map(fr, shift)), ",".join(map(fr, a0)))
    N = r.choice([8, 16]) if r.chance(2, 3) else r.range(D + 3, 12)
    d = min(d, N - 1)
    pts = [[Fraction(r.range(-8, 8)) for _ in range(D)] for _ in range(N)]
    shift = [Fraction(r.range(-16, 16)) for _ in range(D)]
    if kind == "em":
        a0 = [Fraction(r.range(1, 8) * r.choice([1, -1]), 8) for _ in range(D * d)]
        return "fa N=%d D=%d d=%d T=%d eps=0 mode=em pts=%s shift=%s a0=%s" % (
            N, D, d, r.range(1, 3), fmt_rows(pts), ",".join(map(fr, shift)), ",".join(map(fr, a0)))
    return "fa N=%d D=%d d=%d T=%d eps=%s mode=nat srand=%d pts=%s shift=%s" % (
        N, D, d, r.choice([1, 2, 5, 20, 100]), r.choice(["1:-30", "1/1024", "0"]), r.below(1 << 31), fmt_rows(pts),
        ",".join(map(fr, shift)))


def gen_fa_far_case(r, kind):
    """far: natural initialisation, generic dyadic data, translated by a LARGE offset (approx translation pair);
       emfar: the data themselves lie far from the origin, transcribed EM step against the exact model"""
    D = r.range(1, 4)
    d = r.range(1, 3)
    if kind == "far":
        N = r.range(D + 3, 20)
        d = min(d, N - 1)
        pts = [[Fraction(r.range(-512, 512), 64) for _ in range(D)] for _ in range(N)]
        return "fa N=%d D=%d d=%d T=%d eps=%s mode=far srand=%d pts=%s shift=%s" % (
            N, D, d, r.choice([1, 2, 5, 20]), r.choice(["1:-30", "1/1024"]), r.below(1 << 31), fmt_rows(pts),
            ",".join(map(fr, far_shift(r, D))))
    N = r.choice([8, 16])
    d = min(d, N - 1)
    off = far_shift(r, D)
    pts = [[off[c] + Fraction(r.range(-512, 512), 64) for c in range(D)] for _ in range(N)]
    a0 = [Fraction(r.range(1, 8) * r.choice([1, -1]), 8) for _ in range(D * d)]
    return "fa N=%d D=%d d=%d T=%d eps=0 mode=emfar pts=%s shift=%s a0=%s" % (
        N, D, d, r.range(1, 3), fmt_rows(pts), ",".join(map(fr, [-x for x in off])), ",".join(map(fr, a0)))


def pow2(n):
    return n & (n - 1) == 0


def judge_fa(ctx, bins, lines):
    if not lines:
        return
    fs = [fields(l) for l in lines]
    impl = [None] * len(lines)
    for nat in (False, True):
        sub = [i for i in range(len(lines)) if (fs[i]["mode"] in ("nat", "far")) == nat]
        outs = run_impl(ctx, bins.nat if nat else bins.streams, [lines[i] for i in sub])
        for i, o in zip(sub, outs):
            impl[i] = o
    mlines, keep = [], []
    for line, f, io in zip(lines, fs, impl):
        ctx.stat("fa:" + f["mode"])
        if io.startswith("abort:"):
            abort_fail(ctx, "FactorAnalysis embed", line, io)
            continue
        if not io.startswith("ok "):
            ctx.fail("fa:throws", "FactorAnalysis raised %s on valid input" % io[:120], case=line)
            continue
        o = fields("x " + io)
        if o["fin"] != "1":
            # singular EM matrices on degenerate data are not part of the property (no finiteness claim for FA)
            ctx.stat("fa:nonfinite-skipped")
            continue
        mlines.append("fa N=%s D=%s d=%s T=%s eps=%s pts=%s a0=%s yobs=%s em=%d" % (
            f["N"], f["D"], f["d"], f["T"], f["eps"], f["pts"], o["a0"], o["y"], 1 if f["mode"] in ("em", "emfar") else 0))
        keep.append((line, f, o))
    model = run_model(ctx, mlines)
    if model is None:
        return
    for (line, f, o), mo in zip(keep, model):
        mode = f["mode"]
        N, d = int(f["N"]), int(f["d"])
        ctx.count(line, int(f["T"]) >= 1)
        ctx.cov["traces_validated_against_impl"] += 1
        m = fields("x " + mo)
        y, y2 = rows(o["y"]), rows(o["y2"])
        bad = None
        if int(o.get("badid", "0")) > 0:
            bad = ("range:callback-received-non-item", "the feature callback was called %s times with something that is not an item of "
                   "the iterator range" % o["badid"])
        elif (int(o["rows"]), int(o["cols"])) != (N, d):
            bad = ("fa:shape", "embedding %sx%s for N=%d d=%d" % (o["rows"], o["cols"], N, d))
        else:
            e = rel_err(y, y2)
            far = mode in ("far", "emfar")
            exact_expected = pow2(N) and not far   # integer data and shifts: the centred doubles coincide bit for bit
            if far and e:
                note_far(ctx, "fa:" + mode, [num(t) for t in f["shift"].split(",")], e)
            if e == 0:
                ctx.stat("translation-exact")
            elif e is not None and e <= (far_tol([num(t) for t in f["shift"].split(",")]) if far else APPROX) and not exact_expected:
                ctx.stat("translation-approx" if not far else "translation-far-approx")
            else:
                bad = ("fa:translation", "embedding changes under the translation %s (relative difference %s)"
                       % (f["shift"], "2^%.1f" % math.log2(e) if e else e))
            if bad is None:
                for key, what in (("colmean", "column means of the embedding are not zero (samples not centred)"),
                                  ("span", "embedding is not (centred samples) x (a D x d matrix)")):
                    v = m.get(key, "missing")
                    if v == "eq":
                        ctx.stat("cmp-exact")
                    elif v.startswith("approx") or v == "skip":
                        ctx.stat("cmp-approx" if v != "skip" else "fa:span-skipped(rank)")
                    else:
                        bad = ("fa:" + key, what + " (%s)" % v)
                        break
        if bad:
            ctx.stat("impl-oracle-reject")
            ctx.fail(bad[0], "Factor Analysis: " + bad[1], case=line, detail={"impl": o_short(o), "model": mo})
            continue
        v = m.get("ycmp", "missing")
        ok = True
        if mode == "t0":
            ok = (v == "eq")
            ctx.stat("cmp-exact" if ok else "fidelity-mismatch")
        elif mode in ("em", "emfar"):
            ok = (v == "eq" or v.startswith("approx"))
            ctx.stat("cmp-approx" if ok else "fidelity-mismatch")
        if o.get("hasproj") != "0":
            ok = False
            v += " (a projecting function is returned)"
        if not ok:
            ctx.broken("corr:fa", "correspondence c19 fa (embedding = centred samples x loading matrix of the model's EM)",
                       "Factor Analysis model and implementation disagree: ycmp=%s" % v, case=line,
                       detail={"impl": o_short(o), "model": mo})
        else:
            ctx.stat("fidelity-identical")
            if len(line) < 400:
                ctx.sample({"case": line, "impl_y": o["y"][:200], "model": mo})


# ----------------------------------------------------------------------------- defines/random.hpp on an interposed rand()
RAND_MAX = 2 ** 31 - 1
RAND_BOUNDARY = [0, RAND_MAX, 2 ** 30, 2 ** 30 - 1, 2 ** 30 + 1, 1, RAND_MAX - 1]


def gen_rand_script(r, length):
    """scripted prefix of the rand() stream: boundary draws (0, RAND_MAX, 2^30 = the centre), pairs with radius exactly 0,
    exactly 1, tiny, just below 1, mixed with ordinary 31-bit values"""
    out = []
    while len(out) < length:
        c = r.below(10)
        if c < 3:
            out.append(r.choice(RAND_BOUNDARY))
        elif c == 3:
            out += [2 ** 30, 2 ** 30]                                   # x = y = 0: radius == 0.0
        elif c == 4:
            out += r.choice([[0, 2 ** 30], [2 ** 30, 0]])               # radius == 1.0
        elif c == 5:
            out += [2 ** 30 + r.range(-5, 5), 2 ** 30 + r.range(-5, 5)]   # radius ~ 2^-58
        elif c == 6:
            out += [r.range(1, 1000), 2 ** 30]                          # radius just below 1
        else:
            out.append(r.below(2 ** 31))
    return out


def random_hpp(ctx, bins, r, quick):
    """the REAL uniform_random / uniform_random_index_bounded / gaussian_random (no CUSTOM_* macro in the natural build)
    on a replayed rand() stream, against Model/RandomHpp.lean: draws consumed, accept/reject decisions, values"""
    lines = []
    for _ in range(150 if quick else 2000):
        n = r.range(1, 6)
        script = gen_rand_script(r, r.range(0, 14))
        lines.append("grand n=%d srand=%d rs=%s" % (n, r.below(1 << 31), ",".join(map(str, script))))
    for _ in range(20 if quick else 200):
        script = gen_rand_script(r, r.range(1, 12))
        lines.append("urand n=%d srand=%d rs=%s" % (len(script) + r.below(3), r.below(1 << 31), ",".join(map(str, script))))
        lines.append("uidx upper=%d n=%d srand=%d rs=%s" % (r.choice([1, 2, 3, 7, 100, RAND_MAX]), len(script) + r.below(3),
                                                           r.below(1 << 31), ",".join(map(str, script))))
    judge_random(ctx, bins, lines)


def judge_random(ctx, bins, lines):
    if not lines:
        return
    impl = run_impl(ctx, bins.nat, lines)
    mlines, keep = [], []
    for line, io in zip(lines, impl):
        op = line.split()[0]
        ctx.stat("randomhpp:" + op)
        ctx.count(line, True)
        if io.startswith("abort:"):
            abort_fail(ctx, "defines/random.hpp %s" % op, line, io)
            continue
        o = fields("x " + io)
        f = fields(line)
        if op == "grand":
            if o["fin"] != "1":
                ctx.stat("impl-oracle-reject")
                ctx.fail("gaussian:nonfinite", "gaussian_random() returned a non-finite variate on the rand() stream %s... "
                         "(entries of the Random Projection matrix must be finite for every stream)" % o["used"][:80], case=line,
                         detail={"impl": o_short(o)})
                continue
            mlines.append("grand n=%s used=%s calls=%s rad=%s L=%s S=%s gobs=%s" % (f["n"], o["used"], o["calls"], o["rad"], o["L"], o["S"], o["g"]))
        elif op == "urand":
            us = [num(t) for t in o["u"].split(",")]
            if not all(0 <= u < 1 for u in us):
                ctx.stat("impl-oracle-reject")
                ctx.fail("unif:range", "uniform_random() left [0,1) on the rand() stream %s" % o["used"][:80], case=line)
                continue
            mlines.append("urand used=%s uobs=%s" % (o["used"], o["u"]))
        else:
            iv = [int(t) for t in o["u"].split(",")]
            if not all(0 <= i < int(f["upper"]) for i in iv):
                ctx.stat("impl-oracle-reject")
                ctx.fail("uidx:range", "uniform_random_index_bounded(%s) left [0, upper)" % f["upper"], case=line)
                continue
            mlines.append("uidx upper=%s used=%s uobs=%s" % (f["upper"], o["used"], o["u"]))
        keep.append((line, o))
    model = run_model(ctx, mlines)
    if model is None:
        return
    for (line, o), mo in zip(keep, model):
        ctx.cov["traces_validated_against_impl"] += 1
        if mo.split()[0] != "ok":
            ctx.stat("fidelity-mismatch")
            ctx.broken("corr:random-hpp", "correspondence c19 defines/random.hpp (model and real function on the same rand() stream)",
                       "%s: draws consumed / decisions / values differ from the model: %s" % (line.split()[0], mo[:300]), case=line,
                       detail={"impl": o_short(o), "model": mo})
        else:
            ctx.stat("fidelity-identical")
            ctx.stat("cmp-approx" if line.startswith("grand") else "cmp-exact")


# ----------------------------------------------------------------------------- statistical tests (labelled TESTS)
def dataset(r, kind, N):
    """exactly realisable data sets (dyadic coordinates); returns (points, target_dimension)"""
    if kind == "plane2":
        return [[Fraction(r.below(65), 8), Fraction(r.below(65), 8)] for _ in range(N)], 2
    if kind == "cube3":
        return [[Fraction(r.below(33), 8) for _ in range(3)] for _ in range(N)], 3
    if kind == "plane-in-3d":
        # a plane rotated by the rational rotation (3/5, 4/5) into 3-d, coordinates rounded to 2^-40
        pts = []
        for _ in range(N):
            u, v = Fraction(r.below(65), 8), Fraction(r.below(65), 8)
            x, y, z = u * Fraction(3, 5), v, u * Fraction(4, 5)
            pts.append([Fraction(round(c * 2 ** 40), 2 ** 40) for c in (x, y, z)])
        return pts, 2
    if kind == "line-in-2d":
        return [[Fraction(3 * t, 8), Fraction(4 * t, 8)] for t in r.shuffle(range(3 * N))[:N]], 1
    raise ValueError(kind)


def global_stress(pts, Y):
    """scale-optimal normalised stress  min_c sum (c d_ij - r_ij)^2 / sum r_ij^2"""
    ds, rs = [], []
    for i in range(len(pts)):
        for j in range(i + 1, len(pts)):
            rs.append(fdist(pts[i], pts[j]))
            ds.append(fdist(Y[i], Y[j]))
    dd = sum(a * a for a in ds)
    if dd == 0:
        return float("inf")
    c = sum(a * b for a, b in zip(ds, rs)) / dd
    return sum((c * a - b) ** 2 for a, b in zip(ds, rs)) / sum(b * b for b in rs)


def neighbour_stress(pts, Y, nb):
    a = b = 0.0
    for i, l in enumerate(nb):
        for j in l:
            rr = fdist(pts[i], pts[j])
            a += (fdist(Y[i], Y[j]) - rr) ** 2
            b += rr * rr
    return a / b if b else 0.0


def _with_T(line, T):
    return " ".join(("T=%d" % T) if t.startswith("T=") else t for t in line.split())


def classify_global(ctx, bins, line, pts):
    """a global-strategy run that ends above the stress threshold is repeated on the same streams with 5x, 25x (125x)
    the iterations.  Returns (class, [(iterations, stress), ...])"""
    T0 = int(fields(line)["T"])
    hist = []
    for mult in (1, 5, 25, 125):
        out = run_impl(ctx, bins.nat, [_with_T(line, T0 * mult)])[0]
        if not out.startswith("ok ") or fields("x " + out)["fin"] != "1":
            hist.append((T0 * mult, float("nan")))
            return "non-finite", hist
        Y = rows(fields("x " + out)["y"])
        if diverged(pts, Y):
            hist.append((T0 * mult, float("inf")))
            return "diverging", hist
        s = global_stress(pts, Y)
        hist.append((T0 * mult, s))
        if mult > 1 and s < 1e-3:
            return "slow-convergence", hist
        if mult == 25 and not s < 0.5 * hist[-2][1]:
            break           # not falling any more: no point in the 125x run
    # stayed above the threshold for every budget
    last, prev = hist[-1][1], hist[-2][1]
    if last > 4.0 * max(h[1] for h in hist[:-1]):
        return "growing", hist
    return "local-minimum", hist


def report_global_class(ctx, cls, hist, line, kind, N, nup):
    hs = ", ".join("%d it.: %.3g" % h for h in hist)
    if cls == "slow-convergence":
        return
    if cls == "local-minimum":
        ctx.fail("TEST:spe-global:stress:local-minimum",
                 "statistical TEST: SPE global strategy is stuck in a local minimum on exactly realisable data: scale-optimal normalised "
                 "stress stays >= 1e-3 however many iterations are allowed (%s, N=%d, nup=%d; %s) — 'for every random initialisation' "
                 "does not hold of the algorithm (F-SPE-LOCALMIN)" % (kind, N, nup, hs), case=line)
    else:
        ctx.fail("TEST:spe-global:stress:" + cls, "statistical TEST: SPE global strategy does not converge on exactly realisable data "
                 "(%s: %s, N=%d, nup=%d; %s)" % (cls, kind, N, nup, hs), case=line)


def stat_rng(ctx, salt):
    """the statistical sections draw from generators that depend on VERIF_SEED only (not on how much the other sections
    consumed), so that they can be swept over seeds offline (tools: `python3 checks/c19.py sweep <first> <last>`)"""
    return vlib.SplitMix64(ctx.seed * 1000003 + salt)


def stat_spe(ctx, bins, r, quick):
    tests = ctx.extra.setdefault("statistical_tests", {})
    seeds = 24 if quick else 96
    kinds = ["plane2", "cube3", "plane-in-3d"] + ([] if quick else ["line-in-2d"])
    lines, meta = [], []
    for kind in kinds:
        for nupk in ("one", "half", "all"):
            # "enough iterations are allowed": about 1000 updates per point (500 N / nup iterations), and
            # max_iteration <= 10^4 — so spe_num_updates = 1 is exercised on N <= 20
            if nupk == "one":
                N = r.choice([12, 16, 20])
            else:
                N = r.choice([20, 24, 30]) if quick else r.choice([30, 40, 60])
            pts, d = dataset(r, kind, N)
            nup = {"one": 1, "half": N // 2, "all": N}[nupk]
            T = 10000 if nupk == "one" else min(10000, max(2000, -(-500 * N // min(nup, N // 2))))
            for s in range(seeds // (2 if nupk == "all" else 1)):
                lines.append("speapi N=%d D=%d d=%d g=1 k=5 nup=%d T=%d tol=%s seed=%d srand=%d pts=%s" % (
                    N, len(pts[0]), d, nup, T, r.choice(["1:-30", "1:-20"]), r.below(1 << 31), r.below(1 << 31), fmt_rows(pts)))
                meta.append((kind, pts, nup, T))
    lines = [with_ids(r, l, int(fields(l)["N"])) for l in lines]
    outs = run_impl(ctx, bins.nat, lines)
    worst = 0.0
    worst_first = 0.0
    nfail = 0
    classes = {}
    examples = []
    for line, (kind, pts, nup, T), io in zip(lines, meta, outs):
        ctx.stat("TEST:spe-global-run")
        ctx.count(line, True)
        if not io.startswith("ok "):
            ctx.fail("spe-global:abort-or-throw", "SPE (global) failed on realisable data: " + io[:200], case=line)
            continue
        o = fields("x " + io)
        if o["fin"] != "1":
            ctx.fail("spe-global:nonfinite", "SPE (global strategy) returned non-finite coordinates (%s, nup=%d, T=%d)" % (kind, nup, T), case=line)
            continue
        if o["selfcalls"] != "0":
            ctx.fail("spe:self-pair", "SPE evaluated the distance of a point to itself %s times" % o["selfcalls"], case=line)
            continue
        if int(o.get("badid", "0")) > 0:
            ctx.fail("range:callback-received-non-item", "SPE (global) called the distance callback %s times with something that is not "
                     "an item of the iterator range" % o["badid"], case=line)
            continue
        s = global_stress(pts, rows(o["y"]))
        worst_first = max(worst_first, s)
        if not s < 1e-3:
            cls, hist = classify_global(ctx, bins, line, pts)
            classes[cls] = classes.get(cls, 0) + 1
            ctx.stat("TEST:spe-global-above-threshold:" + cls)
            examples.append({"class": cls, "kind": kind, "N": len(pts), "nup": nup, "stress_by_iterations": hist})
            report_global_class(ctx, cls, hist, line, kind, len(pts), nup)
            if cls != "slow-convergence":
                nfail += 1
        else:
            worst = max(worst, s)
    tests["spe_global_stress"] = {
        "kind": "statistical TEST (not a theorem)", "runs": len(lines), "threshold": 1e-3,
        "worst_stress_of_a_run_below_threshold": worst, "worst_stress_at_first_budget": worst_first,
        "runs_above_threshold_by_class": classes, "examples": examples[:8], "failures": nfail, "data_sets": kinds,
        "seeds_per_setting": seeds,
        "budget": "first budget: 10^4 iterations for spe_num_updates=1 (N <= 20), otherwise max(2000, 500 N / nup) iterations; a run "
                  "above the threshold is re-run on the SAME streams with 5x and 25x (if still falling: 125x) the iterations and "
                  "classified: slow-convergence (falls below the threshold: 'enough iterations are allowed' was not met; counted, "
                  "no violation), local-minimum (finite, stays above, no longer falling: KNOWN open finding F-SPE-LOCALMIN), "
                  "anything else = failing input"}

    # ---- local strategy: finiteness + neighbour-distance stress
    lines, meta = [], []
    for kind in ["plane2", "cube3"]:
        N = r.choice([24, 30]) if quick else r.choice([40, 60, 100])
        pts, d = dataset(r, kind, N)
        k = r.range(5, 8)
        nb = knn_lists(pts, k)
        for nup in (1, N // 2, N):
            T = 3000 if quick else 10000
            for s in range(max(4, seeds // 4)):
                lines.append("speapi N=%d D=%d d=%d g=0 k=%d nup=%d T=%d tol=1:-30 seed=%d srand=%d pts=%s" % (
                    N, len(pts[0]), d, k, nup, T, r.below(1 << 31), r.below(1 << 31), fmt_rows(pts)))
                meta.append((kind, pts, nup, T, nb))
    lines = [with_ids(r, l, int(fields(l)["N"])) for l in lines]
    outs = run_impl(ctx, bins.nat, lines)
    stresses = {}
    nonfinite = 0
    for line, (kind, pts, nup, T, nb), io in zip(lines, meta, outs):
        ctx.stat("TEST:spe-local-run")
        ctx.count(line, True)
        if not io.startswith("ok "):
            ctx.fail("spe-local:abort-or-throw", "SPE (local) failed: " + io[:200], case=line)
            continue
        o = fields("x " + io)
        if int(o.get("badid", "0")) > 0:
            ctx.fail("range:callback-received-non-item", "SPE (local) called the distance callback %s times with something that is not "
                     "an item of the iterator range" % o["badid"], case=line)
            continue
        Y = rows(o["y"]) if o["fin"] == "1" else None
        big = Y is not None and diverged(pts, Y)
        if o["fin"] != "1" or big:
            nonfinite += 1
            ctx.fail("spe-local:nonfinite", "SPE (local strategy) returned %s coordinates (%s, N=%d, nup=%d, %d iterations)"
                     % ("non-finite" if o["fin"] != "1" else "diverged (beyond 100 x (1 + N x data diameter))", kind, len(pts), nup, T), case=shrink_local(ctx, bins, line))
            continue
        stresses.setdefault((kind, nup), []).append(neighbour_stress(pts, Y, nb))
    rep = {}
    for (kind, nup), v in sorted(stresses.items()):
        v = sorted(v)
        med = v[len(v) // 2]
        rep["%s nup=%d" % (kind, nup)] = {"median": med, "max": v[-1], "runs": len(v)}
        if not med < 0.25:
            ctx.fail("TEST:spe-local:neighbour-stress", "statistical TEST: SPE local strategy: median neighbour-distance stress %.3g >= 0.25 over %d seeds (%s, nup=%d)"
                     % (med, len(v), kind, nup))
    tests["spe_local"] = {"kind": "statistical TEST (not a theorem)", "runs": len(lines), "nonfinite_or_diverged": nonfinite,
                          "neighbour_stress": rep, "threshold_median": 0.25,
                          "threshold_note": "weak sanity bound: over VERIF_SEED 1..200 the per-setting median ranged 0.01..0.114 "
                                            "(data-set dependent: the local strategy only pulls neighbours, it never pushes "
                                            "non-neighbours apart); collapsed / wrongly scaled targets give about 1"}


def diverged(pts, Y):
    """the symmetric pair updates preserve the centroid of the initial configuration (inside the unit cube), so an
    embedding that reproduces neighbour distances of a connected neighbourhood graph stays within 1 + N * diameter"""
    diam = max(fdist(p, q) for p in pts for q in pts)
    return max(abs(float(x)) for row in Y for x in row) > 100.0 * (1.0 + len(pts) * diam)


def shrink_local(ctx, bins, line):
    """smaller iteration count that still makes the local strategy diverge (halving)"""
    f = fields(line)
    T = int(f["T"])
    best = line
    for _ in range(8):
        T //= 2
        if T < 8:
            break
        cand = " ".join(("T=%d" % T) if t.startswith("T=") else t for t in line.split())
        out = run_impl(ctx, bins.nat, [cand])
        if out and out[0].startswith("ok ") and fields("x " + out[0])["fin"] == "1":
            if not diverged(rows(f["pts"]), rows(fields("x " + out[0])["y"])):
                break
        best = cand
    return best


def stat_moments(ctx, bins, r, quick):
    tests = ctx.extra.setdefault("statistical_tests", {})
    n = 200000 if quick else 2000000
    lines = ["gauss n=%d srand=%d" % (n, r.below(1 << 31)) for _ in range(3 if quick else 8)]
    lines += ["rp N=%d D=%d d=%d big=1 mode=nat srand=%d pts=%s" % (d + 1, D, d, r.below(1 << 31),
                                                                  fmt_rows([[Fraction((i * 7 + c * 3) % 11) for c in range(D)] for i in range(d + 1)]))
              for (D, d) in ([(100, 40), (64, 60)] if quick else [(200, 50), (400, 25), (1000, 10), (37, 100)])]
    lines += ["unifnat n=%d srand=%d" % (n, r.below(1 << 31))]
    outs = run_impl(ctx, bins.nat, lines)
    rep = []
    for line, io in zip(lines, outs):
        ctx.stat("TEST:moments-run")
        ctx.count(line, True)
        if not io.startswith("ok"):
            ctx.fail("moments:abort", "moment test run failed: " + io[:200], case=line)
            continue
        o = fields("x " + io)
        if line.startswith("unifnat"):
            mn, mx, sm = float(num(o["min"])), float(num(o["max"])), float(num(o["sum"]))
            okr = (0.0 <= mn) and (mx < 1.0)
            rep.append({"case": line, "min": mn, "max": mx, "mean": sm / n})
            if not okr:
                ctx.fail("unif:range", "tapkee::uniform_random() left [0,1): min %r max %r" % (mn, mx), case=line)
            elif abs(sm / n - 0.5) > 5 * math.sqrt(1 / 12.0 / n):
                ctx.fail("TEST:unif:mean", "statistical TEST: mean of uniform_random() %.5f" % (sm / n), case=line)
            continue
        if o.get("fin") == "0" or any(o[k] in ("inf", "-inf", "nan") for k in ("m1", "m2", "m3", "m4", "mlag")):
            ctx.fail("gaussian:nonfinite", "non-finite Gaussian variate / projection entry in the moment test", case=line)
            continue
        cnt = int(o["mn"])
        f = fields(line)
        scale2 = float(f["D"]) if line.startswith("rp") else 1.0   # entries are gaussian / sqrt(D) as written
        m1, m2, m3, m4, lag = [float(num(o[k])) for k in ("m1", "m2", "m3", "m4", "mlag")]
        mean = m1 / cnt
        var = m2 / cnt - mean * mean
        z_mean = mean * math.sqrt(cnt * scale2)
        z_var = (var * scale2 - 1.0) / math.sqrt(2.0 / cnt)
        skew = (m3 / cnt) / (var ** 1.5)
        z_skew = skew / math.sqrt(6.0 / cnt)
        kurt = (m4 / cnt) / (var * var)
        z_kurt = (kurt - 3.0) / math.sqrt(24.0 / cnt)
        z_lag = (lag / cnt) / var * math.sqrt(cnt)
        zs = {"mean": z_mean, "variance": z_var, "skewness": z_skew, "kurtosis": z_kurt, "lag1": z_lag}
        rep.append({"case": line[:60], "n": cnt, "z": {k: round(v, 2) for k, v in zs.items()}})
        for k, z in zs.items():
            if not abs(z) < 6.0:
                ctx.fail("TEST:moments:" + k, "statistical TEST: %s of the Gaussian stream deviates (z = %.1f, n = %d) — entries are expected "
                         "independent, zero-mean, variance 1%s" % (k, z, cnt, "/D" if scale2 != 1 else ""), case=line)
    tests["moments"] = {"kind": "statistical TEST (not a theorem)", "z_threshold": 6.0, "runs": rep}


# ----------------------------------------------------------------------------- long-run selection coverage (local strategy)
def coverage(ctx, bins, r, quick):
    lines = []
    for _ in range(3 if quick else 10):
        N = r.choice([16, 24, 40])
        k = r.range(3, 6)
        pts = [[Fraction(r.below(65)), Fraction(r.below(65))] for _ in range(N)]
        nb = knn_lists(pts, k)
        nup = r.choice([1, N // 4, N // 2])
        T = (1200 if quick else 6000) * (4 if nup == 1 else 1)
        nupc = min(nup, N // 2)
        dm = [[Fraction(max(1, round(fdist(p, q) * 4)), 4) if i != j else Fraction(0) for j, q in enumerate(pts)] for i, p in enumerate(pts)]
        l = "specov N=%d d=2 g=0 k=%d nup=%d nupc=%d T=%d tol=1:-20 seed=%d srand=%d np=%d nb=%s dm=%s" % (
            N, k, nup, nupc, T, r.below(1 << 31), r.below(1 << 31), T, ";".join(",".join(map(str, l)) for l in nb),
            ",".join(fr(x) for row in dm for x in row))
        lines.append(with_ids(r, l, N))
    outs = run_impl(ctx, bins.streams, lines)
    rep = []
    for line, io in zip(lines, outs):
        f = fields(line)
        ctx.stat("coverage-run")
        ctx.count(line, True)
        if io.startswith("abort:"):
            abort_fail(ctx, "spe_embedding (long local run)", line, io)
            continue
        o = fields("x " + io)
        N, nupc, T = int(f["N"]), int(f["nupc"]), int(f["T"])
        l1 = list(map(int, o["l1"].split(",")))
        starved = [i for i, c in enumerate(l1) if c == 0]
        # under a true permutation P(a given point is never first in the last T/4 iterations) = (1-nup/N)^(T/4)
        p_never = (1.0 - nupc / N) ** (T // 4)
        rep.append({"N": N, "nup": nupc, "T": T, "iterations_with_repeated_first_member": int(o["dupiters"]),
                    "min_distinct_first_members": int(o["mindistinct"]), "points_never_first_in_last_quarter": len(starved),
                    "prob_per_point_under_spec": p_never, "finite": o["fin"]})
        if int(o["dupiters"]) > 0:
            ctx.fail("spe-local:perm", "SPE local strategy: %s of %d iterations select some point more than once as first member "
                     "(fewest distinct first members in an iteration: %s of %d)" % (o["dupiters"], T, o["mindistinct"], nupc), case=line)
        elif starved and p_never * N < 1e-6:
            ctx.fail("spe-local:starved", "SPE local strategy: %d of %d points are never selected as first member during the last %d iterations "
                     "(probability under a fair permutation < %.1e)" % (len(starved), N, T // 4, p_never * N), case=line)
        if o["fin"] != "1":
            ctx.fail("spe-local:nonfinite", "SPE local strategy returned non-finite coordinates (N=%d, nup=%d, %d iterations)" % (N, nupc, T), case=line)
        if int(o["selfpairs"]) > 0:
            ctx.fail("spe:self-pair", "SPE updated %s self pairs" % o["selfpairs"], case=line)
    ctx.extra["local_selection_coverage"] = rep


# ----------------------------------------------------------------------------- default iteration count
def default_iters_sweep(ctx, bins, quick):
    """max_iter == 0: `2000 + floor(0.04*N*N)` (x3 in the local strategy) — the number of iterations the code performs
    (pairs seen by the callback, nupdates = 1) against the model, including sizes where the double product rounds
    below an integer (N = 205, 410, 820, 845)"""
    Ns = sorted(set(list(range(2, 60, 9)) + [100, 150, 200, 205, 210] + ([] if quick else [300, 400, 410, 500, 820, 845])))
    lines = []
    for N in Ns:
        dm = ",".join("0" if i == j else "1" for i in range(N) for j in range(N))
        lines.append("spe N=%d d=1 g=1 k=0 nup=1 T=0 tol=1/8 seed=%d mode=count np=0 dm=%s y0=%s" % (
            N, N, dm, ",".join(["1/2"] * N)))
    for N in (4, 9):
        nb = ";".join(str((i + 1) % N) for i in range(N))
        dm = ",".join("0" if i == j else "1" for i in range(N) for j in range(N))
        iters = (2000 + N * N // 25) * 3
        lines.append("spe N=%d d=1 g=0 k=1 nup=1 T=0 tol=1/8 seed=%d mode=count np=0 nb=%s dm=%s y0=%s unif=%s" % (
            N, N, nb, dm, ",".join(["1/2"] * N), ",".join(["1/2"] * iters)))
    impl = run_impl(ctx, bins.streams, lines)
    model = run_model(ctx, ["spedef N=%s g=%s T=0 nup=1" % (fields(l)["N"], fields(l)["g"]) for l in lines])
    if model is None:
        return
    rep = []
    for line, io, mo in zip(lines, impl, model):
        f = fields(line)
        short = " ".join(t for t in line.split() if not t.startswith(("dm=", "unif=", "y0=")))
        ctx.count(short, True)
        ctx.stat("default-iterations-run")
        if io.startswith("abort:"):
            abort_fail(ctx, "spe_embedding (default max_iter)", short, io)
            continue
        o, m = fields("x " + io), fields("x " + mo)
        rep.append({"N": int(f["N"]), "global": f["g"], "impl": int(o["npairs"]), "model": int(m["iters"])})
        if o["npairs"] != m["iters"] or m.get("flok") != "1":
            ctx.broken("corr:spe-default-iterations", "correspondence c19 spe (default iteration count)",
                       "default max_iter: implementation performs %s iterations, model %s (N=%s, %s strategy, contract ok=%s)"
                       % (o["npairs"], m["iters"], f["N"], "global" if f["g"] == "1" else "local", m.get("flok")), case=short)
    ctx.extra["default_iteration_counts"] = rep


# ----------------------------------------------------------------------------- minimal witness for the local-strategy finding
def minimal_local_witness(ctx, bins):
    """smallest (N, T) on which the local strategy's first members stop coming from the permutation"""
    r = vlib.SplitMix64(12345)
    for N in (3, 4, 5):
        for T in (2, 3, 4):
            for _ in range(40):
                k = r.range(1, N - 1)
                nb = random_lists(r, N, k)
                nup = r.range(1, N // 2)
                unif = [Fraction(r.below(8), 8) for _ in range(T * nup)]
                line = spe_line(N, 1, 0, k, nup, T, Fraction(1, 8), r.below(1000), nb, small_dm(r, N), [[Fraction(0)]] * N, unif, "idx")
                out = run_impl(ctx, bins.streams, [line + " np=%d" % T])
                if not out or out[0].startswith("abort:"):
                    continue
                o = fields("x " + out[0])
                perms = [list(map(int, p.split(","))) for p in o["perms"].split(";")]
                bad = spe_oracle(fields(line), parse_pairs(o["pairs"]), nup, perms)
                if bad and bad[0] == "spe-local:perm":
                    return line, bad[1]
    return None


# ----------------------------------------------------------------------------- driver
def corpus_lines():
    cdir = os.path.join(vlib.ROOT, "corpus", "C19")
    out = []
    if os.path.isdir(cdir):
        for fn in sorted(os.listdir(cdir)):
            for l in open(os.path.join(cdir, fn)):
                l = l.strip()
                if l and not l.startswith("#"):
                    out.append(l)
    return out


def dispatch(ctx, bins, lines, label):
    spe = [l for l in lines if l.startswith("spe ")]
    if spe:
        res = judge_spe(ctx, bins, spe, label)
        # replace the many instances of the local-strategy finding by one minimal witness
        if any(x == "spe-local:perm" for x in res):
            w = minimal_local_witness(ctx, bins)
            if w:
                for fl in ctx.failures:
                    if fl.signature == "spe-local:perm":
                        fl.detail = {"first_seen_on": fl.case, "first_seen_what": fl.what}
                        fl.case = w[0]
                        fl.what = "SPE index bookkeeping (minimal witness, N=%s, %s iterations): %s" % (
                            fields(w[0])["N"], fields(w[0])["T"], w[1])
                        break
    judge_rp(ctx, bins, [l for l in lines if l.startswith("rp ")])
    judge_fa(ctx, bins, [l for l in lines if l.startswith("fa ")])
    judge_random(ctx, bins, [l for l in lines if l.split()[0] in ("grand", "urand", "uidx")])
    other = [l for l in lines if l.split()[0] in ("speapi", "specov", "gauss", "unifnat")]
    for l in other:
        # replayed statistical / coverage cases: re-run and apply the same thresholds
        replay_other(ctx, bins, l)


def replay_other(ctx, bins, line):
    op = line.split()[0]
    f = fields(line)
    if op == "speapi":
        out = run_impl(ctx, bins.nat, [line])[0]
        ctx.count(line, True)
        if not out.startswith("ok "):
            ctx.fail("spe:abort-or-throw", "SPE failed: " + out[:200], case=line)
            return
        o = fields("x " + out)
        pts = rows(f["pts"])
        local = f["g"] == "0"
        Y = rows(o["y"]) if o["fin"] == "1" else None
        if Y is None or diverged(pts, Y):
            ctx.fail("spe-local:nonfinite" if local else "spe-global:nonfinite", "SPE returned non-finite / diverged coordinates", case=line)
        elif not local:
            s = global_stress(pts, Y)
            if not s < 1e-3:
                cls, hist = classify_global(ctx, bins, line, pts)
                ctx.extra.setdefault("statistical_tests", {})["replayed_global_run"] = {"class": cls, "stress_by_iterations": hist}
                report_global_class(ctx, cls, hist, line, "replayed case", len(pts), int(f["nup"]))
    elif op == "specov":
        out = run_impl(ctx, bins.streams, [line])[0]
        ctx.count(line, True)
        if out.startswith("abort:"):
            abort_fail(ctx, "spe_embedding", line, out)
            return
        o = fields("x " + out)
        if int(o["dupiters"]) > 0:
            ctx.fail("spe-local:perm", "SPE local strategy: %s iterations select a point twice as first member" % o["dupiters"], case=line)
        if o["fin"] != "1":
            ctx.fail("spe-local:nonfinite", "SPE local strategy returned non-finite coordinates", case=line)


def correspond(ctx):
    bins = build(ctx)
    if bins is None:
        return
    ctx.log("harnesses built")
    r = ctx.rng
    quick = ctx.tier == "quick"
    corp = corpus_lines()
    if corp:
        dispatch(ctx, bins, corp, "corpus")
    # A: index bookkeeping
    n_idx = 2000 if quick else 16000
    idx_cases = [gen_idx_case(r.fork(), quick) for _ in range(n_idx)]
    dispatch(ctx, bins, idx_cases, "idx")
    default_iters_sweep(ctx, bins, quick)
    ctx.log("A index bookkeeping done")
    # B: update algebra
    exact_cases = make_exact_cases(ctx, bins, r.fork(), 400 if quick else 3000)
    approx_cases = [gen_approx_case(r.fork(), quick) for _ in range(400 if quick else 3000)]
    judge_spe(ctx, bins, exact_cases, "exact")
    judge_spe(ctx, bins, approx_cases, "approx")
    ctx.log("B update algebra done")
    # C: Random Projection
    rr = r.fork()
    rp_cases = [gen_rp_case(rr, True) for _ in range(120 if quick else 1200)] + \
               [gen_rp_case(rr, False) for _ in range(100 if quick else 1000)] + \
               [gen_rp_nat_case(rr) for _ in range(100 if quick else 1000)]
    rp_cases += [gen_rp_far_case(rr) for _ in range(60 if quick else 600)]
    rp_cases = [l if "big=1" in l else with_ids(rr, l, int(fields(l)["N"])) for l in rp_cases]
    judge_rp(ctx, bins, rp_cases)
    # D: Factor Analysis
    rr = r.fork()
    fa_cases = [gen_fa_case(rr, "t0") for _ in range(80 if quick else 600)] + \
               [gen_fa_case(rr, "em") for _ in range(80 if quick else 800)] + \
               [gen_fa_case(rr, "nat") for _ in range(80 if quick else 800)]
    fa_cases += [gen_fa_far_case(rr, "far") for _ in range(60 if quick else 600)] + \
                [gen_fa_far_case(rr, "emfar") for _ in range(40 if quick else 400)]
    fa_cases = [with_ids(rr, l, int(fields(l)["N"])) for l in fa_cases]
    judge_fa(ctx, bins, fa_cases)
    random_hpp(ctx, bins, r.fork(), quick)
    ctx.log("C/D projection methods + random.hpp done")
    # E: statistical tests
    stat_spe(ctx, bins, stat_rng(ctx, 1901), quick)
    stat_moments(ctx, bins, stat_rng(ctx, 1902), quick)
    ctx.log("E statistical tests done")
    # F: selection coverage
    coverage(ctx, bins, r.fork(), quick)
    summarize(ctx)
    ctx.cov["rule"] = (
        "SPE: seeded runs of the real spe_embedding with index pairs observed through the distance callback and compared, "
        "iteration by iteration, with the Lean model driven by the same shuffle permutations / uniform draws (N 2..%d, "
        "both strategies, spe_num_updates in {1, N/2, N, >N/2, random}, 1..%d iterations and the default iteration count); "
        "update algebra on exact-mode inputs (equality) and on general dyadic inputs (2^-30 relative); Random Projection and "
        "Factor Analysis through their method classes with supplied Gaussian / Random() streams (exact when D is a power "
        "of 4 and N a power of 2), natural streams under srand, translation pairs; non-trivial = at least 2 iterations and "
        "3 points (SPE), N >= 2 (RP), at least one EM iteration (FA); distinct by case text"
        % (24 if quick else 48, 40 if quick else 200))
    ctx.assumptions += [
        "convergence of the stochastic SPE iteration and Gaussianity / independence of the projection entries are NOT theorems: "
        "they are statistical TESTS over seeds (evidence key statistical_tests), thresholds stated there",
        "std::shuffle is modelled as an oracle returning a permutation of positions; the permutations actually used are obtained by "
        "shuffling the identity with a clone of the seeded generator (std::shuffle is oblivious to the values) and checked to be permutations",
        "sqrt is an oracle with contract s >= 0, s*s = x; the driver uses floor(sqrt(x)*2^100)/2^100 (exact on squares of dyadics); "
        "IEEE rounding is outside the model: coordinates are compared exactly on exact-mode inputs and within 2^-30 (relative) otherwise",
        "Factor Analysis: matrix inverse / determinant / log are oracles; the EM step is an abstract map in fa_translation_invariant; "
        "the transcribed step is compared with the code only for epsilon = 0 (no early stop) and <= 3 iterations",
        "the method classes are instantiated directly (check, merge defaults, ImplementationBase, validate, embed) instead of through "
        "tapkee::with(...): the generic front end is covered by C14/C01",
        "memory safety of the compiled SPE loop is observed by ASan/UBSan on the generated cases only",
        "stress values of the statistical tests are computed in Python floats from the exact dyadic outputs",
    ]


def summarize(ctx):
    """every distinct signature seen in this run (vlib reports `no-failing-input-found` entries only when there is no
    failing input at all; the complete list is kept here and in the log)"""
    sigs = {}
    for fl in ctx.failures:
        key = "%s %s" % ("FAIL  " if fl.kind == "failing-input" else "BROKEN", fl.signature)
        sigs[key] = sigs.get(key, 0) + 1
    for key in sorted(sigs):
        ctx.log("signature:", key, "x%d" % sigs[key])
    ctx.extra["signatures_seen"] = sigs


def replay_case(ctx, body):
    bins = build(ctx)
    if bins is None:
        return
    line = body["case"]
    dispatch(ctx, bins, [line], "replay")
    ctx.cov["rule"] = "replay of one recorded case"
    print("replayed:", line[:200])
    print("evidence/C19.json holds the observation; exit status 1 = the violation reproduces")


def sweep(first, last, tier="quick"):
    """offline: only the statistical SPE section, for VERIF_SEED = first..last (natural harness must be cached/buildable)"""
    import collections
    tot = collections.Counter()
    bad = {}
    bins = None
    for seed in range(first, last + 1):
        ctx = vlib.Ctx("C19", tier, seed)
        if bins is None:
            bins = build(ctx)
        stat_spe(ctx, bins, stat_rng(ctx, 1901), tier == "quick")
        g = ctx.extra["statistical_tests"]["spe_global_stress"]
        for k, v in g["runs_above_threshold_by_class"].items():
            tot[k] += v
        sigs = sorted(set(f.signature for f in ctx.failures))
        unlisted = [x for x in sigs if x != "TEST:spe-global:stress:local-minimum"]
        if unlisted:
            bad[seed] = unlisted
        print("seed", seed, g["runs_above_threshold_by_class"], sigs, flush=True)
    print("TOTAL above-threshold runs by class:", dict(tot))
    print("seeds with UNLISTED failures (anything but the known TEST:spe-global:stress:local-minimum):", bad)


if __name__ == "__main__":
    import sys
    if len(sys.argv) >= 4 and sys.argv[1] == "sweep":
        sweep(int(sys.argv[2]), int(sys.argv[3]), sys.argv[4] if len(sys.argv) > 4 else "quick")
