"""C20 — the CLI writes exactly what the library computes for the options given.

Tables : tools/translate_cli.py regenerates lean/TapkeeVerif/Gen/Cli.lean from /repo/src/cli/{main.cpp,util.hpp} (+ keywords,
         methods, defaults headers) on every run.
Model  : lean/TapkeeVerif/Model/{CliSyntax,CliText,Cli}.lean, driver lean/Driver/C20.lean (exe model_c20).
Spec   : the hand-written tables of lean/TapkeeVerif/Props/C20.lean (this file reads the same rows).
Impl   : the real CLI, built here from /repo/src/cli/main.cpp with vlib.HARNESS_FLAGS (ASan+UBSan), and the in-process
         library harness harness/c20_lib.cpp.

Per case:   model(plan: options + input file -> exit guard | parameter set + D x N matrix)
         -> library harness (same parameters, same matrix; exact dyadic result)
         -> model(expect: exit status + contents of output / projection-matrix / mean files, printed by the model's writer)
         -> real CLI (exit status, files, --debug echo)  -> compare, and run the property oracles on the CLI's observations.
Deterministic methods are compared on CONTENT (token by token as exact decimals within the 6-significant-digit print
contract; identical text is counted separately); methods that draw from std::rand() are compared on SHAPE only,
because run() calls srand(time(NULL)) — stated in the evidence.
"""
import binascii
import concurrent.futures
import json
import os
import re
import shutil
import subprocess
import sys
import tempfile
from fractions import Fraction

import vlib

sys.path.insert(0, os.path.join(vlib.ROOT, "tools"))
import translate_cli  # noqa: E402

PROPERTY = "C20"
LEAN_MODULES = ["TapkeeVerif.Props.C20"]
LEAN_EXES = ["model_c20"]
REQUIRED_THEOREMS = [
    "TapkeeVerif.Cli.wiring_correct",
    "TapkeeVerif.Cli.every_param_option_wired",
    "TapkeeVerif.Cli.options_match_spec",
    "TapkeeVerif.Cli.every_library_keyword_reachable_or_listed",
    "TapkeeVerif.Cli.name_maps_correct",
    "TapkeeVerif.Cli.named_defaults_are_valid",
    "TapkeeVerif.Cli.guards_present",
    "TapkeeVerif.Cli.guards_exact",
    "TapkeeVerif.Cli.main_catches_everything",
    "TapkeeVerif.Cli.defaults_follow_library_doc",
    "TapkeeVerif.Cli.defaults_faithful",
    "TapkeeVerif.Cli.data_path_is_spec",
    "TapkeeVerif.Cli.condition_tables_sound",
    "TapkeeVerif.Cli.streams_opened_first",
    "TapkeeVerif.Cli.shape",
    "TapkeeVerif.Cli.shape_transposed",
    "TapkeeVerif.Cli.read_write_roundtrip",
    "TapkeeVerif.Cli.read_write_roundtrip_gen",
    "TapkeeVerif.Cli.read_write_empty",
    "TapkeeVerif.Cli.ragged_rows_rejected",
    "TapkeeVerif.Cli.transpose_input_semantics",
    "TapkeeVerif.Cli.one_sample_per_line",
    "TapkeeVerif.Cli.unterminated_last_line_duplicated",
    "TapkeeVerif.Cli.one_sample_per_line_terminated",
    "TapkeeVerif.Cli.nameMaps_distinct",
    "TapkeeVerif.Cli.bad_inputs_exit_nonzero",
    "TapkeeVerif.Cli.projection_files",
    "TapkeeVerif.Cli.precompute_same_params",
]

# Build flags.  The two translation units instantiate every method of the library (main.cpp twice: embedUsing and the
# precomputed-callback chain); with vlib.HARNESS_FLAGS as they are (-O1 -g, ASan + full UBSan) each costs ~4 min.
#   quick   : CLI   = HARNESS_FLAGS at -O0 -g1, UBSan without its three per-access checks (vptr, alignment, null; a null
#                     dereference is still an ASan SEGV report)                                             ~50 s
#             harness = HARNESS_FLAGS at -O0 -g1 without sanitizers (it only supplies reference values)      ~30 s
#   thorough: both with the full sanitizer set at -O0 -g1                                                   ~70 s
# (-g1 keeps the file:function frames that vlib.sanitizer_summary reads and costs nothing); the two compile in parallel.
def _flags(full_sanitizers, sanitize=True):
    out = []
    for f in vlib.HARNESS_FLAGS:
        if f == "-O1":
            out.append("-O0")
        elif f == "-g":
            out.append("-g1")
        elif f.startswith("-fsanitize=") or f.startswith("-fno-sanitize"):
            if sanitize:
                out.append(f)
        else:
            out.append(f)
    if sanitize and not full_sanitizers:
        out.append("-fno-sanitize=vptr,alignment,null")
    return out


GEN_PATH = os.path.join(vlib.LEAN_DIR, "TapkeeVerif", "Gen", "Cli.lean")
PROPS_PATH = os.path.join(vlib.LEAN_DIR, "TapkeeVerif", "Props", "C20.lean")

# methods whose result depends on std::rand() (seeded from time() by run()): compared on shape only
RANDOMISED_METHODS = {"RandomProjection", "StochasticProximityEmbedding", "tDistributedStochasticNeighborEmbedding",
                      "ManifoldSculpting", "FactorAnalysis"}
RANDOMISED_EIGEN = {"Randomized"}


# ----------------------------------------------------------------------------------------------- translate
def translate(ctx):
    T = translate_cli.extract()
    vlib.write_if_changed(GEN_PATH, T["lean"])
    ctx._c20_tables = T


# ----------------------------------------------------------------------------------------------- spec (from Props/C20.lean)
def read_spec():
    src = vlib.Ctx.strip_comments(open(PROPS_PATH).read())
    spec = {"options": {}, "names": [], "unreachable": [], "constants": []}
    for m in re.finditer(r'\{ option := "([^"]+)", role := (.*?) \},?\s*$', src, re.M):
        role = m.group(2).strip()
        mm = re.fullmatch(r'\.param "([^"]+)" \(?(\.value \.(\w+)|\.named "([^"]+)"|\.flagTrue|\.flagFalse)\)?', role)
        if mm:
            how = mm.group(2)
            if how.startswith(".value"):
                spec["options"][m.group(1)] = ("param", mm.group(1), "value", mm.group(3))
            elif how.startswith(".named"):
                spec["options"][m.group(1)] = ("param", mm.group(1), "named", mm.group(4))
            else:
                spec["options"][m.group(1)] = ("param", mm.group(1), how[1:], None)
        else:
            mm = re.fullmatch(r'\.(\w+)(?: "([^"]+)")?', role)
            if not mm:
                raise ValueError("spec row not understood: " + m.group(0))
            spec["options"][m.group(1)] = (mm.group(1), mm.group(2))
    for m in re.finditer(r'^\s*\("([A-Z_]+)", "([^"]+)", "(\w+)"\),?\s*$', src, re.M):
        spec["names"].append((m.group(1), m.group(2), m.group(3)))
    m = re.search(r"def specMirrorsLibrary : List String := \[([^\]]*)\]", src, re.S)
    spec["mirrors"] = re.findall(r'"([^"]+)"', m.group(1)) if m else []
    m = re.search(r"def specUnreachable : List String := \[([^\]]*)\]", src)
    spec["unreachable"] = re.findall(r'"([^"]+)"', m.group(1)) if m else []
    # every row of the Lean tables must have been matched: count the rows textually (`option :=` / `("` inside the two
    # definitions) and compare with what the regexes produced, so that a row in a layout they do not match cannot silently
    # leave the Python spec smaller than the Lean spec
    def block(name):
        m = re.search(r"def %s\b[^\n]*:= \[(.*?)\n\]" % name, src, re.S)
        return m.group(1) if m else ""
    n_opt = len(re.findall(r"option\s*:=", block("specOptions")))
    n_names = len(re.findall(r"\(\s*\"", block("specNames")))
    if n_opt == 0 or n_names == 0 or n_opt != len(spec["options"]) or n_names != len(spec["names"]):
        raise ValueError("spec tables of Props/C20.lean not fully read: %d of %d option rows, %d of %d name rows"
                         % (len(spec["options"]), n_opt, len(spec["names"]), n_names))
    if not spec["mirrors"] or not spec["unreachable"]:
        raise ValueError("specMirrorsLibrary / specUnreachable of Props/C20.lean could not be read")
    return spec


# ----------------------------------------------------------------------------------------------- helpers
def hx(s):
    if isinstance(s, str):
        s = s.encode("latin-1")
    return binascii.hexlify(s).decode() or "-"


def unhx(s):
    return "" if s == "-" else binascii.unhexlify(s).decode("latin-1")


def dec(tok):
    """exact value of a printed number; None for nan/inf/garbage"""
    t = tok.strip()
    if not re.fullmatch(r"[+-]?(\d+\.?\d*|\.\d+)([eE][+-]?\d+)?", t):
        return None
    return Fraction(t)


def close6(a, b):
    """the print contract: two 6-significant-digit renderings of the same value (or of values one unit in the sixth digit apart)"""
    if a == b:
        return True
    m = max(abs(a), abs(b))
    return abs(a - b) <= m * Fraction(2, 100000) or m < Fraction(1, 10 ** 12)


def same6(a, b):
    """two renderings of the same option value: relative agreement at the sixth digit, NO absolute floor (1e-50 is not 0)"""
    return a == b or abs(a - b) <= max(abs(a), abs(b)) * Fraction(2, 100000)


def gfmt(x):
    return "%g" % x


class Case:
    def __init__(self, label, opts, file_text=None, **kw):
        self.label = label
        self.opts = opts                # [(canonical, value|None, spelling)]
        self.file = file_text           # str (latin-1) or None = input file does not exist
        self.io = kw.get("io", "files")  # "files": -i in.txt -o out.txt ; "std": stdin/stdout defaults
        self.intended = kw.get("intended")      # (rows as list of list of Fraction) the file is meant to contain, or None
        self.tags = set(kw.get("tags", ()))
        self.group = kw.get("group")    # precompute pairing key
        self.varied = kw.get("varied")  # (option, value) the wiring oracle looks at
        self.idx = None
        self.randomised = None          # measured: the library call consumed std::rand()

    def opt(self, name):
        v = [o for o in self.opts if o[0] == name]
        return v[-1] if v else None

    def count(self, name):
        return len([o for o in self.opts if o[0] == name])

    def key(self):
        return json.dumps({"label": self.label, "opts": self.opts, "file": self.file, "io": self.io}, sort_keys=True)


class Env:
    """everything a run needs: tables, spec, binaries, temp dir"""
    pass


def argv_of(env, case):
    args = []
    for name, value, spell in case.opts:
        row = env.optrow.get(name)
        names = row["names"] if row else [name]
        short = [n for n in names if len(n) == 1]
        alias = [n for n in names if len(n) > 1 and n != name]
        if spell == "short" and short:
            flag = "-" + short[0]
        elif spell == "alias" and alias:
            flag = "--" + alias[0]
        else:
            flag = "--" + name
        if value is None:
            args.append(flag)
        elif spell == "eq" and flag.startswith("--"):
            args.append("%s=%s" % (flag, value))
        else:
            args += [flag, value]
    return args


def model_line(case, lib):
    seen = []
    for name, value, _ in case.opts:
        if name not in seen:
            seen.append(name)
    parts = []
    for name in seen:
        occ = [o for o in case.opts if o[0] == name]
        v = occ[-1][1]
        parts.append("%s:%d:%s" % (name, len(occ), hx(v or "")))
    return "run opts=%s file=%s lib=%s" % (",".join(parts) or ",", "none" if case.file is None else hx(case.file), lib)


def parse_model(line):
    if not line.startswith("exit="):
        return None
    f = dict(t.split("=", 1) for t in line.split(" "))
    out = {"exit": int(f["exit"]), "why": unhx(f["why"]), "effects": [] if f["effects"] == "-" else f["effects"].split(","),
           "echo": None, "kw": None, "data": None, "files": {}}
    if f["echo"] != "-":
        out["echo"] = dict((unhx(a), unhx(b)) for a, b in (e.split(":") for e in f["echo"].split(",")))
    if f["kw"] != "-":
        out["kw"] = [tuple(e.split(":", 1)) for e in f["kw"].split(",")]
    if f["data"] != "-":
        out["data"] = f["data"]
    if f["files"] != "-":
        for e in f["files"].split(","):
            a, b = e.split(":")
            out["files"][unhx(a)] = unhx(b)
    return out


def run_cli(env, case):
    d = os.path.join(env.tmp, "c%05d" % case.idx)
    os.makedirs(d, exist_ok=True)
    stdin_data = None
    if case.file is not None:
        if case.io == "std":
            stdin_data = case.file.encode("latin-1")
        else:
            with open(os.path.join(d, "in.txt"), "wb") as fh:
                fh.write(case.file.encode("latin-1"))
    e = dict(os.environ)
    e["ASAN_OPTIONS"] = "detect_leaks=0:abort_on_error=0:exitcode=97"
    e["UBSAN_OPTIONS"] = "print_stacktrace=1:exitcode=97"
    e["OMP_NUM_THREADS"] = "1"
    args = [env.cli] + argv_of(env, case)
    try:
        r = subprocess.run(args, cwd=d, input=stdin_data if stdin_data is not None else b"", stdout=subprocess.PIPE,
                           stderr=subprocess.PIPE, env=e, timeout=env.timeout)
        rc, out, err = r.returncode, r.stdout.decode("latin-1"), r.stderr.decode("latin-1")
    except subprocess.TimeoutExpired:
        rc, out, err = -999, "", "timeout"
    files = {}
    for f in os.listdir(d):
        if f != "in.txt":
            with open(os.path.join(d, f), "rb") as fh:
                files[f] = fh.read().decode("latin-1")
    shutil.rmtree(d, ignore_errors=True)
    abort = None
    if rc == -999:
        abort = "timeout"
    elif rc == 97 or rc < 0 or "AddressSanitizer" in err or "runtime error:" in err:
        abort = vlib.Ctx.sanitizer_summary(err) or ("signal%d" % -rc if rc < 0 else "rc97")
    echo = {}
    for line in (out + "\n" + err).split("\n"):
        m = re.match(r"\[debug\] Parameter (.*) = \[(.*)\]$", line)
        if m:
            echo[m.group(1)] = m.group(2)
    return {"rc": rc, "stdout": out, "stderr": err, "files": files, "abort": abort, "echo": echo,
            "levels": set(re.findall(r"^\[(\w+)\]", out + "\n" + err, re.M))}


def table_of(text, delim):
    """lines x fields of a written file (the writer never emits blank lines for a matrix with columns)"""
    if text == "":
        return []
    lines = text.split("\n")
    if lines and lines[-1] == "":
        lines.pop()
    return [ln.split(delim) for ln in lines]


def compare_tables(exp, act, delim, shape_only):
    """returns (verdict, detail): 'identical' | 'decimal-equal' | 'approx' | 'shape-ok' | 'shape' | 'content' """
    te, ta = table_of(exp, delim), table_of(act, delim)
    if [len(r) for r in te] != [len(r) for r in ta]:
        return "shape", "expected %d lines x %s fields, got %d lines x %s fields" % (
            len(te), sorted(set(len(r) for r in te)), len(ta), sorted(set(len(r) for r in ta)))
    if shape_only:
        for r in ta:
            for t in r:
                if dec(t) is None and t.strip().lstrip("-") not in ("nan", "inf"):
                    return "content", "token %r is not a number" % t
        return "shape-ok", ""
    if exp == act:
        return "identical", ""
    worst = "decimal-equal"
    for i, (re_, ra) in enumerate(zip(te, ta)):
        for j, (a, b) in enumerate(zip(re_, ra)):
            if a == b:
                continue
            x, y = dec(a), dec(b)
            if x is None or y is None:
                return "content", "line %d field %d: expected %r got %r" % (i, j, a, b)
            if x == y:
                continue
            if close6(x, y):
                worst = "approx"
            else:
                return "content", "line %d field %d: expected %s got %s" % (i, j, a, b)
    return worst, ""


# ----------------------------------------------------------------------------------------------- generators
def rand_value(r):
    v = r.range(-99999, 99999)
    s = r.choice([1, 10, 100, 1000, 10000])
    return Fraction(v, s)


def token_for(r, q, plain=False):
    """a spelling of the exact value q (<= 6 significant digits) that operator>> reads back as q"""
    base = gfmt(float(q))
    if plain or r.chance(3, 4):
        return base
    c = r.below(6)
    if c == 0 and not base.startswith("-"):
        return "+" + base
    if c == 1 and q.denominator == 1 and "e" not in base:
        return base + "."
    if c == 2 and "e" not in base:
        return "%se0" % base
    if c == 3 and base.startswith("0."):
        return base[1:]
    if c == 4 and base.startswith("-0."):
        return "-" + base[2:]
    if c == 5 and "e" not in base and "." in base:
        return base + "0"
    return base


def rand_matrix(r, n, d):
    return [[rand_value(r) for _ in range(d)] for _ in range(n)]


def file_of(r, rows, delim, transposed=False, trailing_newline=True, blanks=0, crlf=False, trailing_delim=False, plain=False):
    """text of a matrix file; `rows` are the SAMPLES (N x D); transposed=True writes D lines of N values"""
    m = rows
    if transposed and rows:
        m = [[rows[i][j] for i in range(len(rows))] for j in range(len(rows[0]))]
    lines = [delim.join(token_for(r, q, plain) for q in row) + (delim if trailing_delim else "") for row in m]
    for _ in range(blanks):
        lines.insert(r.below(len(lines) + 1), "")
    nl = "\r\n" if crlf else "\n"
    text = nl.join(lines)
    if trailing_newline:
        text += nl
    return text


def dataset(r, n=22, d=4):
    """generic points (no ties) for the embedding methods, coordinates in [-5, 5] so that Gaussian kernels of width ~1 are
    neither 0 nor 1"""
    return [[Fraction(r.range(-50000, 50000), 10000) for _ in range(d)] for _ in range(n)]


def base_opts(method=None, extra=()):
    o = [("input-file", "in.txt", "short"), ("output-file", "out.txt", "short")]
    if method:
        o.append(("method", method, "short"))
    return o + list(extra)


SAFE_EXTRA = {
    # options that keep a method fast / valid on 22 points (they are part of the case, model and library get them too)
    "ManifoldSculpting": [("max-iters", "3", "long")],
    "tDistributedStochasticNeighborEmbedding": [("sne-perplexity", "2", "long")],
}

# non-default, valid values used when an option is varied (text, spelling)
VARY = {
    "target-dimension": ["1", "3"], "num-neighbors": ["7", "12"], "gaussian-width": ["2.5", "12.5"],
    "timesteps": ["2", "3"], "eigenshift": ["0.001", "1e-7"], "landmark-ratio": ["0.5", "0.8"],
    "spe-tolerance": ["0.001", "1e-7"], "spe-num-updates": ["5", "20"], "max-iters": ["2", "7"],
    "fa-epsilon": ["0.01", "1e-7"], "sne-perplexity": ["3", "2.5"], "sne-theta": ["0", "0.25"],
    "squishing-rate": ["0.9", "0.5"],
}


def gen_cases(env, r, quick):
    T, spec = env.T, env.spec
    cases = []
    data = dataset(r)
    data_txt = file_of(r, data, ",", plain=True)
    method_names = [(k, v) for m, k, v in spec["names"] if m == "DIMENSION_REDUCTION_METHODS"]
    for k, v in env.maps.get("DIMENSION_REDUCTION_METHODS", []):
        if (k, v) not in method_names and k not in [a for a, _ in method_names]:
            method_names.append((k, v))     # a name the code accepts that the spec does not know
    canon_name = {}
    for k, v in method_names:
        canon_name.setdefault(v, k)

    def extra(ident):
        return SAFE_EXTRA.get(ident, [])

    # 1. every method name and alias, defaults otherwise, --debug echo
    for k, v in method_names:
        cases.append(Case("method:%s" % k, base_opts(k, extra(v) + [("debug", None, "long")]), data_txt, intended=data,
                          tags={"method", "embed"}, varied=("method", k)))
    # 2. neighbours / eigen / strategy names (on methods that use them)
    for m, k, v in spec["names"]:
        if m == "NEIGHBORS_METHODS":
            for meth in ("lle", "isomap"):
                cases.append(Case("nm:%s:%s" % (k, meth), base_opts(meth, [("neighbors-method", k, "alias"), ("debug", None, "long")]),
                                  data_txt, intended=data, tags={"embed"}, varied=("neighbors-method", k)))
        if m == "EIGEN_METHODS":
            for meth in ("lle", "pca", "mds"):
                cases.append(Case("em:%s:%s" % (k, meth), base_opts(meth, [("eigen-method", k, "alias"), ("debug", None, "long")]),
                                  data_txt, intended=data, tags={"embed"}, varied=("eigen-method", k)))
        if m == "COMPUTATION_STRATEGIES":
            cases.append(Case("cs:%s" % k, base_opts("pca", [("computation-strategy", k, "alias"), ("debug", None, "long")]),
                              data_txt, intended=data, tags={"embed"}, varied=("computation-strategy", k)))
    # 3. every value option varied, on a method that reads the keyword (quick: one method; thorough: every alias)
    uses = {"target-dimension": ["pca", "lle"], "num-neighbors": ["lle", "isomap"], "gaussian-width": ["la", "dm"],
            "timesteps": ["dm"], "eigenshift": ["lle", "lpp"], "landmark-ratio": ["l-mds", "l-isomap"],
            "spe-tolerance": ["spe"], "spe-num-updates": ["spe"], "max-iters": ["fa", "spe"], "fa-epsilon": ["fa"],
            "sne-perplexity": ["t-sne"], "sne-theta": ["t-sne"], "squishing-rate": ["manifold_sculpting"]}
    spellings = ["long", "eq", "alias"]
    for opt, role in spec["options"].items():
        if role[0] != "param":
            continue
        if role[2] == "value":
            vals = VARY.get(opt, ["3"])
            meths = uses.get(opt, ["pca"]) if quick else sorted(set(k for k, _ in method_names))
            for mi, meth in enumerate(meths):
                ident = dict(method_names).get(meth)
                for vi, val in enumerate(vals if quick else vals[:1] if mi >= 2 else vals):
                    ex = [o for o in extra(ident) if o[0] != opt]
                    cases.append(Case("opt:%s=%s:%s" % (opt, val, meth),
                                      base_opts(meth, ex + [(opt, val, spellings[(mi + vi) % 3]), ("debug", None, "long")]),
                                      data_txt, intended=data, tags={"embed", "option"}, varied=(opt, val)))
        elif role[2] in ("flagTrue", "flagFalse"):
            for meth in (["spe", "pca"] if quick else sorted(set(k for k, _ in method_names))):
                ident = dict(method_names).get(meth)
                for n in (0, 1, 2):
                    cases.append(Case("flag:%s*%d:%s" % (opt, n, meth),
                                      base_opts(meth, extra(ident) + [(opt, None, "long")] * n + [("debug", None, "long")]),
                                      data_txt, intended=data, tags={"embed", "option"}, varied=(opt, n)))
    # 3b. full double precision and range: a value option must reach the library as the double the text denotes.  The echo
    # prints 6 significant digits, so a value rounded to float is invisible there unless it leaves float's RANGE: 1e-50 (float:
    # 0), 1e+39 (float: inf / rejected); plus a 10-digit value, and a landmark ratio whose float rounding (0.499999999 -> 0.5)
    # changes the number of landmarks (22 * ratio: 10 vs 11) and thereby the embedding.  pca ignores all these keywords, so the
    # run itself is unaffected and only the wiring is observed.
    for opt, role in spec["options"].items():
        if role[0] == "param" and role[2] == "value" and role[3] == "dbl":
            for val in ["1e-50", "0.1234567891"] + (["1e+39"] if opt in ("gaussian-width", "sne-perplexity") else []):
                cases.append(Case("precision:%s=%s" % (opt, val), base_opts("pca", [(opt, val, "eq"), ("debug", None, "long")]),
                                  data_txt, intended=data, tags={"embed", "option", "precision"}, varied=(opt, val)))
    for meth in ("l-mds", "l-isomap"):
        cases.append(Case("precision:landmark-ratio=0.499999999:%s" % meth,
                          base_opts(meth, [("landmark-ratio", "0.499999999", "eq"), ("debug", None, "long")]),
                          data_txt, intended=data, tags={"embed", "option", "precision"}, varied=("landmark-ratio", "0.499999999")))
    # 4. --precompute changes nothing: every method (canonical name), with and without
    for ident, k in sorted(canon_name.items()):
        for pre in (False, True):
            cases.append(Case("precompute:%s:%d" % (k, pre), base_opts(k, extra(ident) + ([("precompute", None, "long")] if pre else [])),
                              data_txt, intended=data, tags={"embed", "precompute"}, group="pre:" + k))
    # 5. projection files: both / one / none, on projecting and non-projecting methods
    for meth in (["pca", "lpp", "lle", "ra"] if quick else sorted(canon_name.values())):
        ident = dict(method_names).get(meth)
        for pm, pmean in ((1, 1), (1, 0), (0, 1)):
            ex = list(extra(ident))
            if pm:
                ex.append(("output-projection-matrix-file", "pm.txt", "alias"))
            if pmean:
                ex.append(("output-projection-mean-file", "mean.txt", "alias"))
            cases.append(Case("proj:%s:%d%d" % (meth, pm, pmean), base_opts(meth, ex), data_txt, intended=data,
                              tags={"embed", "projection"}))
    # 6. bad inputs that must exit non-zero
    bad = [("method", "foo"), ("method", ""), ("method", "LLE"), ("method", "pca "), ("neighbors-method", "kdtree"),
           ("neighbors-method", "Brute"), ("eigen-method", "arpack"), ("eigen-method", "lapack"),
           ("computation-strategy", "opencl"), ("target-dimension", "0"), ("target-dimension", "-1"),
           ("target-dimension", "-2147483648"), ("num-neighbors", "2"), ("num-neighbors", "0"), ("num-neighbors", "-5"),
           ("gaussian-width", "-0.5"), ("gaussian-width", "-1e-9"), ("timesteps", "-1"), ("timesteps", "-7"),
           # not guards of run(): cxxopts refuses the text
           ("target-dimension", "abc"), ("target-dimension", "2.5"), ("num-neighbors", "99999999999"), ("gaussian-width", "wide"),
           ("timesteps", "")]
    for n in range(0 if quick else 12):
        bad.append(("method", "".join(r.choice("abcdefghijklmnopqrstuvwxyz_-") for _ in range(r.range(1, 9)))))
    for opt, val in bad:
        for meth in (None, "dm"):
            if opt == "method" and meth:
                continue
            cases.append(Case("bad:%s=%s:%s" % (opt, val, meth), base_opts(meth, [(opt, val, "eq")]), data_txt, intended=data,
                              tags={"bad"}, varied=(opt, val)))
    # boundary values that are NOT errors of run()
    for opt, val, meth in (("target-dimension", "1", "pca"), ("num-neighbors", "3", "lle"), ("gaussian-width", "0", "pca"),
                           ("timesteps", "0", "pca"), ("timesteps", "0", "dm"), ("gaussian-width", "0", "la")):
        cases.append(Case("edge:%s=%s:%s" % (opt, val, meth), base_opts(meth, [(opt, val, "long"), ("debug", None, "long")]),
                          data_txt, intended=data, tags={"embed", "edge"}, varied=(opt, val)))
    cases.append(Case("help", [("help", None, "short")], data_txt, tags={"help"}))
    cases.append(Case("unknown-option", base_opts("pca") + [("bogus-option", None, "long")], data_txt, tags={"bad"}))
    for lvl in ("verbose", "benchmark", "debug"):
        cases.append(Case("logging:" + lvl, base_opts("pca", [(lvl, None, "long")]), data_txt, intended=data, tags={"embed", "logging"}))
    # 7. file formats through passthru: delimiters, transposition flags, blank lines, junk, ragged, empty, missing newline
    delims = [",", ";", "\t", " ", "|", ":"]
    two = [[Fraction(1), Fraction(2)], [Fraction(3), Fraction(4)]]
    td1 = [("target-dimension", "1", "alias")]
    cases.append(Case("file:no-final-newline:tiny", base_opts("passthru", td1), "1,2\n3,4", intended=two,
                      tags={"file", "no-final-newline"}))
    cases.append(Case("file:plain:tiny", base_opts("passthru", td1), "1,2\n3,4\n", intended=two, tags={"file", "plain"}))
    nfiles = 40 if quick else 400
    for n in range(nfiles):
        dl = delims[n % len(delims)]
        N, D = r.range(2, 6), r.range(1, 5)      # the library demands target dimension < N: --td 1 and N >= 2
        rows = rand_matrix(r, N, D)
        tin, tout = bool(n // len(delims) % 2), bool(n // (2 * len(delims)) % 2)
        kind = ["plain", "blank", "crlf", "trailing-delim", "no-final-newline", "plain"][r.below(6)]
        txt = file_of(r, rows, dl, transposed=tin, trailing_newline=(kind != "no-final-newline"),
                      blanks=(r.range(1, 3) if kind == "blank" else 0), crlf=(kind == "crlf"),
                      trailing_delim=(kind == "trailing-delim"))
        ex = [("delimiter", dl, ["short", "eq", "long"][n % 3]), ("target-dimension", "1", "alias")]
        if tin:
            ex.append(("transpose-input", None, "long"))
        if tout:
            ex.append(("transpose-output", None, "long"))
        cases.append(Case("file:%s:%s:tin%d:tout%d:%dx%d" % (kind, repr(dl), tin, tout, N, D), base_opts("passthru", ex), txt,
                          intended=rows, tags={"file", kind}))
    # number spellings: everything `istringstream >> double` accepts must be read (and the model's parseNum agrees);
    # each family once as a whole COLUMN (a reader that rejects the spelling loses the column in every row: wrong shape /
    # content, exit 0) and once in a SINGLE token (the row becomes shorter: a well-formed file is rejected)
    families = {
        "plus": ["+1.5", "+2", "+0.25", "+7"],
        "plus-dot": ["+.5", "+.25", "+.125", "+.75"],
        "trailing-dot": ["5.", "12.", "7.", "3."],
        "leading-dot": [".5", ".25", ".125", ".75"],
        "exp-lower": ["1e3", "2e2", "5e1", "25e-2"],
        "exp-upper": ["1E-3", "2E+2", "5E0", "125E-3"],
        "plus-exp": ["+1.5e+2", "+2.5e-1", "+1e+0", "+3e+1"],
        "printf-plus-e": ["+1.5000e+00", "-2.5000e-01", "+0.0000e+00", "+1.2500e+02"],
        "leading-zeros": ["007.5", "00012", "0.50", "000.25"],
        "negative-zero": ["-0", "-0.0", "-0e0", "-0."],
        "leading-space": [" 1.5", "  2", "\t0.25", " -7"],
        "trailing-space": ["1.5 ", "2  ", "0.25\t", "-7 "],
    }
    plain_cols = [["1.25", "-3"], ["2.5", "4"], ["-0.75", "100"], ["8", "-0.125"]]
    for fam, toks in families.items():
        vals = [Fraction(t.strip()) for t in toks]
        for dl in ((",", ";") if quick else (",", ";", "|", ":")):
            col_rows = [[plain_cols[i][0], toks[i], plain_cols[i][1]] for i in range(4)]
            col_int = [[Fraction(plain_cols[i][0]), vals[i], Fraction(plain_cols[i][1])] for i in range(4)]
            cases.append(Case("spell:%s:column:%s" % (fam, repr(dl)), base_opts("passthru", td1 + [("delimiter", dl, "short")]),
                              "".join(dl.join(row) + "\n" for row in col_rows), intended=col_int,
                              tags={"file", "spelling", "spell-" + fam}))
            one_rows = [[plain_cols[i][0], toks[i] if i == 1 else gfmt(float(vals[i])), plain_cols[i][1]] for i in range(4)]
            cases.append(Case("spell:%s:single:%s" % (fam, repr(dl)), base_opts("passthru", td1 + [("delimiter", dl, "short")]),
                              "".join(dl.join(row) + "\n" for row in one_rows), intended=col_int,
                              tags={"file", "spelling", "spell-" + fam}))
        # and through a real method: the library must receive the same matrix
        big = [[plain_cols[i % 4][0], toks[i % 4], gfmt(float(data[i][2])), gfmt(float(data[i][3]))] for i in range(len(data))]
        big_int = [[Fraction(plain_cols[i % 4][0]) + Fraction(i, 7), vals[i % 4], data[i][2], data[i][3]] for i in range(len(data))]
        big = [[gfmt(float(big_int[i][0])), toks[i % 4], big[i][2], big[i][3]] for i in range(len(data))]
        big_int = [[Fraction(gfmt(float(big_int[i][0]))), vals[i % 4], data[i][2], data[i][3]] for i in range(len(data))]
        cases.append(Case("spell:%s:pca" % fam, base_opts("pca"), "".join(",".join(row) + "\n" for row in big), intended=big_int,
                          tags={"embed", "spelling", "spell-" + fam}))
    # spellings that are NOT numbers for operator>> or only partly: handled AS WRITTEN (prefix consumed, rest of the token
    # ignored; a token without a number prefix is dropped) - no property oracle, the model must agree with the CLI
    as_written = {
        "junk-suffix": ["1.5x", "2.5abc", "3e", "4.5 7"],
        "half-exponent": ["1e", "2e+", "3.5e-", "4E"],
        "inf-nan": ["inf", "nan", "-inf", "NaN"],
        "hex-and-signs": ["0x1A", "--1", "+-2", "1-2"],
    }
    for fam, toks in as_written.items():
        col_rows = [[plain_cols[i][0], toks[i], plain_cols[i][1]] for i in range(4)]
        cases.append(Case("aswritten:%s:column" % fam, base_opts("passthru", td1), "".join(",".join(row) + "\n" for row in col_rows),
                          tags={"file", "malformed", "as-written-" + fam}))
        one_rows = [[plain_cols[i][0], toks[i] if i == 2 else "9", plain_cols[i][1]] for i in range(4)]
        cases.append(Case("aswritten:%s:single" % fam, base_opts("passthru", td1), "".join(",".join(row) + "\n" for row in one_rows),
                          tags={"file", "malformed", "as-written-" + fam}))
    # malformed files
    rows = rand_matrix(r, 4, 3)
    good = file_of(r, rows, ",", plain=True)
    L = good.split("\n")
    malformed = {
        "ragged-short": "\n".join([L[0], ",".join(L[1].split(",")[:2])] + L[2:]),
        "ragged-long": "\n".join([L[0], L[1] + ",7"] + L[2:]),
        "ragged-first": "\n".join([L[0] + ",1"] + L[1:]),
        "junk-one-row": "\n".join([L[0], "abc," + ",".join(L[1].split(",")[1:])] + L[2:]),
        "junk-every-row": "\n".join(("x," + l) if l else l for l in L),
        "junk-suffix": "\n".join((l + "abc") if l else l for l in L),
        "nan-token": "\n".join([L[0], "nan," + ",".join(L[1].split(",")[1:])] + L[2:]),
        "empty-field": "\n".join([L[0], L[1].replace(",", ",,", 1)] + L[2:]),
        "empty": "", "only-newlines": "\n\n\n", "only-junk": "a,b\nc,d\n", "one-number": "5", "spaces-in-fields": " 1 , 2 \n 3 , 4 \n",
        "wrong-delimiter": good.replace(",", ";"),
    }
    for name, txt in malformed.items():
        for tin in (False, True):
            ex = td1 + ([("transpose-input", None, "long")] if tin else [])
            cases.append(Case("malformed:%s:tin%d" % (name, tin), base_opts("passthru", ex), txt, tags={"file", "malformed", name}))
    cases.append(Case("missing-input-file", base_opts("passthru", td1), None, tags={"file", "malformed"}))
    cases.append(Case("multichar-delimiter", base_opts("passthru", td1 + [("delimiter", ";,", "long")]), "1;2\n3;4\n",
                      intended=[[Fraction(1), Fraction(2)], [Fraction(3), Fraction(4)]], tags={"file"}))
    cases.append(Case("std-streams", [("method", "passthru", "long")] + td1, "1,2\n3,4\n", io="std",
                      intended=[[Fraction(1), Fraction(2)], [Fraction(3), Fraction(4)]], tags={"file"}))
    # transposition with a real method and every delimiter for output
    for dl in delims[:4]:
        for tin in (False, True):
            for tout in (False, True):
                ex = [("delimiter", dl, "short")] + ([("transpose-input", None, "long")] if tin else []) + \
                     ([("transpose-output", None, "long")] if tout else [])
                cases.append(Case("pca:%s:tin%d:tout%d" % (repr(dl), tin, tout), base_opts("pca", ex),
                                  file_of(r, data, dl, transposed=tin, plain=True), intended=data, tags={"embed", "transpose"}))
    for i, c in enumerate(cases):
        c.idx = i
    return cases


# ----------------------------------------------------------------------------------------------- judging
def method_ident(env, case):
    o = case.opt("method")
    name = o[1] if o else "locally_linear_embedding"
    for m, k, v in env.spec["names"]:
        if m == "DIMENSION_REDUCTION_METHODS" and k == name:
            return v
    return dict(env.maps.get("DIMENSION_REDUCTION_METHODS", [])).get(name)


def expected_exit_by_property(env, case):
    """'nonzero' when the property text demands a non-zero exit status for this case, else None"""
    names = {}
    for m, k, v in env.spec["names"]:
        names.setdefault(m, set()).add(k)
    for name, value, _ in case.opts:
        role = env.spec["options"].get(name)
        if role is None:
            return "nonzero"        # unknown option
        if role[0] == "param" and role[2] == "named" and value not in names.get(role[3], ()):
            return "nonzero"
        try:
            if name == "target-dimension" and int(value) <= 0:
                return "nonzero"
            if name == "num-neighbors" and int(value) < 3:
                return "nonzero"
            if name == "timesteps" and int(value) < 0:
                return "nonzero"
            if name == "gaussian-width" and float(value) < 0:
                return "nonzero"
        except (TypeError, ValueError):
            return "nonzero"        # not a number at all
    if "ragged-short" in case.tags or "ragged-long" in case.tags or "ragged-first" in case.tags:
        return "nonzero"
    return None


def small(s, n=300):
    s = s if isinstance(s, str) else json.dumps(s, default=str)
    return s if len(s) <= n else s[:n] + "…"


def describe(env, case):
    return {"argv": ["tapkee"] + argv_of(env, case), "input_file": case.file, "io": case.io, "label": case.label,
            "oracle": {"intended": None if case.intended is None else [[str(q) for q in row] for row in case.intended],
                       "tags": sorted(case.tags), "varied": list(case.varied) if case.varied else None, "opts": case.opts}}


def judge(ctx, env, cases, use_model=True):
    r = ctx.rng
    # stage 1: model plan
    plans = [None] * len(cases)
    if use_model:
        rc, out, err = ctx.run_model("model_c20", [model_line(c, "stop") for c in cases])
        if rc != 0 or len(out) != len(cases):
            ctx.broken("model-driver", "model_c20", "model driver failed: rc=%s %s" % (rc, err[-300:]))
            use_model = False
        else:
            plans = [parse_model(l) for l in out]
            for c, p, l in zip(cases, plans, out):
                if p is None:
                    ctx.broken("model-driver:bad-answer", "model_c20", "model driver answered %r" % l[:80], case=c.key())
    ctx.log("stage 1 (model plan) done")
    # stage 2: library harness for the cases that reach embed()
    libres = [None] * len(cases)
    env.rand_used = {}
    todo = [i for i, p in enumerate(plans) if p and p["why"] == "library: STOP" and p["kw"] and p["data"]
            and not any(v.startswith("ERR") for _, v in p["kw"])]
    if todo and env.lib:
        lines = ["embed " + " ".join("%s=%s" % kv for kv in plans[i]["kw"]) + " data=" + plans[i]["data"] for i in todo]

        def run_chunk(chunk):
            return ctx.run_impl_cases(env.lib, chunk, env={"OMP_NUM_THREADS": "1"}, timeout=env.timeout * 4)
        nchunk = 8
        chunks = [lines[k::nchunk] for k in range(nchunk)]
        with concurrent.futures.ThreadPoolExecutor(max_workers=nchunk) as ex:
            outs = list(ex.map(run_chunk, chunks))
        for k in range(nchunk):
            for j, o in enumerate(outs[k]):
                if o[:3] in ("r0 ", "r1 "):
                    env.rand_used[todo[k + j * nchunk]] = o[:2] == "r1"
                    o = o[3:]
                libres[todo[k + j * nchunk]] = o
    ctx.log("stage 2 (library harness, %d calls) done" % len(todo))
    # stage 3: model expectation with the library's result
    expects = list(plans)
    if use_model:
        idx, lines = [], []
        for i in todo:
            lr = libres[i]
            if lr is None:
                continue
            if lr.startswith("ok|") and "nan" not in lr and "inf" not in lr and not lr.endswith("nonmatrix-projection"):
                idx.append(i)
                lines.append(model_line(cases[i], lr))
            elif lr.startswith("exc|"):
                idx.append(i)
                lines.append(model_line(cases[i], "exc"))
            elif lr.startswith("ok|"):
                # NaN / inf in the library's result: not representable in the exact model; property oracles only
                expects[i] = None
                ctx.stat("library-result-not-finite")
                ctx.extra.setdefault("library_result_not_finite", []).append(cases[i].label)
        if lines:
            rc, out, err = ctx.run_model("model_c20", lines)
            if rc == 0 and len(out) == len(lines):
                for i, l in zip(idx, out):
                    expects[i] = parse_model(l)
            else:
                ctx.broken("model-driver", "model_c20", "model driver failed on expectations: rc=%s %s" % (rc, err[-300:]))
    ctx.log("stage 3 (model expectations) done")
    # stage 4: the real CLI, 16-way parallel
    with concurrent.futures.ThreadPoolExecutor(max_workers=16) as ex:
        acts = list(ex.map(lambda c: run_cli(env, c), cases))
    ctx.log("stage 4 (%d CLI runs) done" % len(cases))
    # a run that hit the time limit while 16 ran in parallel is repeated once, alone, with twice the limit, before it is
    # believed (a thrashing machine is not a property of the CLI)
    for k, (c, a) in enumerate(zip(cases, acts)):
        if a["abort"] == "timeout":
            ctx.stat("timeout-retried")
            saved = env.timeout
            env.timeout = 2 * saved
            try:
                acts[k] = run_cli(env, c)
            finally:
                env.timeout = saved
            if acts[k]["abort"] != "timeout":
                ctx.stat("timeout-retried-ok")
    # stage 5: compare + oracles
    by_group = {}
    for i, (c, plan, lr, exp, act) in enumerate(zip(cases, plans, libres, expects, acts)):
        c.randomised = env.rand_used.get(i)
        judge_one(ctx, env, c, plan, lr, exp, act)
        if c.group:
            by_group.setdefault(c.group, []).append((c, act, lr))
    # --precompute changes nothing but speed (oracle on the implementation alone)
    for g, members in by_group.items():
        if len(members) != 2:
            continue
        (c0, a0, l0), (c1, a1, l1) = sorted(members, key=lambda m: m[0].count("precompute"))
        ident = method_ident(env, c0)
        shape_only = (not env.pinned) and (ident in RANDOMISED_METHODS or bool(c0.randomised) or bool(c1.randomised))
        ctx.stat("precompute-pairs")
        if a1["abort"] and not a0["abort"]:
            continue    # reported by judge_one as an abort
        if (a0["rc"] == 0) != (a1["rc"] == 0):
            ctx.fail("precompute:exit:%s" % ident, "--precompute changes the exit status for method %s (%d without, %d with): %s"
                     % (ident, a0["rc"], a1["rc"], small(a1["stderr"], 200)), case=describe(env, c1),
                     detail={"without": a0["rc"], "with": a1["rc"], "stderr": a1["stderr"][-600:]})
            continue
        if a0["rc"] != 0:
            continue
        v, why = compare_tables(a0["files"].get("out.txt", ""), a1["files"].get("out.txt", ""), ",", shape_only)
        if v in ("shape", "content"):
            ctx.fail("precompute:output:%s" % ident, "--precompute changes the output of method %s: %s" % (ident, why),
                     case=describe(env, c1), detail={"without": small(a0["files"].get("out.txt", ""), 600),
                                                     "with": small(a1["files"].get("out.txt", ""), 600)})
        else:
            ctx.stat("precompute-" + v)


def delim_of(case):
    o = case.opt("delimiter")
    v = o[1] if o else ","
    return v[0] if v else "\0"


def judge_one(ctx, env, c, plan, lr, exp, act):
    ident = method_ident(env, c)
    em = c.opt("eigen-method")
    em_ident = dict((k, v) for m, k, v in env.spec["names"] if m == "EIGEN_METHODS").get(em[1]) if em else "Dense"
    # measured by the harness (did the library call consume std::rand()?); the static lists are the fallback
    draws = c.randomised if c.randomised is not None else (ident in RANDOMISED_METHODS or em_ident in RANDOMISED_EIGEN)
    # with the seed pinned (build()) the CLI draws the same std::rand() sequence as the harness: content comparison throughout
    randomised = draws and not env.pinned
    ctx.stat("compared-on-shape-only" if randomised else "compared-on-content-seed-pinned" if draws else "compared-on-content")
    reached = bool(plan and plan["why"] == "library: STOP")
    nontrivial = reached or "bad" in c.tags or "malformed" in c.tags
    ctx.count(c.key(), nontrivial)
    for t in sorted(c.tags):
        ctx.stat("tag:" + t)
    if exp is not None:
        ctx.cov["traces_validated_against_impl"] += 1
    D = describe(env, c)
    dl = delim_of(c)
    # A. aborts are findings whatever the model says
    if act["abort"]:
        ctx.stat("impl-abort")
        sig = "abort:%s:%s%s" % (act["abort"], ident, ":precompute" if c.count("precompute") else "")
        ctx.fail(sig, "the CLI aborts (%s) instead of exiting with a status: %s" % (act["abort"], " ".join(D["argv"])),
                 case=D, detail={"stderr": act["stderr"][-1500:]})
        return
    want = expected_exit_by_property(env, c)
    # B. exit status
    if want == "nonzero":
        ctx.stat("oracle:exit-nonzero")
        if act["rc"] == 0:
            ctx.fail("exit:%s" % (c.varied[0] if c.varied else c.label.split(":")[1]),
                     "bad input accepted: `%s` exits 0" % " ".join(D["argv"]), case=D,
                     detail={"stdout": act["stdout"][-300:], "files": {k: small(v) for k, v in act["files"].items()}})
            return
    if "help" in c.tags:
        ctx.stat("oracle:help")
        if "Usage" not in act["stdout"]:
            ctx.fail("help", "--help does not print the usage", case=D)
    if exp is not None and exp["exit"] == 255:
        ctx.broken("model:stuck", "model_c20 (run() interpretation)", "the model cannot interpret a generated step: " + exp["why"],
                   case=D)
        return
    if exp is not None and (exp["exit"] == 0) != (act["rc"] == 0):
        # library behaviour the model does not predict (harness failed?) or a real disagreement
        ctx.stat("exit-mismatch")
        ctx.extra.setdefault("exit_mismatch_cases", []).append(
            {"label": c.label, "model": [exp["exit"], exp["why"]], "cli": act["rc"], "stderr": act["stderr"][-160:], "harness": small(lr or "", 80)})
        if lr is not None and lr.startswith("abort:"):
            ctx.fail("abort:lib:%s:%s" % (lr[6:], ident), "the library aborts in-process (%s) with the parameters the CLI builds for `%s`"
                     % (lr[6:], " ".join(D["argv"])), case=D, detail={"harness": lr, "stderr": getattr(ctx, "last_abort_stderr", "")[-1200:]})
        elif "no-final-newline" in c.tags or (c.file is not None and c.file and not c.file.endswith("\n")):
            pass        # judged below by the line-count oracle
        elif act["rc"] != 0 and exp["exit"] == 0 and "precision" in c.tags and c.varied:
            ctx.fail("wiring:%s" % c.varied[0], "--%s=%s is a valid double but the CLI exits %d (%s)"
                     % (c.varied[0], c.varied[1], act["rc"], small(act["stderr"].strip(), 120)), case=D,
                     detail={"stderr": act["stderr"][-600:]})
        elif act["rc"] != 0 and exp["exit"] == 0 and c.intended is not None and want is None and lr and lr.startswith("ok|"):
            # property oracle: a well-formed file (the generator knows the matrix it spells) with valid options, which the
            # library embeds, must be embedded by the CLI too
            ctx.fail("read:wellformed-input-rejected:%s" % (sorted(t for t in c.tags if t.startswith("spell-")) or ["file"])[0],
                     "the CLI exits %d (%s) on a well-formed input file that the library embeds: `%s`"
                     % (act["rc"], small(act["stderr"].strip(), 120), " ".join(D["argv"])), case=D,
                     detail={"stderr": act["stderr"][-600:], "input": small(c.file or "", 400)})
        else:
            ctx.broken("corr:exit", "correspondence c20 (exit status of model+library vs CLI)",
                       "exit status differs: model %d (%s), CLI %d (%s)" % (exp["exit"], exp["why"], act["rc"], small(act["stderr"], 160)),
                       case=D, detail={"model": exp["why"], "stderr": act["stderr"][-600:], "harness": small(lr or "", 200)})
        return
    # C. property oracles on the implementation's observations
    if act["rc"] == 0 and c.intended is not None and c.io == "files":
        out = act["files"].get("out.txt")
        N = len(c.intended)
        if out is None:
            ctx.fail("output:missing", "exit 0 but no output file was written", case=D)
            return
        td = c.opt("target-dimension")
        d = len(c.intended[0]) if ident == "PassThru" else int(td[1]) if td else 2
        tab = table_of(out, dl)
        shape = (len(tab), sorted(set(len(x) for x in tab)))
        want_shape = (d, [N]) if c.count("transpose-output") else (N, [d])
        ctx.stat("oracle:shape")
        if shape != want_shape:
            # the shape an unterminated last line read twice would give (F-CLI-EOF): one more sample, or with
            # --transpose-input one more coordinate
            n2, d2 = (N, d + 1) if (c.count("transpose-input") and ident == "PassThru") else (N + 1, d)
            dup_shape = (d2, [n2]) if c.count("transpose-output") else (n2, [d2])
            sig = "read:unterminated-last-line" if (c.file and not c.file.endswith("\n") and shape == dup_shape) else \
                "shape:%s" % ("passthru" if ident == "PassThru" else "embedding")
            ctx.fail(sig, "output has %d lines x %s fields, the property demands %d x %s (N = %d samples%s)"
                     % (shape[0], shape[1], want_shape[0], want_shape[1], N,
                        "; the input file has no newline after its last line" if sig.startswith("read:") else ""),
                     case=D, detail={"output": small(out, 500), "input": small(c.file or "", 500)})
            return
        if out and out.endswith(dl + "\n") or any(ln.endswith(dl) for ln in out.split("\n") if ln):
            ctx.fail("shape:trailing-delimiter", "a line of the output ends with the delimiter", case=D, detail={"output": small(out)})
            return
        if ident == "PassThru":
            ctx.stat("oracle:passthru-content")
            want_rows = c.intended
            if c.count("transpose-output"):
                want_rows = [[c.intended[i][j] for i in range(N)] for j in range(d)]
            want_txt = "".join(dl.join(gfmt(float(q)) for q in row) + "\n" for row in want_rows)
            v, why = compare_tables(want_txt, out, dl, False)
            if v in ("shape", "content"):
                ctx.fail("passthru:content", "passthru does not write the matrix it was given: " + why, case=D,
                         detail={"output": small(out, 500), "wanted": small(want_txt, 500)})
                return
    # wiring oracle on the --debug echo
    if act["echo"] and c.varied and c.varied[0] in env.spec["options"]:
        role = env.spec["options"][c.varied[0]]
        if role[0] == "param":
            disp = env.kwdisplay.get(role[1])
            got = act["echo"].get(disp)
            ctx.stat("oracle:wiring")
            if role[2] == "value":
                ok = got is not None and dec(got) is not None and same6(dec(got), Fraction(c.varied[1]))
                wanted = c.varied[1]
            elif role[2] == "named":
                cident = dict((k, v) for m, k, v in env.spec["names"] if m == role[3]).get(c.varied[1])
                wanted = env.constdisplay.get(cident)
                ok = got == wanted
            else:
                present = c.varied[1] > 0
                wanted = "1" if (present == (role[2] == "flagTrue")) else "0"
                ok = got == wanted
            if not ok:
                ctx.fail("wiring:%s" % c.varied[0], "option --%s%s: the library receives `%s = [%s]`, the help text / property says [%s]"
                         % (c.varied[0], "" if c.varied[1] in (0, 1, 2) else "=" + str(c.varied[1]), disp, got, wanted), case=D,
                         detail={"echo": act["echo"]})
                return
    # defaults: without the option the library receives (a) what `--help` of this very binary promises, (b) the literal
    # written in with_default(…) (F-CLI-DEFAULT class), (c) for the options that mirror the library, the default the
    # keyword's documentation states
    if act["echo"] and "method" in c.tags:
        for row in env.T["options"]:
            optn = row["canonical"]
            role = env.spec["options"].get(optn)
            if not role or role[0] != "param" or role[2] != "value" or c.opt(optn):
                continue
            disp = env.kwdisplay.get(role[1])
            got = act["echo"].get(disp)
            refs = [("with_default(%s) in the source" % row["default"], row["default"])]
            if optn in env.help_defaults:
                refs.append(("`--help` (default: %s)" % env.help_defaults[optn], env.help_defaults[optn]))
            if optn in env.spec["mirrors"] and env.T["doc_defaults"].get(role[1]):
                refs.append(("the documentation of tapkee::%s (default %s)" % (role[1], env.T["doc_defaults"][role[1]]),
                             env.T["doc_defaults"][role[1]]))
            for what, ref in refs:
                ctx.stat("oracle:default")
                ok = got is not None and dec(got) is not None and dec(ref) is not None and same6(dec(got), dec(ref))
                if not ok:
                    ctx.fail("default:%s" % optn, "without --%s the library receives `%s = [%s]`, but %s" % (optn, disp, got, what),
                             case=D, detail={"echo": act["echo"], "references": refs})
                    break
    # projection files: written <=> both options given and the method returns a projection
    if "projection" in c.tags and act["rc"] == 0 and lr and lr.startswith("ok|"):
        has_proj = not lr.endswith("|-")
        both = bool(c.opt("output-projection-matrix-file") and c.opt("output-projection-mean-file"))
        ctx.stat("oracle:projection-files")
        for fname, optn in (("pm.txt", "output-projection-matrix-file"), ("mean.txt", "output-projection-mean-file")):
            if not c.opt(optn):
                if fname in act["files"]:
                    ctx.fail("projection:stray-file", "%s exists although --%s was not given" % (fname, optn), case=D)
                continue
            content = act["files"].get(fname)
            if (content not in (None, "")) != (both and has_proj):
                ctx.fail("projection:files:%s" % ident, "%s is %s although both options given = %s and the method %s a projection"
                         % (fname, "non-empty" if content else "empty/absent", both, "returns" if has_proj else "does not return"),
                         case=D, detail={"file": small(content or "")})
                return
    if "logging" in c.tags:
        lvl = c.label.split(":")[1]
        want_level = {"verbose": "info", "benchmark": "benchmark", "debug": "debug"}[lvl]
        ctx.stat("oracle:logging")
        if want_level not in act["levels"] and lvl != "benchmark":
            ctx.fail("logging:" + lvl, "--%s does not switch [%s] messages on" % (lvl, want_level), case=D)
    # D. model + library vs CLI
    if exp is None:
        return
    if act["rc"] != 0 or exp["exit"] != 0:
        if exp["exit"] != act["rc"]:
            ctx.broken("corr:exit-code", "correspondence c20 (exit code)", "exit code differs: model %d, CLI %d" % (exp["exit"], act["rc"]),
                       case=D)
        else:
            ctx.stat("exit-agree-nonzero")
        return
    ctx.stat("exit-agree-zero")
    if act["echo"] and exp["echo"]:
        if act["echo"] != exp["echo"]:
            diff = {k: (exp["echo"].get(k), act["echo"].get(k)) for k in set(exp["echo"]) | set(act["echo"])
                    if exp["echo"].get(k) != act["echo"].get(k)}
            ctx.broken("corr:echo", "correspondence c20 (Options -> parameters of the model vs --debug echo)",
                       "parameter echo differs (model, CLI): %s" % small(diff, 240), case=D, detail=diff)
            return
        ctx.stat("echo-identical")
    names = {"out.txt": "output-file", "pm.txt": "output-projection-matrix-file", "mean.txt": "output-projection-mean-file"}
    for fname, content in exp["files"].items():
        if fname == "/dev/null":
            continue
        if fname == "/dev/stdout":
            got = act["stdout"]
        else:
            got = act["files"].get(fname)
        if got is None:
            ctx.broken("corr:file-missing", "correspondence c20 (files written)", "model writes %s, the CLI does not" % fname, case=D)
            return
        v, why = compare_tables(content, got, "\0" if fname == "mean.txt" else dl, randomised)
        ctx.stat("files-" + v)
        if v in ("shape", "content"):
            what = "%s differs from what the library returns for the same parameters and matrix (formatted by the model's writer): %s" % (
                fname, why)
            wellformed = c.intended is not None and not (c.file and not c.file.endswith("\n"))
            if wellformed and (not act["echo"] or act["echo"] == exp["echo"]):
                ctx.fail("output:%s:%s" % (names.get(fname, fname), ident), what, case=D,
                         detail={"expected": small(content, 600), "got": small(got, 600), "harness": small(lr or "", 300)})
            else:
                ctx.broken("corr:files", "correspondence c20 (file contents of model+library vs CLI)", what, case=D,
                           detail={"expected": small(content, 600), "got": small(got, 600)})
            return
    if len(ctx.cov["samples"]) < 6 and reached and c.idx % 37 == 0:
        ctx.sample({"argv": D["argv"], "exit": act["rc"], "out.txt": small(act["files"].get("out.txt", ""), 120),
                    "model_params": small(exp["kw"], 200)})


# ----------------------------------------------------------------------------------------------- number oracle pair
def number_contract(ctx, env):
    """model printG6 / toStringF / parseNum / parseIntCxx against libstdc++ in the harness (exact comparison)"""
    r = ctx.rng
    vals = []
    for _ in range(400 if ctx.tier == "quick" else 4000):
        m = r.range(-(1 << 53) + 1, (1 << 53) - 1)
        e = r.range(-90, 40)
        vals.append("%d:%d" % (m, e))
    for q in ("0", "1", "-1", "100000", "999999", "1000000", "999999:0", "1234565", "1:-1", "5:-1", "1:-20", "3:-3"):
        vals.append(q)
    line = "nums=" + ",".join(vals)
    out_i = ctx.run_impl_cases(env.lib, ["fmt " + line, "tostr " + line])
    rc, out_m, err = ctx.run_model("model_c20", ["g6 " + line, "tostr " + line])
    bad = 0
    if len(out_i) == 2 and len(out_m) == 2:
        for name, a, b in (("printG6 vs ostream<<double", out_m[0], out_i[0]), ("toStringF vs std::to_string", out_m[1], out_i[1])):
            A, B = a.split(" "), b.split(" ")
            ctx.count("numbers:" + name, True, n=len(A))
            ctx.stat("number-oracle-exact", len(A))
            for v, x, y in zip(vals, A, B):
                if x != y:
                    bad += 1
                    if bad <= 3:
                        ctx.broken("corr:numbers:" + name.split(" ")[0], "correspondence c20 (%s)" % name,
                                   "the model prints %r, libstdc++ prints %r for %s" % (unhx(x), unhx(y), v), case=v)
    else:
        ctx.broken("corr:numbers", "correspondence c20 (number oracle)", "number oracle run failed: %s %s" % (out_i[:1], err[-200:]))
    toks = ["1.5", "1.5abc", " 7", "\t-2.5e3", "1e", "1e+", ".", "-.5", "5.", "1E3", "0x1A", "abc", "", "1e5e3", "+2", "1.2.3", ".e5", "--1",
            "-", "+", "e5", "1e-3x", "00012", "1..2", "nan", "inf", "-inf", "1,5", "3\r", " ", "1 2", "-0", "0.000001", "12345678"]
    for _ in range(200 if ctx.tier == "quick" else 2000):
        n = r.range(1, 8)
        toks.append("".join(r.choice("0123456789+-.eE x") for _ in range(n)))
    line = "scan toks=" + ",".join(hx(t) for t in toks)
    out_i = ctx.run_impl_cases(env.lib, [line])
    rc, out_m, err = ctx.run_model("model_c20", [line])
    if len(out_i) == 1 and len(out_m) == 1 and len(out_i[0].split(" ")) == len(toks):
        for t, a, b in zip(toks, out_m[0].split(" "), out_i[0].split(" ")):
            ctx.count("scan:" + t, True)
            ctx.stat("number-oracle-exact")
            if (a == "none") != (b == "none"):
                ctx.broken("corr:numbers:parseNum", "correspondence c20 (parseNum vs istringstream >> double)",
                           "token %r: model %s, libstdc++ %s" % (t, a, b), case=t)
            elif a != "none":
                # the implementation's double must be the double nearest to the model's exact decimal
                mm = re.fullmatch(r"(-?\d+)(?::(-?\d+))?", b)
                try:
                    want = Fraction(float(Fraction(a)))
                except OverflowError:
                    want = None
                got = Fraction(int(mm.group(1))) * (Fraction(2) ** int(mm.group(2) or 0)) if mm else None
                if got is None or got != want:
                    ctx.broken("corr:numbers:parseNum", "correspondence c20 (parseNum vs istringstream >> double)",
                               "token %r: model %s, libstdc++ %s" % (t, a, b), case=t)
    else:
        ctx.broken("corr:numbers", "correspondence c20 (number oracle)", "scan run failed: %s %s" % (out_i[:1], err[-200:]))


# ----------------------------------------------------------------------------------------------- entry points
PIN_HEADER = os.path.join(vlib.ROOT, "harness", "c20_pin_seed.hpp")


def build(ctx, env):
    """the CLI (with the seed of run()'s srand(time(NULL)) pinned to the harness' seed by a force-included header, see
    harness/c20_pin_seed.hpp) and the library harness, in parallel; if the pinned build does not compile the unpinned CLI is
    built and randomised methods fall back to shape-only comparison"""
    import hashlib
    full = ctx.tier != "quick"
    pin = ["-include", PIN_HEADER, "-DC20_PIN_HEADER=%s" % hashlib.sha256(open(PIN_HEADER, "rb").read()).hexdigest()[:12]]
    env.cli_flags = _flags(full) + pin
    env.lib_flags = _flags(full, sanitize=full)
    main_cpp = os.path.join(vlib.REPO, "src", "cli", "main.cpp")
    with concurrent.futures.ThreadPoolExecutor(max_workers=2) as ex:
        f1 = ex.submit(ctx.build_harness, main_cpp, "c20_cli", (), env.cli_flags)
        f2 = ex.submit(ctx.build_harness, "c20_lib.cpp", None, (), env.lib_flags)
        env.cli, log1 = f1.result()
        env.lib, log2 = f2.result()
    env.pinned = bool(env.cli)
    if not env.cli:
        env.cli_flags = _flags(full)
        env.cli, log1b = ctx.build_harness(main_cpp, "c20_cli", (), env.cli_flags)
        if env.cli:
            ctx.log("CLI does not compile with the pinned seed (%s); built unpinned: randomised methods shape-only" % log1[-200:])
            ctx.stat("seed-pin-unavailable")
        else:
            log1 = log1b
    if not env.cli:
        ctx.broken("cli-build", "build of src/cli/main.cpp", "the CLI does not compile from the working tree: " + log1[-800:])
    if not env.lib:
        ctx.broken("harness-build", "harness c20_lib.cpp", "harness does not compile against /repo: " + log2[-800:])
    return bool(env.cli)


def make_env(ctx):
    env = Env()
    env.T = getattr(ctx, "_c20_tables", None)
    env.spec = read_spec()
    env.maps = env.T["maps"] if env.T else {}
    env.optrow = {o["canonical"]: o for o in env.T["options"]} if env.T else {}
    env.kwdisplay = {k[0]: k[2] for k in env.T["keywords"]} if env.T else {}
    env.constdisplay = {c[0]: c[2] for c in env.T["consts"]} if env.T else {}
    env.timeout = 60 if ctx.tier == "quick" else 120
    env.cli = env.lib = None
    return env


def correspond(ctx, use_model=True):
    try:
        env = make_env(ctx)
    except ValueError as ex:
        ctx.broken("spec-read", "checks/c20.py read_spec (rows of the spec tables of Props/C20.lean)", str(ex))
        return
    if env.T is None:
        ctx.log("no tables (translator failed): nothing to enumerate cases from")
        return
    if not build(ctx, env):
        return
    env.tmp = tempfile.mkdtemp(prefix="c20-", dir=vlib.BUILD_DIR)
    try:
        quick = ctx.tier == "quick"
        env.help_defaults = help_defaults(env)
        nvalue = len([o for o in env.T["options"] if o["hasValue"]])
        if len(env.help_defaults) < nvalue:
            ctx.broken("corr:help-defaults", "correspondence c20 (`(default: …)` entries of the usage text)",
                       "only %d of the %d options that take a value have a `(default: …)` entry that could be read from `--help`: "
                       "the --help reference of the defaults oracle would be skipped" % (len(env.help_defaults), nvalue),
                       detail={"read": env.help_defaults})
        if getattr(ctx, "replay", None) and isinstance(ctx.replay.get("case"), dict) and "argv" in ctx.replay["case"]:
            cases = [case_from_replay(env, ctx.replay["case"])]
        else:
            cases = corpus_cases(env) + gen_cases(env, ctx.rng, quick)
            for i, c in enumerate(cases):
                c.idx = i
        ctx.log("%d cases (%s)" % (len(cases), ctx.tier))
        judge(ctx, env, cases, use_model)
        if env.lib and use_model and not getattr(ctx, "replay", None):
            number_contract(ctx, env)
    finally:
        shutil.rmtree(env.tmp, ignore_errors=True)
    ctx.cov["rule"] = ("one case = one command line + one input file; generated from the spec/generated tables: every method name and "
                       "alias, every neighbours/eigen/strategy name, every value option at 2 non-default values in 3 spellings "
                       "(--long v, --long=v, --alias v), every flag given 0/1/2 times, --precompute on/off per method, projection "
                       "file options (both/one) per method class, guard values at and around each bound, unparsable option "
                       "values, unknown options, and passthru files over 6 delimiters x both transposition flags x "
                       "{plain, blank lines, CRLF, trailing delimiter, no final newline} plus 14 malformed files; "
                       "non-trivial = reaches embed() or exercises a guard / malformed input; distinct by case text")
    ctx.assumptions += [
        "methods that draw from std::rand() (measured per library call by the harness: RandomProjection, SPE, t-SNE, ManifoldSculpting, "
        "FactorAnalysis, eigen-method randomized) are compared on CONTENT because the CLI under test is built with "
        "harness/c20_pin_seed.hpp force-included, which turns run()'s srand(time(NULL)) into srand(20240607u), the seed the "
        "harness sets before its embed call; only if that build fails are they compared on exit status and shape",
        "number contract: the model keeps exact decimals; printed numbers are compared as exact decimals, identical text counted "
        "separately (files-identical) from agreement within one unit of the sixth significant digit (files-approx)",
        "OMP_NUM_THREADS=1 for the CLI and the harness (thread-count independence is C15's subject)",
        "input, output and projection files are distinct paths; option values contain no NUL byte",
        "ManifoldSculpting is always run with --max-iters 3 and t-SNE with --sne-perplexity 2 (22 samples); with the CLI default "
        "--max-iters 1000 ManifoldSculpting did not finish within 20 minutes on 20 points under ASan (not a C20 matter)",
    ]
    ctx.extra["c20"] = {"cli_flags": env.cli_flags, "harness_flags": env.lib_flags, "defines": env.T["defines"]}


def help_defaults(env):
    """option -> the text after `(default: ` in the usage the binary prints"""
    try:
        r = subprocess.run([env.cli, "--help"], stdout=subprocess.PIPE, stderr=subprocess.PIPE, timeout=60,
                           env=dict(os.environ, ASAN_OPTIONS="detect_leaks=0"))
    except subprocess.TimeoutExpired:
        return {}
    out = {}
    blocks = re.split(r"\n(?=\s+(?:-\w, )?--[\w-]+)", r.stdout.decode("latin-1"))
    byname = {}
    for o in env.T["options"]:
        for n in o["names"]:
            byname[n] = o["canonical"]
    for b in blocks:
        m = re.match(r"\s+(?:-\w, )?--([\w-]+)", b)
        if not m or m.group(1) not in byname:
            continue
        d = re.search(r"\(default:\s*(.*?)\)\s*$", re.sub(r"\s*\n\s*", " ", b).strip())
        if d:
            out[byname[m.group(1)]] = d.group(1)
    return out


def corpus_cases(env):
    """minimised past failures (corpus/C20/*.case, one JSON case per line), run first"""
    out = []
    cdir = os.path.join(vlib.ROOT, "corpus", "C20")
    if os.path.isdir(cdir):
        for f in sorted(os.listdir(cdir)):
            if not f.endswith(".case"):
                continue
            for line in open(os.path.join(cdir, f)):
                line = line.strip()
                if line.startswith("{"):
                    c = case_from_replay(env, json.loads(line))
                    c.tags.add("corpus")
                    out.append(c)
    return out


def impl_only(ctx):
    correspond(ctx, use_model=False)


def case_from_replay(env, body):
    """rebuild a case from the argv / input file recorded in a replay file"""
    argv = body["argv"][1:]
    opts = []
    byname = {}
    for o in env.T["options"]:
        for n in o["names"]:
            byname[n] = o
    i = 0
    while i < len(argv):
        a = argv[i]
        name, val = a.lstrip("-"), None
        if "=" in name and a.startswith("--"):
            name, val = name.split("=", 1)
        row = byname.get(name)
        canon = row["canonical"] if row else name
        if row and row["hasValue"] and val is None:
            i += 1
            val = argv[i] if i < len(argv) else ""
        opts.append((canon, val, "long"))
        i += 1
    orc = body.get("oracle") or {}
    if orc.get("opts"):
        opts = [tuple(o) for o in orc["opts"]]
    c = Case(body.get("label", "replay"), opts, body.get("input_file"), io=body.get("io", "files"),
             intended=None if orc.get("intended") is None else [[Fraction(q) for q in row] for row in orc["intended"]],
             tags=orc.get("tags", ()), varied=tuple(orc["varied"]) if orc.get("varied") else None)
    c.idx = 0
    return c
