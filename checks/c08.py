"""C08 — KLLE, KLTSA and HLLE minimise their alignment cost over centred orthonormal Y.
Model: lean/TapkeeVerif/Model/LocallyLinear.lean (+ Triplets, Gen/HlleIndex regenerated from the source);
theorems: Props/C08.lean; harness: harness/c08_ll.cpp (real routines + public API with the eigen-observer hook)."""
import os
import sys

import vlib
from checks import _ll

PROPERTY = "C08"
LEAN_MODULES = ["TapkeeVerif.Props.C08"]
LEAN_EXES = ["model_c08"]
REQUIRED_THEOREMS = [
    "TapkeeVerif.C08.lle_M_eq",
    "TapkeeVerif.C08.lle_rows_sum_one",
    "TapkeeVerif.C08.lle_const_eigvec",
    "TapkeeVerif.C08.ltsa_M_eq",
    "TapkeeVerif.C08.ltsa_const_null",
    "TapkeeVerif.C08.hlle_cols_bijective",
    "TapkeeVerif.C08.hlle_index_ok",
    "TapkeeVerif.C08.hlleM_ok",
    "TapkeeVerif.C08.hlle_prefix_update_refuted",       # regression witness of F-HLLE-CT (pre-fix recurrence)
    "TapkeeVerif.C08.hlle_cols_bijective_of_update",
    "TapkeeVerif.C08.smallest_skip_one_optimal",
    "TapkeeVerif.C08.skipped_eigenvector_is_constant",
    "TapkeeVerif.C08.hlle_M_eq",
    "TapkeeVerif.C08.hlle_const_null",
    "TapkeeVerif.C08.hlle_affine_on_flat_partial",
    "TapkeeVerif.C08.gramSchmidt_orthogonal",
    "TapkeeVerif.C08.ltsa_affine_on_flat_partial",
]


def translate(ctx):
    """regenerate Gen/HlleIndex.lean (ct update, column index, loop bounds of hessian_weight_matrix)"""
    sys.path.insert(0, os.path.join(vlib.ROOT, "tools"))
    import translate_hlle
    out = os.path.join(vlib.LEAN_DIR, "TapkeeVerif", "Gen", "HlleIndex.lean")
    changed = translate_hlle.main(vlib.REPO, out)
    ctx.extra["gen_hlle_index"] = "rewritten" if changed else "unchanged"


# ----------------------------------------------------------------------------- case construction
KINDS = ["cloud", "roll", "lattice", "curve", "flat2", "grid"]
KERNELS = ["linear", "poly2", "cauchy"]


def min_k(method, d):
    if method == "hlle":
        return 1 + d + d * (d + 1) // 2
    if method in ("ltsa", "kltsa"):
        return d + 2        # with k = d+1 the local projector is the identity and the alignment matrix vanishes
    return 1


def make_spec(r, op, method, quick, force=None):
    force = force or {}
    kind = force.get("kind") or (r.choice(KINDS) if not (op == "embed" and r.chance(1, 6)) else "twoclusters")
    D = force.get("D") or (r.choice([2, 3, 3, 4, 6]) if kind not in ("roll", "curve") else r.choice([3, 3, 4]))
    d = force.get("d") or r.choice([1, 2, 2, 3, 4] if method != "hlle" else [1, 2, 2, 3, 3, 4])
    if kind == "grid":
        D = max(D, 2)
    Nmax = 40 if quick else 64
    lo = max(min_k(method, d) + 2, 6)
    N = force.get("N") or r.range(lo, max(lo, r.choice([12, 20, Nmax])))
    kern = force.get("kern") or r.choice(KERNELS)
    scale = r.choice([1, 1, 1, vlib_frac(1, 64), 32])
    pts = _ll.gen_points(r, kind, N, D, scale)
    intr = [list(c) for c in _ll.INTRINSIC] if kind.startswith("flat") else None
    kmin = max(min_k(method, d), 3 if op == "embed" else 1)
    c = r.choice([0, 1, 2])
    if c == 0 or kind == "twoclusters":
        k = kmin            # (two clusters: small requested k, raised by check_connectivity)
    elif c == 1:
        k = N - 1
    else:
        k = r.range(kmin, N - 1)
    k = force.get("k") or min(max(k, kmin), N - 1)
    spec = {
        "op": op, "method": method, "kind": kind, "D": D, "d": d, "pts": pts, "kern": kern, "k": k,
        "kc": r.choice([1, 4, 16]),
        "shift": r.choice(["0", "1:-30", "1:-10"]),
        "tshift": r.choice(["1:-10", "1:-10", "1:-7", "1:-13"]),
        "nm": r.choice(["brute", "vptree", "covertree"]),
        "cc": r.choice(["0", "0", "1"]),
        "seed": str(r.below(1 << 30)),
        "lists": "knn" if r.chance(3, 4) else "random",
        "lseed": r.below(1 << 60),
        # half of the cases hand the library a NON-identity range (shuffled subset of the samples the callback knows)
        "dseed": r.below(1 << 60) if r.chance(1, 2) else None,
    }
    if kind == "twoclusters":
        spec["cc"] = "1"
    # flat-manifold clause: intrinsic coordinates handed to the driver when the data is exactly flat of dimension d
    if intr is not None and op == "embed" and method in ("kltsa", "hlle") and kern == "linear" and int(kind[-1]) == d:
        spec["intr"] = intr
    return spec


def vlib_frac(a, b):
    from fractions import Fraction
    return Fraction(a, b)


def build_line(spec):
    pts = spec["pts"]
    N = len(pts)
    K = _ll.kernel_matrix(pts, spec["kern"], spec["kc"])
    sel = None
    Kall = K
    if spec.get("dseed") is not None:
        D = len(pts[0])
        allp, sel = _ll.with_decoys(pts, spec["dseed"], lambda rr: [_ll.Fraction(rr.range(-1024, 1024), 128) for _ in range(D)])
        Kall = _ll.kernel_matrix(allp, spec["kern"], spec["kc"])
    k = min(spec["k"], N - 1)
    head = "op=%s N=%d k=%d d=%d shift=%s tshift=%s" % (spec["op"], N, k, spec["d"], spec["shift"], spec["tshift"])
    if spec["op"] == "embed":
        head += " method=%s nm=%s cc=%s seed=%s" % (spec["method"], spec["nm"], spec["cc"], spec["seed"])
        if spec.get("intr") and len(spec["intr"]) == N:
            head += " flat=" + _ll.fmt_matrix(spec["intr"])
    else:
        if spec["lists"] == "knn":
            nb = _ll.knn_from_sq(_ll.kernel_sq(K), k)
        else:
            nb = _ll.random_lists(vlib.SplitMix64(spec["lseed"]), N, k)
        head += " nb=" + _ll.fmt_lists(nb)
    if sel is not None:
        head += " sel=" + ",".join(str(i) for i in sel)
    return head + " kern=" + _ll.fmt_matrix(Kall)


def label(spec):
    return "%s/%s" % (spec["op"], spec["method"])


# ----------------------------------------------------------------------------- judging
classify = _ll.classify


def what_text(spec, cls, text):
    m = {"klle": "KLLE", "kltsa": "KLTSA", "hlle": "HLLE", "lle": "linear_weight_matrix", "ltsa": "tangent_weight_matrix"}
    name = m.get(spec["method"], spec["method"])
    where = "public API %s" % name if spec["op"] == "embed" else "routine %s" % (
        {"lle": "linear_weight_matrix", "ltsa": "tangent_weight_matrix", "hlle": "hessian_weight_matrix"}[spec["op"]])
    return "%s, N=%d k=%d d=%d kernel=%s data=%s: %s" % (where, len(spec["pts"]), min(spec["k"], len(spec["pts"]) - 1),
                                                         spec["d"], spec["kern"], spec["kind"], text)


def shrink(ctx, binary, spec, cls, sig, budget=24):
    """drop points while the same verdict class/signature persists"""
    tests = [0]

    def failing(sub):
        if tests[0] >= budget or len(sub) < max(5, min_k(spec["method"], spec["d"]) + 2):
            return False
        tests[0] += 1
        s2 = dict(spec)
        s2["pts"] = sub
        res, err = _ll.run_pairs(ctx, binary, "model_c08", [build_line(s2)])
        if not res:
            return False
        c2, sig2, _ = classify(*res[0])
        return c2 == cls and sig2 == sig
    small = vlib.ddmin(spec["pts"], failing, max_tests=budget)
    s2 = dict(spec)
    s2["pts"] = small
    return s2


def judge(ctx, binary, specs):
    lines = [build_line(s) for s in specs]
    res, err = _ll.run_pairs(ctx, binary, "model_c08", lines)
    if res is None:
        ctx.broken("model-driver", "model_c08", "model driver failed: " + err)
        return
    reported = set()
    for spec, line, (io, v) in zip(specs, lines, res):
        cls, sig, text = classify(io, v)
        N = len(spec["pts"])
        nontrivial = N >= 6
        ctx.count(line, nontrivial and cls in ("ok", "fail", "broken"))
        ctx.stat("case:" + label(spec))
        ctx.stat("verdict:" + cls + ((":" + sig) if cls == "skip" else ""))
        ctx.stat("kernel:" + spec["kern"])
        ctx.stat("data:" + spec["kind"])
        ctx.stat("range:" + ("shuffled-subset-among-decoys" if spec.get("dseed") is not None else "identity"))
        if spec["op"] == "embed" and "nb" in _ll.fields_of(io) and spec.get("cc") == "1":
            used = len(_ll.fields_of(io)["nb"].split(";")[0].split(","))
            if used > min(spec["k"], N - 1):
                ctx.stat("check_connectivity-raised-k")
        if spec.get("intr") and "flat" in v:
            ctx.stat("flat-manifold-clause:" + ("verified-affine" if v["flat"][:1] in ("2", "0") else v["flat"]))
        ctx.stat("d=%d" % spec["d"])
        ctx.stat("k:" + ("min" if spec["k"] <= max(3, min_k(spec["method"], spec["d"])) else "N-1" if spec["k"] >= N - 1 else "mid"))
        if spec["op"] == "embed":
            ctx.stat("neighbours:" + spec["nm"])
        _ll.tally(ctx, v)
        if cls in ("ok", "fail", "broken"):
            ctx.cov["traces_validated_against_impl"] += 1
        if cls == "ok":
            if len(ctx.cov["samples"]) < 6 and (len(ctx.cov["samples"]) < 3 or spec["op"] == "embed"):
                ctx.sample({"case": _ll.short(line, 300), "verdict": v["_line"]})
            continue
        if cls == "skip":
            continue
        if os.environ.get("VERIF_DEBUG"):
            ctx.log("non-ok:", what_text(spec, cls, text)[:400])
        key = (cls, sig, label(spec))
        if key in reported:
            continue
        reported.add(key)
        small = shrink(ctx, binary, spec, cls, sig) if cls == "fail" else spec
        sline = build_line(small)
        sres, _ = _ll.run_pairs(ctx, binary, "model_c08", [sline])
        sio, sv = sres[0] if sres else (io, v)
        detail = {"impl": _ll.short(sio, 2000), "model": sv.get("_line", ""), "stderr": getattr(ctx, "last_abort_stderr", "")[-1500:] if sio.startswith("abort:") else ""}
        if cls == "fail":
            ctx.fail(sig, what_text(small, cls, classify(sio, sv)[2] or text), case=sline, detail=detail)
        else:
            ctx.broken("corr:%s:%s" % (label(spec), sig), "correspondence c08_ll %s (%s)" % (label(spec), sig),
                       what_text(spec, cls, text), case=line, detail=detail)


def _replay_line(ctx, binary, line):
    res, err = _ll.run_pairs(ctx, binary, "model_c08", [line])
    if res is None:
        ctx.broken("model-driver", "model_c08", "model driver failed: " + err)
        return
    io, v = res[0]
    f = _ll.fields_of(line)
    spec = {"op": f.get("op"), "method": f.get("method", f.get("op")), "pts": [None] * int(f.get("N", "0")), "k": int(f.get("k", "0")),
            "d": int(f.get("d", "0")), "kern": "?", "kind": "replay"}
    cls, sig, text = classify(io, v)
    print("replay: impl  :", _ll.short(io, 600))
    print("replay: model :", v["_line"])
    ctx.count(line, True)
    ctx.cov["traces_validated_against_impl"] += 1
    if cls == "fail":
        ctx.fail(sig, what_text(spec, cls, text), case=line, detail={"impl": _ll.short(io, 2000), "model": v["_line"]})
    elif cls == "broken":
        ctx.broken("corr:%s:%s" % (label(spec), sig), "correspondence c08_ll", what_text(spec, cls, text), case=line,
                   detail={"impl": _ll.short(io, 2000), "model": v["_line"]})


def hlle_index_leg(ctx):
    """the generated recurrence evaluated by the model for every d <= 8 (recorded in the evidence; must be the
    consecutive range [1+d, 1+d+d(d+1)/2) — the statement of the theorem hlle_cols_bijective, re-checked by running)"""
    lines = ["op=hlleidx N=1 d=%d" % d for d in range(0, 9)]
    rc, out, err = ctx.run_model("model_c08", lines)
    ctx.extra["hlle_written_columns"] = dict(zip(["d=%d" % d for d in range(0, 9)], out))
    for d, o in zip(range(0, 9), out):
        want = "res=ok cols=" + ",".join(str(c) for c in range(1 + d, 1 + d + d * (d + 1) // 2)) + " err=none"
        ctx.count("hlleidx d=%d" % d, True)
        if o != want:
            ctx.broken("hlle-index:d=%d" % d, "generated HLLE index recurrence (Gen/HlleIndex.lean) evaluated at d=%d" % d,
                       "written product columns for target_dimension=%d are %s, expected %s" % (d, o, want), case=lines[d])


def replay_case(ctx, replay):
    """check.py replay <file>: re-run exactly the recorded case on the implementation and the model"""
    ctx.replay = replay
    correspond(ctx)


def correspond(ctx):
    binary, routines_ok, log = _ll.build_with_fallback(ctx, "c08_ll.cpp")
    t_built = ctx_elapsed(ctx)
    if not binary:
        ctx.broken("harness-build", "harness c08_ll.cpp", "harness does not compile against the repository: " + log[-1500:])
        return
    if getattr(ctx, "replay", None) and ctx.replay.get("case"):
        _replay_line(ctx, binary, ctx.replay["case"])
        return
    r = ctx.rng
    quick = ctx.tier == "quick"
    hlle_index_leg(ctx)
    # corpus first
    cdir = os.path.join(vlib.ROOT, "corpus", "C08")
    if os.path.isdir(cdir):
        for f in sorted(os.listdir(cdir)):
            for l in open(os.path.join(cdir, f)):
                l = l.strip()
                if l.startswith("op="):
                    _replay_line(ctx, binary, l)
    plan = []
    reps = 3 if quick else 24
    for _ in range(reps):
        plan += [("lle", "lle")] * 16 + [("ltsa", "ltsa")] * 16 + [("hlle", "hlle")] * 12
        plan += [("embed", "klle")] * 14 + [("embed", "kltsa")] * 14 + [("embed", "hlle")] * 12
    specs = [make_spec(r.fork(), op, m, quick) for op, m in plan]
    # directed cases: the target_dimension = N-1 corner, d up to 4 for every method, all three neighbour methods
    rr = r.fork()
    for m in ("klle", "kltsa"):
        if m == "klle":     # (KLTSA needs d <= k-2: the d = N-1 corner is outside its domain)
            s = make_spec(rr.fork(), "embed", m, quick, force={"N": 8, "D": 7, "kind": "cloud", "kern": "linear", "k": 7})
            s["d"] = 7
            specs.append(s)
        for nm in ("brute", "vptree", "covertree"):
            s = make_spec(rr.fork(), "embed", m, quick, force={"d": 4, "kind": "cloud", "D": 6})
            s["nm"] = nm
            specs.append(s)
    for _ in range(4 if quick else 40):
        for m, dd in (("kltsa", 1), ("kltsa", 2), ("hlle", 1), ("hlle", 2)):
            specs.append(make_spec(rr.fork(), "embed", m, quick, force={"kind": "flat%d" % dd, "d": dd, "kern": "linear", "D": rr.choice([dd + 1, dd + 2, 5])}))
    if not routines_ok:
        ctx.stat("routine-level-cases-dropped", len([s for s in specs if s["op"] != "embed"]))
        specs = [s for s in specs if s["op"] == "embed"]
    batch = 40
    for i in range(0, len(specs), batch):
        judge(ctx, binary, specs[i:i + batch])
        if quick and (ctx_elapsed(ctx) - t_built > 60):
            ctx.extra["truncated_after_cases"] = i + batch
            break
    ctx.cov["rule"] = ("routine level: linear_/tangent_/hessian_weight_matrix on generated kernels (linear, (1+x.y)^2, Cauchy) over "
                       "6 data families (cloud, swiss roll, integer lattice, helix, flat 2-plane, rotated grid), N<=%d, k from the "
                       "method's minimum to N-1 (true k-NN lists and arbitrary lists), d 1..4, sparse result compared entrywise with "
                       "the model (2^-30 relative) + stored-entry count; public API: KLLE/KLTSA/HLLE with brute/VP-tree/cover-tree, "
                       "solver input vs model, returned Y certified (orthonormal, centred, residual, inertia brackets); "
                       "non-trivial = N>=6 and a verdict was reached; distinct by case text" % (40 if quick else 64))
    ctx.assumptions += [
        "external kernels enter as oracle values with per-run contract checks: LDLT solve (residual), local eigensolver (residual, orthonormality, top-d by exact inertia), sqrt(k)",
        "approx-mode stages are evaluated by the same polymorphic model at K := Fix (2^-192 fixed point) and compared within 2^-30 relative to the largest entry; the inertia counts run in exact integer arithmetic on the matrix rounded to 64 significant bits",
        "soundness of the inertia count (Jacobi/Sylvester) is the shared spectral lemma, not re-proved here",
        "cases whose local spectra are degenerate at the d-boundary (gap < 2^-12) are skipped and counted as skipped",
    ]


def ctx_elapsed(ctx):
    import time
    return time.time() - ctx.t0
