"""C08 — KLLE, KLTSA and HLLE minimise their alignment cost over centred orthonormal Y.
Model: lean/TapkeeVerif/Model/LocallyLinear.lean (+ Triplets, Gen/HlleIndex regenerated from the source);
theorems: Props/C08.lean; harness: harness/c08_ll.cpp (real routines + public API with the eigen-observer hook)."""
import os
import sys

import vlib
from checks import _ll

PROPERTY = "C08"
LEAN_MODULES = ["TapkeeVerif.Props.C08", "TapkeeVerif.Props.C08Compose"]
LEAN_EXES = ["model_c08"]
REQUIRED_THEOREMS = [     # every theorem of the Props module (all MANIFEST-named ones included): deleting one fails the audit
    "TapkeeVerif.C08.lle_M_eq",
    "TapkeeVerif.C08.lleMD_get",
    "TapkeeVerif.C08.lle_rows_sum_one",
    "TapkeeVerif.C08.lle_const_eigvec",
    "TapkeeVerif.C08.lle_system_symm",
    "TapkeeVerif.C08.lle_system_eq",
    "TapkeeVerif.C08.ltsa_M_eq",
    "TapkeeVerif.C08.ltsaMD_get",
    "TapkeeVerif.C08.ltsa_proj_eq",
    "TapkeeVerif.C08.ltsa_const_null",
    "TapkeeVerif.C08.centerMatrix_eq",
    "TapkeeVerif.C08.centerMatrix_rows_sum_zero",
    "TapkeeVerif.C08.ltsa_affine_on_flat_partial",
    "TapkeeVerif.C08.hlle_prefix_update_refuted",
    "TapkeeVerif.C08.hlle_writes_eq_with",
    "TapkeeVerif.C08.hlle_cols_bijective_of_update",
    "TapkeeVerif.C08.hlle_cols_bijective_fixed",
    "TapkeeVerif.C08.hlle_cols_bijective",
    "TapkeeVerif.C08.hlleDp_eq",
    "TapkeeVerif.C08.hlleCols_eq",
    "TapkeeVerif.C08.hlle_index_ok",
    "TapkeeVerif.C08.hlle_writes_in_range",
    "TapkeeVerif.C08.hlle_all_product_cols_written",
    "TapkeeVerif.C08.hlle_allPairs_mem",
    "TapkeeVerif.C08.hlle_allPairs_nodup",
    "TapkeeVerif.C08.hlle_writes_eq_expected",
    "TapkeeVerif.C08.hlle_sources_cover_pairs",
    "TapkeeVerif.C08.hlle_rightCols_eq",
    "TapkeeVerif.C08.hlle_tangent_block_eq",
    "TapkeeVerif.C08.hlleYi0_products",
    "TapkeeVerif.C08.hlle_colOf_eq",
    "TapkeeVerif.C08.hlleM_ok",
    "TapkeeVerif.C08.hlle_M_eq",
    "TapkeeVerif.C08.hlle_proj_eq",
    "TapkeeVerif.C08.hlleMD_get",
    "TapkeeVerif.C08.hlle_const_null",
    "TapkeeVerif.C08.hlle_affine_on_flat_partial",
    "TapkeeVerif.C08.gsOne_orthogonal",
    "TapkeeVerif.C08.gramSchmidt_orthogonal",
    "TapkeeVerif.C08.hlle_gs_contract",
    "TapkeeVerif.C08.smallest_skip_one_optimal",
    "TapkeeVerif.C08.exV_orth",
    "TapkeeVerif.C08.skipped_eigenvector_is_constant",
    "TapkeeVerif.C08.belowCount_sound",
    "TapkeeVerif.C08.belowCount_bounds_eigenvalues",
    "TapkeeVerif.C08.bottom_certified",
    "TapkeeVerif.C08.lle_psd",
    "TapkeeVerif.C08.ltsa_psd",
    "TapkeeVerif.C08.hlle_psd",
    "TapkeeVerif.C08.psd_eigenvalues_ge",
    "TapkeeVerif.C08.lle_eigenvalues_ge_shift",
    "TapkeeVerif.C08.skip_one_end_to_end",
    "TapkeeVerif.C08.klle_end_to_end",
    "TapkeeVerif.C08.kltsa_end_to_end",
    "TapkeeVerif.C08.hlle_end_to_end",
    "TapkeeVerif.C08.flat_local_span",
    "TapkeeVerif.C08.flat_local_orthonormal",
    "TapkeeVerif.C08.ltsa_affine_in_nullspace",
    "TapkeeVerif.C08.ltsa_nullspace_exact",
    "TapkeeVerif.C08.ltsa_columns_affine_on_flat",
    "TapkeeVerif.C08.flA_inj",
    "TapkeeVerif.C08.fl4_heig",
    "TapkeeVerif.C08.fl4_hgp",
    "TapkeeVerif.C08.fl4_hconn",
    "TapkeeVerif.C08.fl4_hsys",
    "TapkeeVerif.C08.hlle_affine_in_nullspace",
    "TapkeeVerif.C08.hlle_null_local_partial",
    "TapkeeVerif.C08.hlle_const_null_of_sweep",
    "TapkeeVerif.C08.hlle_nullspace_exact_min_k",
    "TapkeeVerif.C08.hlle_columns_affine_on_flat_min_k",
    "TapkeeVerif.C08.fromTriplets_perm",
    "TapkeeVerif.C08.fromTripletsD_get",
    # Props/C08Compose.lean: the stage models (C02 search, C03 k doubling, C08 weight matrix + spectral statement) composed
    "TapkeeVerif.LleCompose.klle_end_to_end",
    "TapkeeVerif.LleCompose.klle_end_to_end_brute",
    "TapkeeVerif.LleCompose.ex_self",
    "TapkeeVerif.LleCompose.exB1",
    "TapkeeVerif.LleCompose.exB2",
    "TapkeeVerif.LleCompose.ex_find",
    "TapkeeVerif.LleCompose.ex_fwd",
    "TapkeeVerif.LleCompose.kltsa_end_to_end",
    "TapkeeVerif.LleCompose.hlle_end_to_end",
]


def translate(ctx):
    """regenerate Gen/HlleIndex.lean (ct update, column index, loop bounds of hessian_weight_matrix)"""
    sys.path.insert(0, os.path.join(vlib.ROOT, "tools"))
    import translate_hlle
    out = os.path.join(vlib.LEAN_DIR, "TapkeeVerif", "Gen", "HlleIndex.lean")
    changed = translate_hlle.main(vlib.REPO, out)
    ctx.extra["gen_hlle_index"] = "rewritten" if changed else "unchanged"


# ----------------------------------------------------------------------------- case construction
KINDS = ["cloud", "roll", "lattice", "curve", "flat2", "grid"]
KERNELS = ["linear", "poly2", "cauchy"]


def min_k(method, d):
    if method == "hlle":
        return 1 + d + d * (d + 1) // 2
    if method in ("ltsa", "kltsa"):
        return d + 2        # with k = d+1 the local projector is the identity and the alignment matrix vanishes
    return 1


def make_spec(r, op, method, quick, force=None):
    force = force or {}
    kind = force.get("kind") or (r.choice(KINDS) if not (op == "embed" and r.chance(1, 6)) else "twoclusters")
    D = force.get("D") or (r.choice([2, 3, 3, 4, 6]) if kind not in ("roll", "curve") else r.choice([3, 3, 4]))
    d = force.get("d") or r.choice([1, 2, 2, 3, 4] if method != "hlle" else [1, 2, 2, 3, 3, 4])
    if kind == "grid":
        D = max(D, 2)
    if method != "lle" and method != "klle" and "d" not in force:
        d = min(d, D)       # tangent coordinates beyond the ambient dimension are a degenerate request (skipped anyway)
    Nmax = 40 if quick else 64
    lo = max(min_k(method, d) + 2, 6)
    N = force.get("N") or r.range(lo, max(lo, r.choice([12, 20, Nmax])))
    kern = force.get("kern") or r.choice(KERNELS)
    scale = force.get("unit") or _ll.pick_unit(r)
    pts = _ll.gen_points(r, kind, N, D, scale)
    intr = [list(c) for c in _ll.INTRINSIC] if kind.startswith("flat") else None
    kmin = max(min_k(method, d), 3 if op == "embed" else 1)
    c = r.choice([0, 1, 2])
    if c == 0 or kind == "twoclusters":
        k = kmin            # (two clusters: small requested k, raised by check_connectivity)
    elif c == 1:
        k = N - 1
    else:
        k = r.range(kmin, N - 1)
    k = force.get("k") or min(max(k, kmin), N - 1)
    spec = {
        "unit": scale,
        "op": op, "method": method, "kind": kind, "D": D, "d": d, "pts": pts, "kern": kern, "k": k,
        "kc": r.choice([1, 4, 16]),
        "shift": r.choice(["0", "1:-30", "1:-10"]),
        "tshift": r.choice(["1:-10", "1:-10", "1:-7", "1:-13"]),
        "nm": r.choice(["brute", "vptree", "covertree"]),
        "cc": r.choice(["0", "0", "1"]),
        "seed": str(r.below(1 << 30)),
        "lists": "knn" if r.chance(3, 4) else "random",
        "lseed": r.below(1 << 60),
        # half of the cases hand the library a NON-identity range (shuffled subset of the samples the callback knows)
        "dseed": r.below(1 << 60) if r.chance(1, 2) else None,
    }
    if kind == "twoclusters":
        spec["cc"] = "1"
    # flat-manifold clause: intrinsic coordinates handed to the driver when the data is exactly flat of dimension d
    if intr is not None and op == "embed" and method in ("kltsa", "hlle") and kern == "linear" and int(kind[-1]) == d:
        spec["intr"] = intr
    return spec


def vlib_frac(a, b):
    from fractions import Fraction
    return Fraction(a, b)


def build_line(spec):
    pts = spec["pts"]
    N = len(pts)
    unit = spec.get("unit", 1)
    K = _ll.kernel_matrix(pts, spec["kern"], spec["kc"], unit)
    sel = None
    Kall = K
    if spec.get("dseed") is not None:
        D = len(pts[0])
        allp, sel = _ll.with_decoys(pts, spec["dseed"], lambda rr: [_ll.Fraction(rr.range(-1024, 1024), 128) * unit for _ in range(D)])
        Kall = _ll.kernel_matrix(allp, spec["kern"], spec["kc"], unit)
    k = min(spec["k"], N - 1)
    head = "op=%s N=%d k=%d d=%d shift=%s tshift=%s" % (spec["op"], N, k, spec["d"], spec["shift"], spec["tshift"])
    if spec["op"] == "embed":
        head += " method=%s nm=%s cc=%s seed=%s" % (spec["method"], spec["nm"], spec["cc"], spec["seed"])
        if spec.get("intr") and len(spec["intr"]) == N:
            head += " flat=" + _ll.fmt_matrix(spec["intr"])
    else:
        if spec["lists"] == "knn":
            nb = _ll.knn_from_sq(_ll.kernel_sq(K), k)
        else:
            nb = _ll.random_lists(vlib.SplitMix64(spec["lseed"]), N, k)
        head += " nb=" + _ll.fmt_lists(nb)
    if sel is not None:
        head += " sel=" + ",".join(str(i) for i in sel)
    return head + " kern=" + _ll.fmt_matrix(Kall)


def label(spec):
    return "%s/%s" % (spec["op"], spec["method"])


# ----------------------------------------------------------------------------- judging
classify = _ll.classify


def what_text(spec, cls, text):
    m = {"klle": "KLLE", "kltsa": "KLTSA", "hlle": "HLLE", "lle": "linear_weight_matrix", "ltsa": "tangent_weight_matrix"}
    name = m.get(spec["method"], spec["method"])
    where = "public API %s" % name if spec["op"] == "embed" else "routine %s" % (
        {"lle": "linear_weight_matrix", "ltsa": "tangent_weight_matrix", "hlle": "hessian_weight_matrix"}[spec["op"]])
    return "%s, N=%d k=%d d=%d kernel=%s data=%s: %s" % (where, len(spec["pts"]), min(spec["k"], len(spec["pts"]) - 1),
                                                         spec["d"], spec["kern"], spec["kind"], text)


def hlle_index_leg(ctx):
    """the generated index arithmetic of hessian_weight_matrix (Gen/HlleIndex.lean, extracted from the SOURCE) evaluated
    by the model for every d <= 8 and compared with a hand-written expectation: the product columns are the consecutive
    range [1+d, 1+d+d(d+1)/2) and their source pairs are exactly (a, b), 1 <= a <= b <= d, in loop order; sizes, rightCols
    argument and the tangent block — the statements of hlle_cols_bijective / hlle_sources_cover_pairs, re-checked by running"""
    lines = ["op=hlleidx N=1 d=%d" % d for d in range(0, 9)]
    rc, out, err = ctx.run_model("model_c08", lines)
    ctx.extra["hlle_index_leg"] = dict(zip(["d=%d" % d for d in range(0, 9)], out))
    for d, o in zip(range(0, 9), out):
        dp = d * (d + 1) // 2
        triples = []
        col = 1 + d
        for j in range(d):
            for p in range(d - j):
                triples.append("%d:%d:%d" % (col, j + 1, j + p + 1))
                col += 1
        want = {"res": "ok", "cols": ",".join(str(c) for c in range(1 + d, 1 + d + dp)), "err": "none",
                "writes": ",".join(triples), "dp": str(dp), "ncols": str(1 + d + dp), "rightcols": str(dp),
                "tangent": "%d,%d" % (d, d)}
        got = _ll.fields_of(o)
        got.setdefault("cols", "")
        got.setdefault("writes", "")
        ctx.count("hlleidx d=%d" % d, True)
        bad = [k for k in want if got.get(k, "") != want[k]]
        if bad:
            ctx.broken("hlle-index:d=%d" % d, "generated HLLE index arithmetic (Gen/HlleIndex.lean) evaluated at d=%d" % d,
                       "target_dimension=%d: %s" % (d, "; ".join("%s is %s, expected %s" % (k, got.get(k), want[k]) for k in bad)),
                       case=lines[d])


def replay_case(ctx, replay):
    """check.py replay <file>: re-run exactly the recorded case on the implementation and the model"""
    ctx.replay = replay
    correspond(ctx)


def plan_fn(ctx, r, quick):
    plan = []
    reps = 3 if quick else 24
    for _ in range(reps):
        plan += [("lle", "lle")] * 16 + [("ltsa", "ltsa")] * 16 + [("hlle", "hlle")] * 12
        plan += [("embed", "klle")] * 14 + [("embed", "kltsa")] * 14 + [("embed", "hlle")] * 12
    specs = [make_spec(r.fork(), op, m, quick) for op, m in plan]
    # directed cases: the target_dimension = N-1 corner, d up to 4 for every method, all three neighbour methods
    rr = r.fork()
    for m in ("klle", "kltsa"):
        if m == "klle":     # (KLTSA needs d <= k-2: the d = N-1 corner is outside its domain)
            s = make_spec(rr.fork(), "embed", m, quick, force={"N": 8, "D": 7, "kind": "cloud", "kern": "linear", "k": 7})
            s["d"] = 7
            specs.append(s)
        for nm in ("brute", "vptree", "covertree"):
            s = make_spec(rr.fork(), "embed", m, quick, force={"d": 4, "kind": "cloud", "D": 6})
            s["nm"] = nm
            specs.append(s)
    for _ in range(4 if quick else 40):
        for m, dd in (("kltsa", 1), ("kltsa", 2), ("hlle", 1), ("hlle", 2)):
            specs.append(make_spec(rr.fork(), "embed", m, quick, force={"kind": "flat%d" % dd, "d": dd, "kern": "linear", "D": rr.choice([dd + 1, dd + 2, 5])}))
    return specs


def stat_fn(ctx, spec, line, io, v):
    N = len(spec["pts"])
    if spec.get("intr") and "flat" in v:
        ctx.stat("flat-manifold-clause:" + ("verified-affine" if v["flat"][:1] in ("2", "0") else v["flat"]))
    if spec["op"] == "embed" and spec.get("cc") == "1" and "nb" in _ll.fields_of(io):
        used = len(_ll.fields_of(io)["nb"].split(";")[0].split(","))
        if used > min(spec["k"], N - 1):
            ctx.stat("check_connectivity-raised-k")


def correspond(ctx):
    quick = ctx.tier == "quick"
    _ll.generic_correspond(ctx, "c08_ll.cpp", "model_c08", "C08", plan_fn, build_line, label,
                           lambda spec, text: what_text(spec, None, text), min_points=lambda s: min_k(s["method"], s["d"]) + 2,
                           pre_fn=lambda c, b: hlle_index_leg(c), stat_fn=stat_fn)
    ctx.cov["rule"] = ("routine level: linear_/tangent_/hessian_weight_matrix on generated kernels (linear, (1+x.y)^2, Cauchy) over "
                       "6 data families (cloud, swiss roll, integer lattice, helix, flat 2-plane, rotated grid), N<=%d, k from the "
                       "method's minimum to N-1 (true k-NN lists and arbitrary lists), d 1..4, sparse result compared entrywise with "
                       "the model (2^-30 relative) + stored-entry count; public API: KLLE/KLTSA/HLLE with brute/VP-tree/cover-tree, "
                       "solver input vs model, returned Y certified (orthonormal, centred, residual, inertia brackets); "
                       "non-trivial = N>=6 and a verdict was reached; distinct by case text" % (40 if quick else 64))
    ctx.assumptions += [
        "external kernels enter as oracle values with per-run contract checks: LDLT solve (residual), local eigensolver (residual, orthonormality, top-d by exact inertia), sqrt(k)",
        "approx-mode stages are evaluated by the same polymorphic model at K := Fix (2^-192 fixed point) and compared within 2^-30 relative to the summand magnitude",
        "inertia counts behind every spectral verdict: the exact rational LDL^T of Model/Cert.lean (Cert.inertiaPos, sound by Proofs/Inertia.inertiaPos_sound; belowCount_sound / belowCount_bounds_eigenvalues in Props) on sigma*B - A rounded to 64 significant bits after a power-of-two congruence scaling; only the per-sample local-eigensolver CONTRACT check for neighbourhoods larger than 12 uses the unproven fast minor count",
        "HLLE: the oracle matrix is built from a hand-written estimator basis [1 | U | u_a*u_b, a<=b]; the model built from the generated index expressions must agree with it (else the Gen tie is reported broken)",
        "cases whose local spectra are degenerate at the d-boundary (gap < 2^-12) are skipped and counted as skipped",
    ]


def ctx_elapsed(ctx):
    import time
    return time.time() - ctx.t0
