"""C06 — PCA projects onto the leading principal subspace of the sample covariance.
Model: lean/TapkeeVerif/Model/{Pca,Project,Cert}.lean; theorems: Props/C06.lean (+ Proofs/Spectral.lean);
harness: harness/c06_pca.cpp (routines called directly + public API + eigen-observer hook); driver: lean/Driver/C06.lean."""
from fractions import Fraction

import vlib
from checks import _spectral as sp

PROPERTY = "C06"
LEAN_MODULES = ["TapkeeVerif.Props.C06", "TapkeeVerif.Props.C06Compose"]
LEAN_EXES = ["model_c06"]
REQUIRED_THEOREMS_FINAL = [
    "TapkeeVerif.C06.covarianceUpper_upper",
    "TapkeeVerif.C06.covarianceUpper_shift",
    "TapkeeVerif.C06.one_pass_form_eq_cov",
    "TapkeeVerif.C06.centred_sum_zero",
    "TapkeeVerif.C06.covarianceMatrix_eq_cov",
    "TapkeeVerif.C06.dense_sees_cov_without_mirror_iff",
    "TapkeeVerif.C06.dense_sees_cov",
    "TapkeeVerif.C06.dense_sees_cov_without_mirror_refuted",
    "TapkeeVerif.C06.randomized_sees_cov",
    "TapkeeVerif.C06.pca_optimal",
    "TapkeeVerif.C06.pca_kpca_mds_agree",
    "TapkeeVerif.PcaCompose.pcaRow_mem",
    "TapkeeVerif.PcaCompose.pca_end_to_end",
    "TapkeeVerif.PcaCompose.ex_isTopEig",
]
REQUIRED_THEOREMS = REQUIRED_THEOREMS_FINAL


def case_line(c):
    return ("%s N=%d D=%d d=%d solver=%s seed=%d exact=%d data=%s"
            % (c["topic"], c["N"], c["D"], c["d"], c["solver"], c["seed"], 1 if c["exact"] else 0, sp.mat_text(c["rows"]))
            + (" exactmean=1" if c.get("exactmean") else "") + sp.decoy_fields(c))


def parse_case(line):
    f = sp.fields(line)
    rows = [[Fraction(v) for v in r.split(",")] for r in f["data"].split(";")]
    c = {"topic": line.split(" ", 1)[0], "N": int(f["N"]), "D": int(f["D"]), "d": int(f["d"]), "solver": f["solver"],
         "seed": int(f.get("seed", "1")), "exact": f.get("exact") == "1", "rows": rows, "label": "replay", "rank": None}
    sp.parse_decoys(f, c)
    c["exactmean"] = f.get("exactmean") == "1"
    return c


def subcase(c, keep_rows, keep_cols=None):
    s = dict(c)
    cols = list(range(c["D"])) if keep_cols is None else keep_cols
    s["rows"] = [[c["rows"][i][a] for a in cols] for i in keep_rows]
    s["N"], s["D"] = len(keep_rows), len(cols)
    if c.get("sel"):
        s["sel"] = [c["sel"][i] for i in keep_rows]
        s["all"] = [[row[a] for a in cols] for row in c["all"]]
    s["d"] = max(1, min(c["d"], s["N"] - 1, s["D"]))
    s["exact"] = c["exact"] and sp.is_pow2(s["N"])
    return s


PROPERTY_KEYS = ("eig", "y", "var", "gram_pca_kpca", "gram_pca_mds", "gram_kpca_mds")
MODEL_KEYS = ("mean", "cov", "pre", "contract", "proj")


def good(key, val):
    if key in ("eig", "contract", "var"):
        return val.startswith("ok")
    if key == "proj":
        return val == "same"
    return val.startswith("exact") or val.startswith("approx")


def judge(ctx, binary, cases):
    lines = [case_line(c) for c in cases]
    # OpenMP legs: a case may ask for a thread count (the embedding loop must not depend on it)
    impl = [None] * len(cases)
    for th in sorted(set(c.get("threads", 0) for c in cases)):
        idx = [i for i, c in enumerate(cases) if c.get("threads", 0) == th]
        env = {"OMP_NUM_THREADS": str(th)} if th else None
        out = ctx.run_impl_cases(binary, [lines[i] for i in idx], env=env)
        for i, o in zip(idx, out):
            impl[i] = o
    jl, where = [], []
    ncalls = {}
    verdicts = [None] * len(cases)
    for n, (c, line, io) in enumerate(zip(cases, lines, impl)):
        if io == "throw:eigendecomposition_error" and c["solver"] == "rand" and sp.rows_identical(c["rows"]):
            # zero covariance + Randomized solver: the documented eigendecomposition_error
            # (behaviour pinned by the repository's own test Interface::EigenDecompositionFailMDS)
            verdicts[n] = {"impl": io, "model": "", "bad": [], "soft": [], "skip": "documented-error:zero-matrix"}
            continue
        if not io.startswith("ok "):
            verdicts[n] = {"impl": io, "model": "", "bad": [("impl", io.split("@")[0])], "soft": []}
            continue
        if sp.has_nonfinite(io):
            verdicts[n] = {"impl": io[:400], "model": "", "bad": [("y", "nonfinite-output")], "soft": []}
            continue
        if " P=- " in io:
            verdicts[n] = {"impl": io[:400], "model": "", "bad": [("proj", "no-projection-returned")], "soft": []}
            continue
        fo = sp.fields(io)
        ncalls[n] = fo.get("calls", "1")
        if c["topic"] == "pca" and fo.get("calls") == "0" and fo.get("P", "-") != "-":
            # no eigendecomposition reached the hook: the returned (P, mean, Y) are still judged by the property's oracle —
            # P stands for the eigenvectors, the variances of the embedding's columns for the eigenvalues
            Y = [[sp.parse_dyadic(v) for v in row.split(",")] for row in fo["Y"].split(";")]
            var = [sum(Y[i][j] * Y[i][j] for i in range(len(Y))) / len(Y) for j in range(len(Y[0]))]
            io = io.replace(" pre=- ", " pre=%s " % fo["cov"]).replace(" V=- ", " V=%s " % fo["P"]).replace(
                " lam=- ", " lam=%s " % ",".join(sp.fr(x) for x in var))
        jl.append(line + " " + io[3:])
        where.append(n)
    if jl:
        rc, out, err = ctx.run_model("model_c06", jl)
        if rc != 0 or len(out) != len(jl):
            ctx.broken("model-driver", "model_c06", "model driver failed: rc=%s %s" % (rc, err[-300:]))
            out = out + ["driver-failed"] * (len(jl) - len(out))
        for n, mo in zip(where, out):
            v = {"impl": impl[n][:600], "model": mo, "bad": [], "soft": []}
            t = sp.fields(mo)
            if not t:
                v["soft"].append(("driver", mo))
            for key, val in t.items():
                if key == "cmp":
                    continue
                if key == "robust":
                    # the manifest claims extremality is certified soundly as run: an inconclusive certificate is a
                    # broken obligation of the check (not a failing input)
                    if val not in ("ok", "ok2", "skipped"):
                        v["soft"].append(("robust", val))
                    continue
                if not good(key, val):
                    kind = val.split(":")[0].split("@")[0]
                    (v["bad"] if key in PROPERTY_KEYS else v["soft"]).append((key, kind))
            if cases[n]["topic"] == "pca" and ncalls.get(n) != "1":
                # exactly one eigendecomposition per PCA embed() call reaches the hook
                v["soft"].append(("calls", "eigendecompositions-seen=%s" % ncalls.get(n)))
            v["cmp"] = t.get("cmp", "")
            v["robust"] = t.get("robust", "")
            verdicts[n] = v
    for c, v in zip(cases, verdicts):
        first = (v["bad"] or v["soft"] or [None])[0]
        v["sig"] = None if first is None else "%s:%s:%s=%s" % (c["topic"], c["solver"], first[0], first[1])
    return verdicts


def in_quantifier(c):
    """the randomized solver is claimed only on exact-rank data (rank of the covariance <= target_dimension)"""
    return c["solver"] != "rand" or sp.centred_points_rank(c["rows"]) <= c["d"]


def shrink(ctx, binary, c, sig, budget=30):
    def failing_rows(keep):
        if len(keep) < 2:
            return False
        sub = subcase(c, keep)
        return in_quantifier(sub) and judge(ctx, binary, [sub])[0]["sig"] == sig
    rows = vlib.ddmin(list(range(c["N"])), failing_rows, max_tests=budget)

    def failing_cols(keep):
        if len(keep) < 1:
            return False
        sub = subcase(c, rows, keep)
        return in_quantifier(sub) and judge(ctx, binary, [sub])[0]["sig"] == sig
    cols = vlib.ddmin(list(range(c["D"])), failing_cols, max_tests=budget)
    s = subcase(c, rows, cols)
    for d in range(1, s["d"]):
        t = dict(s)
        t["d"] = d
        if in_quantifier(t) and judge(ctx, binary, [t])[0]["sig"] == sig:
            return t
    return s


WHAT = {
    "eig": "the projection matrix is not an orthonormal basis of the leading eigenspace of the sample covariance",
    "y": "the embedding is not (centred samples) x (projection matrix)",
    "var": "the embedding's columns are not uncorrelated with variances = the returned eigenvalues",
    "gram_pca_kpca": "PCA and linear-kernel Kernel PCA disagree (Gram matrices of the embeddings)",
    "gram_pca_mds": "PCA and Euclidean MDS disagree (Gram matrices of the embeddings)",
    "gram_kpca_mds": "linear-kernel Kernel PCA and Euclidean MDS disagree (Gram matrices of the embeddings)",
    "impl": "the implementation aborted / threw on a valid input",
    "mean": "compute_mean differs from the model",
    "cov": "compute_covariance_matrix differs from the model covarianceUpper",
    "pre": "the matrix handed to the eigensolver differs from the model pcaPre",
    "contract": "the eigensolver's output is not a top-d eigensystem of the matrix it reads",
    "proj": "the returned projection object does not hold the solver's eigenvectors and the computed mean",
    "driver": "model driver could not judge the case",
    "robust": "the tolerance-proof extremality certificate (Cert.extremalDeflated) did not close",
}


def report(ctx, binary, c, v, do_shrink=True):
    sig = v["sig"]
    key = sig.split(":", 2)[2].split("=")[0]
    seen = ctx._seen
    if sig in seen:
        seen[sig] += 1
        return
    seen[sig] = 1
    if v["bad"]:
        small = shrink(ctx, binary, c, sig) if do_shrink else c
        vv = judge(ctx, binary, [small])[0]
        ctx.fail(sig, "%s (%s, %s solver, N=%d D=%d d=%d, %s): %s" % (
            WHAT.get(key, key), c["topic"], c["solver"], small["N"], small["D"], small["d"], c["label"],
            " ".join("%s=%s" % b for b in (vv["bad"] or v["bad"]))),
            case=case_line(small), detail={"impl": vv["impl"], "model": vv["model"], "shrunk_from": [c["N"], c["D"], c["d"]],
                                           "stderr": getattr(ctx, "last_abort_stderr", "")[-1500:] if key == "impl" else ""})
    else:
        ctx.broken("corr:" + sig, "correspondence c06_pca (%s)" % WHAT.get(key, key),
                   "model and implementation disagree below the property level: %s" % (v["soft"],),
                   case=case_line(c), detail={"impl": v["impl"], "model": v["model"]})


def account(ctx, c, v):
    line_key = case_line(c)
    ctx.count(line_key, c["N"] >= 3 and c["D"] >= 2)
    ctx.cov["traces_validated_against_impl"] += 1
    ctx.stat("gen:" + c["label"])
    ctx.stat("topic:" + c["topic"])
    ctx.stat("solver:" + c["solver"])
    ctx.stat("N<=8" if c["N"] <= 8 else "N<=32" if c["N"] <= 32 else "N<=64" if c["N"] <= 64 else "N>=1024")
    ctx.stat("D=1" if c["D"] == 1 else "D<=4" if c["D"] <= 4 else "D<=12" if c["D"] <= 12 else "D<=30")
    ctx.stat("d=D" if c["d"] == c["D"] else "d<D")
    ctx.stat("mode:exact" if c["exact"] else "mode:approx")
    ctx.stat("id-range:shuffled-subset-with-decoys" if c.get("sel") else "id-range:identity")
    if c.get("threads"):
        ctx.stat("omp_threads:%d" % c["threads"])
    if v.get("robust"):
        ctx.stat("tolerance-proof-extremality-certificate:" + v["robust"])
    if v.get("cmp"):
        for part in v["cmp"].split(","):
            k, n = part.split(":")
            ctx.stat("comparisons:" + k, int(n))
    ctx.stat("verdict:" + v["skip"] if v.get("skip") else "verdict:ok" if v["sig"] is None
             else "verdict:oracle-false" if v["bad"] else "verdict:disagree-below-property")
    if v["sig"] is None and len(ctx.cov["samples"]) < 5 and c["N"] <= 5 and c["D"] <= 3:
        ctx.sample({"case": line_key, "impl": v["impl"][:300], "model": v["model"]})


def gen_cases(ctx, quick):
    r = ctx.rng
    pow2 = [2, 4, 8, 16, 32] if quick else [2, 4, 8, 16, 32, 64]
    nmax = 32 if quick else 64
    dmax = 12 if quick else 30
    rounds = 10 if quick else 250
    cases = []

    def add(label, topic, solver, rows, N, D, d, exact, rank):
        cases.append({"label": label, "topic": topic, "solver": solver, "rows": [[Fraction(v) for v in row] for row in rows],
                      "N": N, "D": D, "d": d, "seed": r.range(1, 10 ** 6), "exact": exact, "rank": rank})
        # about half of the cases: a NON-IDENTITY id range (shuffled subset of a larger id space, decoy samples in between)
        if r.chance(1, 2) and N <= 64:
            c = cases[-1]
            c["all"], c["sel"] = sp.with_decoys_points(r, c["rows"])

    def ds_for(N, D, rank):
        top = min(N - 1, D)
        ds = {1, top, r.range(1, top)}
        if rank <= top:
            ds.add(rank)
        return sorted(ds)

    for rnd in range(rounds):
        # 1. exact mode: integer features, N = 2^m
        N = r.choice(pow2 if rnd else [4])
        D = r.range(1, 8)
        rank = r.range(1, D)
        rows = sp.low_rank_points(r, N, D, rank)
        for d in ds_for(N, D, rank):
            add("int-pow2", "pca", "dense", rows, N, D, d, True, rank)
            if rank <= d:
                add("int-pow2", "pca", "rand", rows, N, D, d, True, rank)
        # 2. approx mode: any N, correlated features, non-zero mean, D up to dmax
        N = r.range(3, 12) if r.chance(2, 3) else r.range(3, nmax)
        D = r.range(1, 6) if r.chance(2, 3) else r.range(1, dmax)
        rank = D if r.chance(1, 2) else r.range(1, D)
        rows = sp.low_rank_points(r, N, D, rank)
        for d in ds_for(N, D, rank):
            add("correlated", "pca", "dense", rows, N, D, d, sp.is_pow2(N), rank)
            if rank <= d:
                add("correlated", "pca", "rand", rows, N, D, d, False, rank)
        # 2b. the same kind of data in other units (power-of-two scale factors: the data stay dyadic and mean, covariance,
        #     eigenvectors are exactly scale-equivariant): the code must not carry absolute thresholds.  One tiny, one small
        #     and one large unit per round.
        for sc_exp in (r.choice([-40, -30, -24, -20]), r.choice([-14, -10, -8, -6]), r.choice([8, 20, 30])):
            N = r.choice([4, 8]) if r.chance(1, 2) else r.range(3, 10)
            D = r.range(1, 5)
            rank = D if r.chance(1, 2) else r.range(1, D)
            sc = Fraction(2) ** sc_exp
            rows = [[Fraction(v) * sc for v in row] for row in sp.low_rank_points(r, N, D, rank)]
            for d in ds_for(N, D, rank)[:3]:
                add("scaled", "pca", "dense", rows, N, D, d, sp.is_pow2(N), rank)
                if rank <= d:
                    add("scaled", "pca", "rand", rows, N, D, d, False, rank)
            top = min(N - 1, D)
            if sp.centred_points_rank(rows) >= top:
                add("scaled", "agree", "dense", rows, N, D, top, False, rank)
        # 2c. mean far from the origin compared with the spread (mean ~2^20 .. 2^36, spread ~10): centring must happen before
        #     any product, otherwise the covariance / projection cancel catastrophically
        N = r.choice([4, 8, 16]) if r.chance(1, 2) else r.range(3, 12)
        D = r.range(2, 4)
        off = [r.choice([-1, 1]) * 2 ** r.range(20, 36) + r.range(-5, 5) for _ in range(D)]
        rows = [[o + v for o, v in zip(off, row)] for row in sp.low_rank_points(r, N, D, D, amp=2)]
        for d in ds_for(N, D, D)[:2]:
            add("large-mean", "pca", "dense", rows, N, D, d, False, None)
        # 2d. anisotropic exact-rank data (strips / slabs in D dimensions): covariance eigenvalues differing by 10^2 … 10^7
        #     among the retained directions, rank <= d, Randomized AND Dense
        N = r.range(6, 14)
        rank = r.range(2, 3)
        D = r.range(rank, 5)
        steps = [r.range(4, 12)] if rank == 2 else [r.range(3, 6), r.range(3, 6)]
        rows = sp.anisotropic_points(r, N, D, rank, steps)
        if sp.centred_points_rank(rows) == rank and rank <= min(N - 1, D):
            # the Randomized solver resolves retained eigenvalue ratios up to ~10^7 (relative 1e-9 dependence threshold);
            # 4^sum(steps) times the spread ratio of the axes (up to ~10) stays below that for sum(steps) <= 10.  Beyond it a
            # lost 2^-27 of the Gram matrix is the conditioning of the problem, not a violation (clean-tree alarm at
            # VERIF_SEED=6: ratio > 10^7, PCA vs MDS Gram matrices off by 2^-27 relative) - Dense only there.
            rand_ok = sum(steps) <= 10
            for solver in (("rand", "dense") if rand_ok else ("dense",)):
                add("anisotropic-exact-rank", "pca", solver, rows, N, D, rank, False, rank)
            if rand_ok:
                add("anisotropic-exact-rank", "agree", "rand", rows, N, D, rank, False, rank)
            add("anisotropic-exact-rank", "agree", "dense", rows, N, D, rank, False, rank)
        # 2e. WIDE anisotropy, Dense solver: rank-2 strips in D dims with covariance eigenvalue ratios down to 2^-44
        N = r.range(5, 12)
        D = r.range(2, 4)
        rows = sp.anisotropic_points(r, N, D, 2, [r.choice([14, 18, 20, 21, 22])])
        if sp.centred_points_rank(rows) == 2:
            add("anisotropic-wide-dense", "pca", "dense", rows, N, D, 2, False, 2)
            add("anisotropic-wide-dense", "pca", "dense", rows, N, D, 1, False, 2)
            add("anisotropic-wide-dense", "agree", "dense", rows, N, D, 2, False, 2)
        # 2f. feature values with MORE THAN 24 significant bits (coordinates up to 2^20 plus 2^-12 fractions: up to 33 bits);
        #     for N = 2^m the mean is still free of rounding: equality demanded there (`exactmean`)
        N = r.choice([4, 8, 16]) if r.chance(2, 3) else r.range(3, 12)
        D = r.range(1, 4)
        rows = [[Fraction(r.range(-2 ** 20, 2 ** 20)) + Fraction(r.range(0, 4095), 4096) for _ in range(D)] for _ in range(N)]
        for d in ds_for(N, D, D)[:2]:
            add("wide-mantissa", "pca", "dense", rows, N, D, d, False, None)
            cases[-1]["exactmean"] = sp.is_pow2(N)
        if sp.centred_points_rank(rows) <= min(D, N - 1):
            add("wide-mantissa", "pca", "rand", rows, N, D, min(D, N - 1), False, None)
            cases[-1]["exactmean"] = sp.is_pow2(N)
        # 3. dyadic (non-integer) features
        N = r.range(2, 16)
        D = r.range(1, 5)
        rows = [[Fraction(r.range(-64, 64), 16) for _ in range(D)] for _ in range(N)]
        for d in ds_for(N, D, D)[:2]:
            add("dyadic", "pca", "dense", rows, N, D, d, sp.is_pow2(N), None)
        # 4. PCA vs linear-kernel KPCA vs Euclidean MDS: generic full-rank data (distinct spectrum), d <= rank
        N = r.range(4, 14)
        D = r.range(2, 5)
        rows = sp.low_rank_points(r, N, D, D)
        top = min(N - 1, D)
        add("agree", "agree", "dense", rows, N, D, r.range(1, top), False, D)
        if D <= N - 1:
            add("agree", "agree", "rand", rows, N, D, D, False, D)
    # 4b. one case with many features and one with a mid-sized sample count per run (block-size dependent code paths):
    #     D in {16, 17, 24}, N in {48, 64, 100}
    Db, Nb = r.choice([16, 17, 24]), r.choice([48, 64, 100])
    rows = sp.low_rank_points(r, 30, Db, Db, amp=2)
    add("many-features", "pca", "dense", rows, 30, Db, r.range(1, 6), False, Db)
    rows = sp.low_rank_points(r, Nb, 3, 3, amp=4)
    add("mid-sample-count", "pca", "dense", rows, Nb, 3, 2, sp.is_pow2(Nb), 3)
    add("mid-sample-count", "pca", "rand", rows, Nb, 3, 3, False, 3)
    # 5. many samples, few features, 8 and 1 OpenMP threads: every row of the embedding must be Pᵀ(x_i − mean) whatever the
    #    schedule (the per-sample loops of routines/pca.hpp); small D keeps the exact judge cheap
    for rnd in range(3 if quick else 12):
        N = r.choice([1024, 2048, 3000] if quick else [1024, 4096, 10000, 20000])
        D = r.range(2, 3)
        rows = [[r.range(-50, 50) for _ in range(D)] for _ in range(N)]
        d = r.range(1, D)
        for th in (8, 1):
            add("many-samples-omp", "pca", "dense", rows, N, D, d, sp.is_pow2(N), None)
            cases[-1]["threads"] = th
    return cases


def build(ctx):
    binary, log = ctx.build_harness("c06_pca.cpp", name=sp.harness_name("c06_pca"), flags=sp.FLAGS, extra=sp.header_flag())
    if not binary:
        ctx.broken("harness-build", "harness c06_pca.cpp", "harness does not compile against /repo: " + log[-800:])
    return binary


def run_all(ctx, binary, cases, do_shrink=True):
    ctx._seen = getattr(ctx, "_seen", {})
    kept = [c for c in cases if in_quantifier(c)]
    if len(kept) != len(cases):
        ctx.stat("skipped:randomized-solver-on-rank>d(outside the property)", len(cases) - len(kept))
    cases = kept
    for i in range(0, len(cases), 40):
        chunk = cases[i:i + 40]
        for c, v in zip(chunk, judge(ctx, binary, chunk)):
            account(ctx, c, v)
            if v["sig"] is not None:
                report(ctx, binary, c, v, do_shrink)


def correspond(ctx):
    binary = build(ctx)
    if not binary:
        return
    quick = ctx.tier == "quick"
    corpus = []
    for prefix in ("pca", "agree"):
        corpus += [parse_case(l) for l in sp.load_corpus("C06", prefix)]
    for c in corpus:
        c["label"] = "corpus"
    run_all(ctx, binary, corpus, do_shrink=False)
    cases = gen_cases(ctx, quick)
    ctx.log("%d generated cases" % len(cases))
    run_all(ctx, binary, cases)
    ctx.extra["failure_signature_counts"] = dict(ctx._seen)
    ctx.cov["rule"] = ("compute_mean / compute_covariance_matrix called directly and PCA through the public API (hook matrix, "
                       "solver output, returned projection object, embedding) on integer (N = 2^m, exact mode), correlated "
                       "low-rank/full-rank and dyadic feature data, the same in units 2^-40 .. 2^30, anisotropic exact-rank strips / slabs (covariance eigenvalue ratios 10^2 .. 10^7 both solvers, down to 2^-44 Dense), "
                       "feature values of up to 33 significant bits, one D in {16,17,24} and one N in {48,64,100} case per run, N <= %d, D <= %d, d in {1, rank, min(N-1,D), random}, "
                       "dense solver everywhere and the randomized solver on exact-rank data (rank <= d); N up to 3000 (thorough "
                       "20000) samples with OMP_NUM_THREADS = 8 and 1 for the per-sample loops; plus PCA vs "
                       "linear-kernel KPCA vs Euclidean MDS Gram agreement; every trace judged in exact rationals by "
                       "model_c06 against the TRUE sample covariance computed from the raw data; non-trivial = N >= 3 and "
                       "D >= 2; distinct by case text" % (32 if quick else 64, 12 if quick else 30))
    ctx.assumptions += [
        "the eigen-certificate of the Randomized solver's (V, lambda) uses the relative tolerance 2^-20 instead of 2^-30: its "
        "single Gram-Schmidt pass loses (lambda_max/lambda_min)*2^-53 of orthogonality, up to 2^-28 on the anisotropic "
        "exact-rank families (retained eigenvalue ratios up to 2^25); embedding-level checks stay at 2^-30 / 2^-40",
        "harness compiled at -O0 -g1 (ASan+UBSan on) instead of -O1 -g: the all-methods translation unit needs 2-3 min and "
        "several GB otherwise",
        "eigensolver enters as a contract (IsTopEig); its outputs are certificate-checked per run in exact rationals "
        "(residual, orthonormality <= 2^-30 relative, exact LDL^T inertia for extremality)",
        "IEEE rounding: exact-mode cases (N = 2^m, integer features) demand equality of mean / covariance / hook matrix "
        "with the model; everything else within 2^-30 (2^-40 for the projection formula), counted separately",
    ]


def replay_case(ctx, body):
    binary = build(ctx)
    if not binary:
        return
    ctx._seen = {}
    run_all(ctx, binary, [parse_case(body["case"])], do_shrink=False)
