"""C11 — landmark methods embed landmarks exactly and triangulate the rest consistently.
Model: lean/TapkeeVerif/Model/Landmarks.lean; theorems: Props/C11.lean; driver: lean/Driver/C11.lean (model_c11);
harness: harness/c11_landmarks.cpp (real select_landmarks_random / triangulate / LandmarkMDS / LandmarkIsomap / MDS /
Isomap method classes under ASan+UBSan, seed hook + eigen observer).

Oracle = the property text:
  * landmarks: size = integer part of ratio*N, distinct, in range, replayable under the seed hook;
  * Landmark MDS embeds the landmarks as MDS embeds that subset (Gram level, against a real MDS run on the subset);
  * Euclidean input of affine dimension <= d, landmarks affinely spanning it => ALL pairwise distances reproduced;
  * ratio = 1: Landmark MDS = MDS, Landmark Isomap = Isomap (Gram level);
  * no out-of-bounds access for any validated configuration (d > n_landmarks is validated but reads past the matrix).
Correspondence (model = code): select (count incl. the double product), triangulate (exact text equality),
matrix handed to the solver == lmdsB / lisomapPre (== on exact-mode inputs), result == model post-processing of the
solver's own (V, lambda) (2^-30 relative).
Id ranges: in about half of all cases of every leg (sel, tri, api) the library is handed a NON-IDENTITY iterator range
(`sel=`: a shuffled subset of a larger id space with decoy ids in between, `alldata=`: the callback values of all ids,
`nan` = every non-sample entry NaN) — the protocol of the spectral checks.  The model sees the selected samples in
range order (`dist=`/`pts=`), so any "position used as element" (or vice versa) in the landmark code gives a different
value, a NaN, or a callback evaluation on an id outside the range (counted by the harness: `foreign=`)."""
import itertools
import os
import re
import threading
from fractions import Fraction

import vlib

PROPERTY = "C11"
LEAN_MODULES = ["TapkeeVerif.Props.C11", "TapkeeVerif.Props.C11Compose"]
LEAN_EXES = ["model_c11"]
REQUIRED_THEOREMS = [
    "TapkeeVerif.Landmarks.landmarks_distinct_and_counted",
    "TapkeeVerif.Landmarks.landmarks_distinct_and_counted_compiled",
    "TapkeeVerif.Landmarks.selectLandmarks_defined",
    "TapkeeVerif.Landmarks.lmds_landmarks_eq_mds_of_subset",
    "TapkeeVerif.Landmarks.landmark_index_discipline",
    "TapkeeVerif.Landmarks.triangulate_fixes_landmarks",
    "TapkeeVerif.Landmarks.lmds_exact_recovery",
    "TapkeeVerif.Landmarks.ratio_one_eq_nonlandmark",
    "TapkeeVerif.Landmarks.lisomap_ratio_one_partial",
    "TapkeeVerif.Landmarks.lisomap_ratio_one_refuted",
    "TapkeeVerif.Landmarks.rightCols_inbounds_iff",
    "TapkeeVerif.Landmarks.lmds_oob_iff",
    "TapkeeVerif.Landmarks.validated_inbounds",
    "TapkeeVerif.Landmarks.lmds_validated_not_oob",
    "TapkeeVerif.LandmarkCompose.landmark_mds_end_to_end",
    "TapkeeVerif.LandmarkCompose.ex_sel",
    "TapkeeVerif.LandmarkCompose.ex_range",
    "TapkeeVerif.LandmarkCompose.ex_lm",
    "TapkeeVerif.LandmarkCompose.ex_isTopEig",
]

# -O0: the four method classes under ASan+UBSan compile in ~35 s instead of ~70 s at -O1; matrices are <= 32 x 32
FLAGS = [("-O0" if f == "-O1" else f) for f in vlib.HARNESS_FLAGS]


def fields(line):
    out = {}
    for tok in line.split():
        if "=" in tok:
            k, v = tok.split("=", 1)
            out[k] = v
    return out


def parse_exact(tok):
    """`m:e`, `a/b` or an integer as an exact Fraction"""
    if ":" in tok:
        m, e = tok.split(":")
        return Fraction(int(m)) * (Fraction(2) ** int(e))
    return Fraction(tok)


def show_mat(rows):
    return ";".join(",".join(str(x) for x in r) for r in rows) if rows else "-"


def show_idx(l):
    return ",".join(str(x) for x in l) if l else "-"


# ----------------------------------------------------------------------------- generators
def rand_subset(r, n, k):
    return r.shuffle(list(range(n)))[:k]


# ----------------------------------------------------------------------------- non-identity id ranges
def pick_ids(r, n):
    """ids of the n samples inside a larger id space, shuffled: either every position 0..n-1 is a decoy id (all sample
    ids >= n) or samples and decoys are interleaved"""
    if r.chance(1, 2):
        total = 2 * n + r.range(0, max(1, n // 2))
        return [n + x for x in r.shuffle(list(range(total - n)))[:n]], total, "disjoint"
    total = n + r.range(1, max(2, n // 2))
    return r.shuffle(list(range(total)))[:n], total, "interleaved"


def id_range(r, n, rows=None, unit=0, points=False):
    """None, None (identity range 0..n-1, half of the cases) or (sel, alldata): the library is handed the id range `sel`,
    callbacks are defined on ids.  alldata = 'nan' (every entry that does not belong to two samples is NaN: the code
    must never look there) or the callback matrix / the points of ALL ids with far-away finite decoys in the units of
    the data (`rows`: the integer data of the samples before scaling by 2^unit)."""
    if r.chance(1, 2):
        return None, None
    sel, total, _ = pick_ids(r, n)
    if rows is None or r.chance(1, 2):
        return sel, "nan"
    pos = {p: a for a, p in enumerate(sel)}
    if points:
        D = len(rows[0])
        allr = []
        for i in range(total):
            if i in pos:
                allr.append(rows[pos[i]])
            else:       # a sample pushed 20..40 units away in every coordinate
                b = rows[r.below(n)]
                allr.append([x + r.choice([-1, 1]) * r.range(20, 40) for x in b])
        return sel, show_mat(scaled(allr, unit))
    mx = max(max(abs(x) for x in row) for row in rows) + 1
    A = [[(rows[pos[i]][pos[j]] if i in pos and j in pos else mx + r.below(mx + 2)) for j in range(total)] for i in range(total)]
    return sel, show_mat(scaled(A, unit))


def range_fields(sel, alldata):
    return "" if sel is None else " sel=%s alldata=%s" % (show_idx(sel), alldata)


RANGE_FIELDS = re.compile(r" (?:sel|alldata)=\S+")
FOREIGN = re.compile(r" foreign=(\d+):(-?\d+)$")


def model_line(line):
    """the model sees the selected samples in range order: the id range is the implementation's business"""
    return RANGE_FIELDS.sub("", line)


def stat_range(ctx, line):
    f = fields(line)
    if "sel" in f and f["sel"] != show_idx(list(range(len(f["sel"].split(","))))):
        ctx.stat("id-range:shuffled-subset-with-decoys")
        ctx.stat("id-range:decoys-" + ("nan" if f.get("alldata", "nan") == "nan" else "far"))
        return True
    ctx.stat("id-range:identity")
    return False


def foreign_what(name, m, line):
    return ("%s evaluates the distance callback on id %s, which is not an element of the range it was handed (%d such "
            "evaluations; range ids %s): a position in the range used as an element, or the other way round"
            % (name, m.group(2), int(m.group(1)), fields(line).get("sel", "0..n-1")))


def gen_sel(r, quick):
    cases = []
    for _ in range(500 if quick else 20000):
        c = r.below(10)
        n = r.range(1, 40) if c < 7 else r.range(41, 400 if quick else 3000)
        t = r.below(7)
        if t == 0 and n >= 3:
            ratio = "3/%d" % n
        elif t == 1:
            ratio = "1"
        elif t == 2:
            ratio = "%d/%d" % (r.range(0, n), n)                    # k/N : (k/N)*N lands on / next to an integer
        elif t == 3:
            e = r.range(1, 12)
            ratio = "%d/%d" % (r.range(0, 2 ** e), 2 ** e)          # dyadic
        elif t == 4:
            b = r.range(1, 97)
            ratio = "%d/%d" % (r.range(0, b), b)
        elif t == 5:
            ratio = "%d/%d" % (2 * r.range(0, n - 1) + 1, 2 * n)    # safely between two integers
        else:
            ratio = "0"
        sel, _ = id_range(r, n)
        cases.append("sel n=%d ratio=%s seed=%d" % (n, ratio, r.below(2 ** 31)) + ("" if sel is None else " sel=" + show_idx(sel)))
    return cases


def dy(r, lo, hi, den):
    """small dyadic as text"""
    k = r.range(lo * den, hi * den)
    return "%d/%d" % (k, den) if k % den else "%d" % (k // den)


def gen_tri(r, quick):
    cases = []
    for _ in range(300 if quick else 10000):
        n = r.range(1, 10)
        nl = r.range(1, n)
        d = r.range(1, 4)
        if r.chance(1, 8):
            lm = [r.below(n) for _ in range(nl)]                    # with repetition: "last position wins"
        else:
            lm = rand_subset(r, n, nl)
        ua = r.choice([-20, -10, -3, 0, 0, 5, 15])                   # unit of the callback values: 2^ua
        raw = [[r.below(8) for _ in range(n)] for _ in range(n)]
        dist = scaled(raw, ua)                                       # arbitrary (asymmetric) callback values
        V = [[dy(r, -3, 3, 4) for _ in range(d)] for _ in range(nl)]
        lam = []
        ub = r.choice([-60, -40, -20, 0, 0, 20, 40])                 # eigenvalues of every magnitude (relative tolerance!)
        for i in range(d):
            e = r.range(-2, 3)
            lam.append(("-" if r.chance(1, 6) else "") + "1:%d" % (e + ub))
        div0 = r.chance(1, 8)
        if div0:
            lam[r.below(d)] = "0"                                   # vanishing eigenvalue: pseudo-inverse column
        mu = ["%d:%d" % (r.range(0, 40), 2 * ua - 1) for _ in range(nl)]
        sel, alldata = id_range(r, n, raw, ua)
        cases.append(("tri n=%d d=%d lm=%s dist=%s V=%s lam=%s mu=%s" % (
            n, d, show_idx(lm), show_mat(dist), show_mat(V), ",".join(lam), ",".join(mu)) + range_fields(sel, alldata), div0))
    return cases


def int_points(r, n, D, rank, span):
    """n integer points of R^D inside an affine subspace of dimension <= rank (== rank with high probability)"""
    while True:
        p0 = [r.range(-2, 2) for _ in range(D)]
        basis = [[r.range(-2, 2) for _ in range(D)] for _ in range(rank)]
        pts = []
        for _ in range(n):
            c = [r.range(-span, span) for _ in range(rank)]
            pts.append([p0[j] + sum(c[k] * basis[k][j] for k in range(rank)) for j in range(D)])
        if len(set(map(tuple, pts))) == n or r.chance(1, 10):
            return pts


UNITS = [-40, -30, -20, -10, -3, 0, 0, 0, 5, 10, 20, 30]


def scaled(rows, e):
    """multiply every entry by the exact unit 2^e (text `k:e`, read exactly by harness and driver)"""
    if e == 0:
        return rows
    return [[("%d:%d" % (x, e) if x != 0 else "0") for x in r] for r in rows]


def sqdist(p, q):
    return sum((a - b) ** 2 for a, b in zip(p, q))


def l1(p, q):
    return sum(abs(a - b) for a, b in zip(p, q))


def ratio_for(nl, n):
    """a ratio whose product with n is safely inside [nl, nl+1)"""
    return "%d/%d" % (2 * nl + 1, 2 * n) if nl < n else "1"


# ----------------------------------------------------------------------------- judging
class Run:
    def __init__(self, ctx, binary):
        self.ctx = ctx
        self.binary = binary

    def impl(self, lines, threads="2"):
        # two OpenMP threads: the parallel regions are real, without oversubscribing a shared machine
        return self.ctx.run_impl_cases(self.binary, lines, timeout=900,
                                       env={"OMP_NUM_THREADS": threads, "OMP_WAIT_POLICY": "passive"})

    def model(self, lines):
        rc, out, err = self.ctx.run_model("model_c11", lines)
        if rc != 0 or len(out) != len(lines):
            self.ctx.broken("model-driver", "model_c11", "model driver failed: rc=%s %s" % (rc, err[-300:]))
            return None
        return out


def judge_sel(run, cases):
    ctx = run.ctx
    impl = run.impl(cases)
    mlines, keep = [], []
    for line, io in zip(cases, impl):
        f = fields(line)
        if io.startswith("abort:"):
            ctx.fail("sel:" + io, "select_landmarks_random aborts (%s)" % io, case=line)
            continue
        o = fields(io)
        mlines.append("sel n=%s r=%s perm=%s" % (f["n"], o["r"], o["perm"]))
        keep.append((line, io, o, int(f["n"])))
    model = run.model(mlines)
    if model is None:
        return
    for (line, io, o, n), mo in zip(keep, model):
        m = fields(mo)
        lm = [] if o["lm"] == "-" else [int(x) for x in o["lm"].split(",")]
        perm = [] if o["perm"] == "-" else [int(x) for x in o["perm"].split(",")]
        ctx.count(line, len(lm) >= 2)
        ctx.cov["traces_validated_against_impl"] += 1
        ctx.stat("sel")
        stat_range(ctx, line)
        # contract of the shuffle oracle
        if sorted(perm) != list(range(n)):
            ctx.broken("contract:shuffle", "contract: random_shuffle returns a permutation",
                       "tapkee::random_shuffle did not return a permutation of 0..N-1", case=line, detail=io)
        # oracle (property text): "the integer part of landmark_ratio*N".  Reading judged here: the product is the one a
        # program can form, the IEEE double product of the double ratio and N, truncated — computed HERE with Python's
        # own IEEE arithmetic from the exact value of the ratio the harness reports (independent of the Lean model);
        # the exact-arithmetic reading floor(N*r) is computed alongside (Fractions) and its disagreements are counted.
        count = int(o["count"])
        rq = parse_exact(o["r"])
        reading_double = int(float(n) * float(rq))          # float(Fraction) is exact for a 53-bit dyadic
        reading_exact = (Fraction(n) * rq).__floor__()
        exact = int(m.get("exact", -1))
        if exact != reading_exact:
            ctx.broken("corr:sel-exact", "model landmarkCount vs exact floor", "Lean landmarkCount differs from floor(N*r) "
                       "computed with Python Fractions", case=line, detail={"lean": exact, "python": reading_exact})
        bad = None
        if len(set(lm)) != len(lm):
            bad = "landmarks are not distinct"
        elif any(x < 0 or x >= n for x in lm):
            bad = "landmark index out of range"
        elif count != len(lm):
            bad = "size mismatch"
        elif o["replay"] != "1":
            bad = "the same seed does not reproduce the landmark set"
        elif count != reading_double:
            bad = "number of landmarks %d is not the integer part of ratio*N = %d (double product; exact floor %d)" % (
                count, reading_double, reading_exact)
        if bad:
            ctx.fail("sel:oracle", "select_landmarks_random: " + bad, case=line, detail={"impl": io, "model": mo})
            continue
        if count != exact:
            ctx.stat("sel:double-product-differs-from-exact-floor")
        # correspondence
        if mo.startswith("sel ERR") or int(m["count"]) != count or m["lm"] != o["lm"]:
            ctx.broken("corr:sel", "correspondence select_landmarks_random vs selectLandmarksFl",
                       "model and implementation disagree on the landmark list", case=line,
                       detail={"impl": io, "model": mo})
        if len(ctx.cov["samples"]) < 2 and len(lm) >= 3 and n <= 12:
            ctx.sample({"case": line, "impl": io, "model": mo})


def judge_tri(run, cases):
    ctx = run.ctx
    lines = [c for c, _ in cases]
    impl = run.impl(lines)
    model = run.model([model_line(l) for l in lines])
    if model is None:
        return
    for (line, div0), io, mo in zip(cases, impl, model):
        ctx.count(line, True)
        ctx.cov["traces_validated_against_impl"] += 1
        ctx.stat("tri")
        ctx.stat("cmp:exact")
        stat_range(ctx, line)
        if io.startswith("abort:"):
            ctx.fail("tri:" + io, "triangulate aborts (%s)" % io, case=line, detail={"model": mo})
            continue
        fm = FOREIGN.search(io)
        if fm:
            ctx.stat("tri:foreign-id")
            ctx.fail("tri:foreign-id", foreign_what("triangulate", fm, line), case=line, detail={"impl": io, "model": mo})
            io = io[:fm.start()]
        if io != mo:
            ctx.broken("corr:tri", "correspondence triangulate vs Landmarks.triangulate (exact mode)",
                       "triangulate output differs from the model on exact-mode input", case=line,
                       detail={"impl": io, "model": mo})
        elif len(ctx.cov["samples"]) < 3 and len(line) < 400:
            ctx.sample({"case": line, "impl": io, "model": mo})


def api_line(method, n, d, ratio=None, k=None, eig="dense", seed=None, lmwant=None, pts=None, dist=None, sel=None,
             alldata=None):
    s = "api method=%s n=%d d=%d" % (method, n, d)
    if ratio is not None:
        s += " ratio=%s" % ratio
    if k is not None:
        s += " k=%d" % k
    s += " eig=%s" % eig
    if lmwant is not None:
        s += " lmwant=%s" % show_idx(lmwant)
    elif seed is not None:
        s += " seed=%d" % seed
    if pts is not None:
        s += " pts=%s" % show_mat(pts)
    else:
        s += " dist=%s" % show_mat(dist)
    return s + range_fields(sel, alldata)


def rejected_dimension(run, c):
    """an exception for target_dimension > number of landmarks is a documented rejection (wrong parameter value)"""
    res = run.impl(["sel n=%d ratio=%s seed=0" % (c.n, c.ratio)])
    if res and not res[0].startswith("abort:"):
        return c.d > int(fields(res[0]).get("count", 10 ** 9)) and "target_dimension" in c.o.get("exc", "")
    return False


def report_abort(run, c, tag, name):
    """a sanitizer abort of a landmark method: classify (d > number of landmarks?) and report"""
    ctx = run.ctx
    io = c.io
    count = None
    res = run.impl(["sel n=%d ratio=%s seed=0" % (c.n, c.ratio)])
    if res and not res[0].startswith("abort:"):
        count = int(fields(res[0]).get("count", -1))
    detail = {"abort": io, "n_landmarks": count, "stderr": getattr(ctx, "last_abort_stderr", "")[-1500:]}
    if count is not None and c.d > count and "eigendecomposition" in io:
        ctx.fail("%s:oob:target_dimension>n_landmarks" % tag,
                 "%s reads outside the eigenvector matrix (%s): target_dimension %d exceeds the %d landmarks; validate() only "
                 "requires d < N = %d and ratio >= 3/N" % (name, io[6:], c.d, count, c.n), case=c.line, detail=detail)
    else:
        ctx.fail("%s:%s" % (tag, io), "%s aborts (%s) for a validated configuration" % (name, io), case=c.line, detail=detail)


def nonfinite_solver_answer(ctx, c, o, tag):
    """NaN / inf in what the eigensolver returned: for the randomized solver on rank-deficient input this is its known
    weakness (normalising a zero column; C05's F-RAND-RANKDEF) and the case is only counted; for the dense solver it is a
    violated contract"""
    if not re.search(r"nan|inf", o.get("V", "") + "," + o.get("lam", "")):
        return False
    ctx.stat("%s:solver-answer-nonfinite:%s" % (tag, c.eig))
    if c.eig == "dense":
        ctx.broken("contract:eig-nonfinite", "contract: eigensolver returns finite values",
                   "the dense eigensolver returned NaN/inf for a finite matrix", case=c.line, detail=c.io[:1500])
    return True


def foreign_id(ctx, c, tag, name):
    """the harness saw the method evaluate the callback on an id outside the range: a failing input of its own (the
    embedding of a range is a function of the samples in it).  True = the observation contains NaN read from a decoy,
    nothing finite is left to judge; False = go on, the property oracle judges the (finite, wrong) values."""
    fm = FOREIGN.search(c.io)
    if not fm:
        return False
    ctx.stat(tag + ":foreign-id")
    ctx.fail(tag + ":foreign-id", foreign_what(name, fm, c.line), case=c.line, detail=c.io[:2500])
    c.io = c.io[:fm.start()]
    c.o = fields(c.io)
    c.dead = bool(re.search(r"nan|inf", " ".join(c.o.get(k, "") for k in ("B", "V", "lam", "Y", "G")))) or "exc" in c.o
    return c.dead


class LmdsCase:
    """one Landmark-MDS run + the runs it is compared with"""

    def __init__(self, n, d, ratio, pts=None, dist=None, seed=None, lmwant=None, exact=False, eig="dense", label="",
                 ids=(None, None)):
        self.n, self.d, self.ratio, self.pts, self.dist = n, d, ratio, pts, dist
        self.seed, self.lmwant, self.exact, self.eig, self.label = seed, lmwant, exact, eig, label
        self.line = api_line("lmds", n, d, ratio=ratio, eig=eig, seed=seed, lmwant=lmwant, pts=pts, dist=dist,
                             sel=ids[0], alldata=ids[1])


def judge_lmds(run, cases):
    ctx = run.ctx
    impl = run.impl([c.line for c in cases])
    # second round: MDS of the landmark subset, MDS of everything when every sample is a landmark
    follow, flines = [], []
    chk, clines = [], []
    for c, io in zip(cases, impl):
        c.io = io
        c.o = o = fields(io)
        ctx.cov["traces_validated_against_impl"] += 1
        ctx.stat("lmds:" + c.label)
        stat_range(ctx, c.line)
        if io.startswith("abort:"):
            continue
        if foreign_id(ctx, c, "lmds", "Landmark MDS"):
            continue
        io, o = c.io, c.o
        lm = [] if o.get("lm", "-") == "-" else [int(x) for x in o["lm"].split(",")]
        c.lm = lm
        if io.startswith("api noseed"):
            ctx.stat("lmds:no-seed-found-for-wanted-prefix(dropped)")
        if "exc" in o or "Y" not in o:
            continue
        if nonfinite_solver_answer(ctx, c, o, "lmds"):
            continue
        distm = o["D"] if c.pts is not None else show_mat(c.dist)
        cl = "chk kind=lmds n=%d d=%d lm=%s dist=%s" % (c.n, c.d, show_idx(lm), distm)
        if c.pts is not None:
            cl += " pts=%s" % show_mat(c.pts)
        cl += " B=%s V=%s lam=%s s=%s Y=%s" % (o["B"], o["V"], o["lam"], o["s"], o["Y"])
        chk.append(c)
        clines.append(cl)
        symmetric = c.pts is not None or all(c.dist[i][j] == c.dist[j][i] for i in range(c.n) for j in range(c.n))
        if not symmetric:
            ctx.stat("lmds:asymmetric-callback(no Gram reference)")
            continue
        if c.d < len(lm) and c.eig == "dense":
            sub_pts = [c.pts[a] for a in lm] if c.pts is not None else None
            sub_dist = None if c.pts is not None else [[c.dist[a][b] for b in lm] for a in lm]
            follow.append((c, "sub"))
            flines.append(api_line("mds", len(lm), c.d, pts=sub_pts, dist=sub_dist))
        if len(lm) == c.n and c.eig == "dense":
            follow.append((c, "full"))
            flines.append(api_line("mds", c.n, c.d, pts=c.pts, dist=c.dist))
    verdicts = run.model(clines) if clines else []
    if verdicts is None:
        return
    fimpl = run.impl(flines) if flines else []
    glines, gmeta = [], []
    for (c, kind), fl, fo in zip(follow, flines, fimpl):
        if fo.startswith("abort:") or "Y" not in fields(fo):
            ctx.stat("mds-reference-unavailable")
            continue
        f = fields(fo)
        if kind == "sub":
            glines.append("gram A=%s B=%s rowsA=%s gap=%s norm=%s" % (c.o["Y"], f["Y"], show_idx(c.lm), f["gap"], f["norm"]))
        else:
            glines.append("gram A=%s B=%s gap=%s norm=%s" % (c.o["Y"], f["Y"], f["gap"], f["norm"]))
        gmeta.append((c, kind, fl, fo))
    gver = run.model(glines) if glines else []
    if gver is None:
        return
    # ---- verdicts
    for c in cases:
        io = c.io
        ctx.count(c.line, c.n > 3)
        if getattr(c, "dead", False):
            continue
        if io.startswith("abort:"):
            ctx.stat("lmds:abort")
            report_abort(run, c, "lmds", "Landmark MDS")
            continue
        if "exc" in c.o and c.o["exc"].startswith("eigendecomposition_failed"):
            ctx.stat("lmds:eigendecomposition_error(documented)")
        elif "exc" in c.o and rejected_dimension(run, c):
            ctx.stat("lmds:d>n_l-rejected-by-validation(documented)")
        elif "exc" in c.o:
            ctx.stat("lmds:exception")
            # an exception is a documented outcome only for invalid configurations; the generator emits valid ones
            ctx.fail("lmds:exception", "Landmark MDS throws on a valid configuration: " + c.o["exc"],
                     case=c.line, detail=io[:600])
    for c, cl, v in zip(chk, clines, verdicts):
        t = fields(v)
        detail = {"impl": c.io[:3000], "model_verdict": v, "chk": cl[:200]}
        if v.startswith("bad-case"):
            ctx.broken("model-driver:chk", "model_c11 chk", "driver could not read the observation: " + v, case=c.line)
            continue
        nl = len(c.lm)
        # oracle: landmark set
        want = nl  # the count is judged by judge_sel; here: distinctness / range through lmdistinct
        if t.get("lmdistinct") != "1":
            ctx.fail("lmds:landmarks-repeat", "Landmark MDS uses a landmark twice", case=c.line, detail=detail)
            continue
        if t.get("model") == "ERR:oob":
            ctx.stat("lmds:model-oob")
            # implementation survived a read outside the matrix (ASan saw nothing): still a finding, but softer
            ctx.broken("corr:lmds-oob", "correspondence LandmarkMDS (d > n_landmarks: model reaches oob, implementation does not abort)",
                       "model reaches the out-of-bounds state, implementation returned a result", case=c.line, detail=detail)
            continue
        # correspondence: matrix handed to the solver
        pre = t.get("pre", "?")
        ctx.stat("cmp:exact" if c.exact else "cmp:approx")
        if pre.startswith("diff") or (c.exact and pre != "eq"):
            ctx.broken("corr:lmds-pre", "correspondence LandmarkMDS: matrix handed to the eigensolver vs lmdsB",
                       "the matrix Landmark MDS hands to the eigensolver differs from the model (%s)" % pre,
                       case=c.line, detail=detail)
        if t.get("sqrt") != "ok":
            ctx.broken("contract:sqrt", "contract: sqrt", "sqrt contract violated by the observed values", case=c.line, detail=detail)
        if t.get("eig") not in ("ok", "na"):
            ctx.stat("lmds:eig-contract-" + t.get("eig", "?"))
            if c.eig == "dense":
                ctx.broken("contract:eig", "contract: eigensolver (residual / orthonormality)",
                           "the dense eigensolver's answer violates its contract: " + t.get("eig", "?"), case=c.line, detail=detail)
        post = t.get("post", "?")
        model = t.get("model")
        if post.startswith("diff") or post == "nonfinite":
            ctx.broken("corr:lmds-post", "correspondence LandmarkMDS: embedding vs lmdsEmbed on the solver's own (V, lambda)",
                       "the returned embedding differs from the model's triangulation (%s)" % post, case=c.line, detail=detail)
        # oracle: distance reproduction
        if "adim" in t:
            adim, ladim = int(t["adim"]), int(t["ladim"])
            hyp = adim <= c.d and ladim == adim and c.eig == "dense"
            dist = t.get("dist", "na")
            if hyp:
                ctx.stat("oracle:distance-hypothesis-holds")
                ctx.stat("oracle:adim%s" % ("=d" if adim == c.d else "<d"))
                if dist.startswith("ok"):
                    ctx.stat("oracle:distance-ok")
                    ctx.stat("oracle:errlog>=%d" % (10 * (int(t.get("errlog", 0)) // 10)))
                else:
                    sig = "lmds:distances:" + ("rank-deficient" if adim < c.d else "full-rank")
                    ctx.fail(sig, "Landmark MDS does not reproduce the pairwise distances of Euclidean data of affine dimension %d "
                             "<= target_dimension %d although the %d landmarks affinely span it (%s%s)"
                             % (adim, c.d, nl, dist, "; a selected eigenvalue of the landmark Gram matrix vanishes"
                                if adim < c.d else ""), case=c.line, detail=detail)
            else:
                ctx.stat("oracle:distance-hypothesis-absent")
        if len(ctx.cov["samples"]) < 5 and c.n <= 6:
            ctx.sample({"case": c.line, "impl": c.io[:400], "verdict": v})
    for (c, kind, fl, fo), gl, gv in zip(gmeta, glines, gver):
        t = fields(gv)
        g = t.get("gram", "?")
        ctx.stat("gram:%s:%s" % (kind, g.split(":")[0]))
        if g == "nonfinite:B" or g == "nonfinite:AB":
            ctx.stat("gram:mds-reference-nonfinite(skipped)")
            continue
        if g.startswith("bad") or g.startswith("nonfinite"):
            # a selected eigenvalue of the reference MDS problem that vanishes makes the MDS embedding itself a matter of
            # rounding noise (sqrt of -1e-17 = NaN, of +1e-17 = 3e-9): not a landmark question (C05 covers plain MDS)
            rc, cls, _ = ctx.run_model("model_c11", ["negdom neg=%s lamd=%s norm=%s" % (
                fields(fo)["neg"], fields(fo)["lamd"], fields(fo)["norm"])])
            if cls and fields(cls[0]).get("rankdef") == "1":
                ctx.stat("gram:selected-eigenvalue-vanishes(skipped)")
                continue
            lam_nonpos = any(x.startswith("-") or x == "0" or x == "nan" for x in c.o.get("lam", "").split(","))
            if kind == "sub":
                ctx.fail("lmds:landmark-rows" + (":nonpositive-eigenvalue" if lam_nonpos else ""),
                         "the landmark rows of Landmark MDS are not an MDS embedding of the landmark subset (Gram %s)" % g,
                         case=c.line, detail={"impl": c.io[:2500], "mds": fo[:2500], "verdict": gv})
            else:
                ctx.fail("lmds:ratio-one" + (":nonpositive-eigenvalue" if lam_nonpos else ""),
                         "Landmark MDS with every sample a landmark differs from MDS (Gram %s)" % g,
                         case=c.line, detail={"impl": c.io[:2500], "mds": fo[:2500], "verdict": gv})


def geodesics_differ(G, ref):
    """None, or (a, j, value, reference value) of the first entry of the landmark geodesics that is not the entry of
    the full geodesic matrix (exact rationals; 2^-40 relative)"""
    if ref == "same" or ref == G:
        return None
    for a, (ra, rb) in enumerate(zip(G.split(";"), ref.split(";"))):
        for j, (x, y) in enumerate(zip(ra.split(","), rb.split(","))):
            if x == y:
                continue
            if re.fullmatch(r"nan|inf|-inf|dblmax", x) or re.fullmatch(r"nan|inf|-inf|dblmax", y):
                return (a, j, x, y)
            p, q = parse_exact(x), parse_exact(y)
            if abs(p - q) > Fraction(1, 2 ** 40) * max(abs(p), abs(q)):
                return (a, j, x, y)
    return None


class LisoCase:
    def __init__(self, n, d, ratio, k, pts=None, dist=None, seed=None, exact=False, eig="dense", label="", ids=(None, None)):
        self.n, self.d, self.ratio, self.k, self.pts, self.dist = n, d, ratio, k, pts, dist
        self.seed, self.exact, self.eig, self.label = seed, exact, eig, label
        self.line = api_line("lisomap", n, d, ratio=ratio, k=k, eig=eig, seed=seed, pts=pts, dist=dist,
                             sel=ids[0], alldata=ids[1])


def judge_lisomap(run, cases):
    ctx = run.ctx
    impl = run.impl([c.line for c in cases])
    chk, clines, follow, flines = [], [], [], []
    for c, io in zip(cases, impl):
        c.io, c.o = io, fields(io)
        o = c.o
        ctx.cov["traces_validated_against_impl"] += 1
        ctx.stat("lisomap:" + c.label)
        stat_range(ctx, c.line)
        ctx.count(c.line, True)
        if io.startswith("abort:"):
            ctx.stat("lisomap:abort")
            report_abort(run, c, "lisomap", "Landmark Isomap")
            continue
        if foreign_id(ctx, c, "lisomap", "Landmark Isomap"):
            continue
        o = c.o
        if "exc" in o and o["exc"].startswith("eigendecomposition_failed"):
            ctx.stat("lisomap:eigendecomposition_error(documented)")
            continue
        if "exc" in o and rejected_dimension(run, c):
            ctx.stat("lisomap:d>n_l-rejected-by-validation(documented)")
            continue
        if "exc" in o:
            ctx.stat("lisomap:exception")
            ctx.fail("lisomap:exception", "Landmark Isomap throws on a valid configuration: " + o["exc"],
                     case=c.line, detail=io[:600])
            continue
        c.lm = [int(x) for x in o["lm"].split(",")] if o.get("lm", "-") != "-" else []
        # the geodesic stage is taken from the implementation: the landmark overload must agree with the rows of the
        # non-landmark overload on the same graph (same algorithm from the same sources; 2^-40 relative where the texts differ)
        gd = geodesics_differ(o["G"], o.get("Gref", "same"))
        ctx.stat("lisomap:landmark-geodesics-vs-full:" + ("differ" if gd else "same" if o.get("Gref") == "same" else "close"))
        if gd:
            ctx.broken("corr:lisomap-geodesics", "assumption: the landmark Dijkstra overload returns the landmark rows of the geodesic matrix",
                       "landmark geodesic (%d, %d) = %s, but the non-landmark overload has %s in row lm[%d] on the same graph"
                       % (gd[0], gd[1], gd[2], gd[3], gd[0]), case=c.line, detail=c.io[:2500])
        if "dblmax" in o.get("G", ""):
            ctx.stat("lisomap:disconnected-skipped")
            continue
        if nonfinite_solver_answer(ctx, c, o, "lisomap"):
            continue
        cl = "chk kind=lisomap n=%d d=%d lm=%s dense=%d G=%s B=%s V=%s lam=%s q=%s Y=%s" % (
            c.n, c.d, show_idx(c.lm), 1 if c.eig == "dense" else 0, o["G"], o["B"], o["V"], o["lam"], o["q"], o["Y"])
        chk.append(c)
        clines.append(cl)
        if len(c.lm) == c.n and c.eig == "dense":
            follow.append(c)
            flines.append(api_line("isomap", c.n, c.d, k=c.k, pts=c.pts, dist=c.dist))
    verdicts = run.model(clines) if clines else []
    if verdicts is None:
        return
    for c, cl, v in zip(chk, clines, verdicts):
        t = fields(v)
        detail = {"impl": c.io[:3000], "model_verdict": v}
        if v.startswith("bad-case"):
            ctx.broken("model-driver:chk", "model_c11 chk", "driver could not read the observation: " + v, case=c.line)
            continue
        if t.get("model") == "ERR:oob":
            ctx.broken("corr:lisomap-oob", "correspondence LandmarkIsomap (d > n_landmarks: model reaches oob, implementation does not abort)",
                       "model reaches the out-of-bounds state, implementation returned a result", case=c.line, detail=detail)
            continue
        pre = t.get("pre", "?")
        ctx.stat("cmp:exact" if c.exact else "cmp:approx")
        if pre.startswith("diff") or pre.startswith("bad") or (c.exact and pre != "eq"):
            ctx.broken("corr:lisomap-pre", "correspondence LandmarkIsomap: matrix handed to the eigensolver vs lisomapPre",
                       "the matrix Landmark Isomap hands to the eigensolver differs from the model (%s)" % pre,
                       case=c.line, detail=detail)
        c.verdict = t
        if t.get("root") != "ok":
            ctx.stat("lisomap:root-contract-bad")
            ctx.broken("contract:fourth-root", "contract: sqrt(sqrt(lambda))",
                       "the fourth-root contract q^4 = lambda is violated by the observed values", case=c.line, detail=detail)
        if c.eig == "dense" and t.get("eig") != "eig=ok" and t.get("eig") not in ("ok", "na"):
            ctx.stat("lisomap:eig-contract-" + str(t.get("eig")))
            ctx.broken("contract:eig", "contract: eigensolver (residual / orthonormality) on B*B^T",
                       "the dense eigensolver's answer for Landmark Isomap violates its contract: %s" % t.get("eig"),
                       case=c.line, detail=detail)
        if c.eig == "dense":
            # oracle on the output, independent of the solver's eigenvectors
            if t.get("svd", "ok").startswith("bad"):
                ctx.fail("lisomap:svd-embedding", "Landmark Isomap's result is not the scaled singular directions of the centred "
                         "squared landmark geodesics (%s)" % t.get("svd"), case=c.line, detail=detail)
            if t.get("top") == "bad":
                ctx.fail("lisomap:not-top-d", "Landmark Isomap's eigenvalues are not the d largest of B*B^T (trace test)",
                         case=c.line, detail=detail)
        post = t.get("post", "?")
        if t.get("model") == "ok" and (post.startswith("diff") or post == "nonfinite"):
            ctx.broken("corr:lisomap-post", "correspondence LandmarkIsomap: embedding vs lisomapPost on the solver's own (V, lambda)",
                       "the returned embedding differs from the model (%s)" % post, case=c.line, detail=detail)
        if len(ctx.cov["samples"]) < 6 and c.n <= 8:
            ctx.sample({"case": c.line, "impl": c.io[:300], "verdict": v})
    fimpl = run.impl(flines) if flines else []
    glines, gmeta = [], []
    run.ratio_one_total = getattr(run, "ratio_one_total", 0) + len(follow)
    for c, fl, fo in zip(follow, flines, fimpl):
        f = fields(fo)
        if fo.startswith("abort:") or "Y" not in f or "dblmax" in f.get("G", ""):
            ctx.stat("isomap-reference-unavailable")
            continue
        glines.append("gram A=%s B=%s gap=%s norm=%s" % (c.o["Y"], f["Y"], f["gap"], f["norm"]))
        gmeta.append((c, fl, fo, f))
    gver = run.model(glines) if glines else []
    if gver is None:
        return
    for (c, fl, fo, f), gv in zip(gmeta, gver):
        g = fields(gv).get("gram", "?")
        ctx.stat("gram:lisomap-ratio1:" + g.split(":")[0])
        if g.startswith("ok"):
            run.ratio_one_ok = getattr(run, "ratio_one_ok", 0) + 1
        if g == "nonfinite:B" or g == "nonfinite:AB":
            ctx.stat("gram:isomap-reference-nonfinite(skipped)")
            continue
        if g.startswith("bad") or g.startswith("nonfinite"):
            G = [r.split(",") for r in f["G"].split(";")]
            sym = all(G[i][j] == G[j][i] for i in range(len(G)) for j in range(len(G)))
            # classification from the spectrum of the matrix Isomap decomposed (diagnostic values printed by the harness)
            rc, cls, _ = ctx.run_model("model_c11", ["negdom neg=%s lamd=%s norm=%s" % (f["neg"], f["lamd"], f["norm"])])
            cf = fields(cls[0]) if cls else {}
            negdom, rankdef = cf.get("negdom") == "1", cf.get("rankdef") == "1"
            # witness class of the two OPEN findings: the output IS what the model of Landmark Isomap prescribes for the
            # observed one-directional geodesics (solver input, post-processing, SVD-level oracle, top-d all fine) and
            # differs from Isomap only because of (a) a dominating negative eigenvalue / (b) asymmetric geodesics.
            # Anything else keeps a different signature and is reported.
            v = getattr(c, "verdict", {})
            consistent = (v.get("model") == "ok" and not v.get("pre", "?").startswith(("diff", "bad"))
                          and v.get("post") in ("eq", "close") and v.get("svd") == "ok" and v.get("top") == "ok"
                          and v.get("eig") == "ok" and v.get("root") == "ok")
            sig = "lisomap:ratio-one" + ("" if sym else ":asymmetric-geodesics") + \
                  (":negative-eigenvalue-dominates" if negdom else ":rank-deficient" if rankdef else "") + \
                  ("" if consistent else ":output-inconsistent-with-model")
            ctx.fail(sig, "Landmark Isomap with every sample a landmark differs from Isomap (Gram %s)%s%s%s" % (
                g, "" if sym else "; the k-NN geodesics are asymmetric",
                "; the centred geodesic matrix has a negative eigenvalue larger in magnitude than its d-th positive one" if negdom else "",
                "; the d-th eigenvalue of the centred geodesic matrix vanishes and Landmark Isomap divides by its fourth root" if rankdef and not negdom else ""),
                case=c.line, detail={"impl": c.io[:2500], "isomap": fo[:2500], "verdict": gv})


# ----------------------------------------------------------------------------- case families
def lmds_cases(r, quick):
    cases = []
    # (1) exact mode: integer "distances" (also asymmetric callbacks), N and n_l powers of two
    for _ in range(40 if quick else 1000):
        n, nl = r.choice([(4, 4), (8, 4), (8, 8), (16, 4), (16, 8), (16, 16), (32, 8)])
        d = r.range(1, min(5, nl - 1))
        sym = r.chance(3, 4)
        dist = [[0] * n for _ in range(n)]
        for i in range(n):
            for j in range(i + 1, n):
                dist[i][j] = r.range(1, 7)
                dist[j][i] = dist[i][j] if sym else r.range(1, 7)
        u = r.choice(UNITS)
        cases.append(LmdsCase(n, d, "%d/%d" % (nl, n), dist=scaled(dist, u), seed=r.below(2 ** 31), exact=True,
                              label="exact-int", ids=id_range(r, n, dist, u)))
    # (2) Euclidean integer points: rank == d (hypothesis of the distance oracle), rank < d, rank > d
    for _ in range(120 if quick else 4500):
        d = r.range(1, 5)
        kind = r.below(10)
        rank = d if kind < 6 else (r.range(1, d - 1) if kind < 8 and d > 1 else r.range(d, d + 2))
        D = r.range(rank, rank + 2)
        n = r.range(max(d + 2, 4), 14 if quick else 28)
        pts = int_points(r, n, D, rank, 3)
        lo = max(3, min(n, rank + 1 + r.below(3)))
        nl = r.range(lo, n) if r.chance(3, 4) else n
        if nl < d:           # d > n_l has its own family
            nl = min(n, d)
        u = r.choice(UNITS)
        cases.append(LmdsCase(n, d, ratio_for(nl, n), pts=scaled(pts, u), seed=r.below(2 ** 31),
                              label="euclid-rank%s" % ("=d" if rank == d else "<d" if rank < d else ">d"),
                              ids=id_range(r, n, pts, u, points=True)))
    # (3) ratio = 1
    for _ in range(25 if quick else 900):
        d = r.range(1, 4)
        n = r.range(d + 2, 12)
        rank = r.range(d, d + 2)
        pts = int_points(r, n, rank + r.below(2), rank, 3)
        u = r.choice(UNITS)
        cases.append(LmdsCase(n, d, "1", pts=scaled(pts, u), seed=r.below(2 ** 31), label="ratio-one",
                              ids=id_range(r, n, pts, u, points=True)))
    # (4) d > n_landmarks (validated: d < N and ratio >= 3/N)
    for _ in range(4 if quick else 20):
        n = r.range(6, 12)
        nl = r.range(3, 4)
        d = r.range(nl + 1, min(5, n - 1)) if nl + 1 <= min(5, n - 1) else nl + 1
        pts = int_points(r, n, 3, 3, 3)
        cases.append(LmdsCase(n, d, ratio_for(nl, n), pts=pts, seed=r.below(2 ** 31), label="d>n_l",
                              ids=id_range(r, n, pts, 0, points=True)))
    # (5) randomized solver (configurations): correspondence only
    for _ in range(10 if quick else 300):
        d = r.range(1, 3)
        n = r.range(d + 3, 12)
        pts = int_points(r, n, d + 1, d, 3)
        nl = r.range(max(3, d + 1), n)
        u = r.choice(UNITS)
        cases.append(LmdsCase(n, d, ratio_for(nl, n), pts=scaled(pts, u), seed=r.below(2 ** 31), eig="randomized",
                              label="randomized", ids=id_range(r, n, pts, u, points=True)))
    return cases


def lmds_exhaustive(r, quick):
    """every landmark subset of a small low-rank data set (ordered prefixes of the shuffle for the smallest sizes)"""
    cases = []
    plan = [(5, 2, "ordered"), (6, 2, "sets"), (7, 2, "sets"), (6, 1, "sets")] if quick else \
           [(5, 2, "ordered"), (5, 1, "ordered"), (5, 3, "ordered"), (6, 2, "ordered"), (6, 3, "sets"), (6, 1, "sets"),
            (7, 2, "ordered34"), (7, 3, "sets"), (7, 1, "sets"), (7, 4, "sets"), (7, 2, "sets")]
    for n, d, mode in plan:
        raw, u = int_points(r, n, d + r.below(2), d, 3), r.choice(UNITS)
        pts = scaled(raw, u)
        for nl in range(3, n + 1):
            if mode == "ordered" or (mode == "ordered34" and nl <= 4):
                subs = itertools.permutations(range(n), nl)
            else:
                subs = (r.shuffle(list(s)) for s in itertools.combinations(range(n), nl))
            for s in subs:
                cases.append(LmdsCase(n, d, ratio_for(nl, n), pts=pts, lmwant=list(s), label="exhaustive-n%d" % n,
                                      ids=id_range(r, n, raw, u, points=True)))
    return cases


def lisomap_cases(r, quick):
    cases = []
    # exact mode: L1 metric on integer points (geodesics are integers), N and n_l powers of two
    for _ in range(30 if quick else 800):
        n, nl = r.choice([(8, 4), (8, 8), (16, 4), (16, 8), (16, 16)])
        D = r.range(1, 2)
        pts = int_points(r, n, D, D, 2)
        dist = [[l1(p, q) for q in pts] for p in pts]
        d = r.range(1, D) if nl == n else r.range(1, min(3, nl - 1))      # ratio = 1 is compared with Isomap: d <= D
        k = r.range(3, n - 1)
        u = r.choice(UNITS)
        cases.append(LisoCase(n, d, "%d/%d" % (nl, n), k, dist=scaled(dist, u), seed=r.below(2 ** 31), exact=True,
                              eig=("dense" if r.chance(3, 4) else "randomized"), label="exact-L1", ids=id_range(r, n, dist, u)))
    # Euclidean / L1 metrics, approx mode, including ratio = 1 (compared with Isomap)
    for _ in range(60 if quick else 2000):
        n = r.range(6, 14 if quick else 24)
        D = r.range(1, 3)
        pts = int_points(r, n, D, D, 3)
        one = r.chance(1, 2)
        # ratio = 1 is compared with Isomap: d <= D keeps the d-th eigenvalue away from the structural zeros
        d = r.range(1, D) if one else r.range(1, 3)
        nl = n if one else r.range(max(3, d + 1), n)
        full = r.chance(3, 4) if one else r.chance(1, 2)   # complete neighbourhood graph: geodesic = the metric itself (symmetric)
        k = n - 1 if full else r.range(3, n - 1)
        label = ("ratio-one" if one else "sub") + ("-complete" if full else "-knn")
        u = r.choice(UNITS)
        if r.chance(1, 4 if one else 3):
            dist = [[l1(p, q) for q in pts] for p in pts]      # a metric that is not Euclidean: indefinite centred matrix
            cases.append(LisoCase(n, d, ratio_for(nl, n), k, dist=scaled(dist, u), seed=r.below(2 ** 31), label=label + "-L1",
                                  ids=id_range(r, n, dist, u)))
        else:
            cases.append(LisoCase(n, d, ratio_for(nl, n), k, pts=scaled(pts, u), seed=r.below(2 ** 31), label=label + "-euclid",
                                  ids=id_range(r, n, pts, u, points=True)))
    for _ in range(3 if quick else 12):
        n = r.range(7, 12)
        nl = 3
        d = r.range(4, min(5, n - 1))
        pts = int_points(r, n, 2, 2, 3)
        cases.append(LisoCase(n, d, ratio_for(nl, n), n - 1, pts=pts, seed=r.below(2 ** 31), label="d>n_l",
                              ids=id_range(r, n, pts, 0, points=True)))
    return cases


def sweep(run, quick):
    ctx = run.ctx
    hi_model = 200000 if quick else 1000000
    sweep_hi = 1000000
    out = run.impl(["sweep num=3 lo=1 hi=%d" % sweep_hi])
    mo = run.model(["sweep num=3 lo=1 hi=%d" % hi_model])
    if mo is None or not out or out[0].startswith("abort"):
        ctx.broken("corr:sweep", "sweep", "sweep did not run: %s" % (out[:1],))
        return
    bad = [] if fields(out[0])["bad"] == "-" else [tuple(int(x) for x in t.split(":")) for t in fields(out[0])["bad"].split(",")]
    mf = fields(mo[0])
    mbad = [] if mf["bad"] == "-" else [tuple(int(x) for x in t.split(":")) for t in mf["bad"].split(",")]
    ctx.count("sweep", True)                      # one evaluation; the swept N are reported under double_product_sweep
    sub = [b for b in bad if b[0] <= hi_model]
    if sub != mbad:
        diff = sorted(set(sub) ^ set(mbad))[:5]
        ctx.broken("corr:sweep", "correspondence: static_cast<IndexType>(N * (3.0/N)) vs landmarkCountFl (rne53 model of the double product)",
                   "the compiled count expression and its model disagree at N = %s" % (diff,), case="sweep num=3 lo=1 hi=%d" % hi_model)
    # confirm listed N (and a stride sample) on the real function
    confirm = [b[0] for b in bad[:40]] + [b[0] for b in bad[-5:]] + list(range(3, 400))
    lines = ["sel n=%d ratio=3/%d seed=1" % (n, n) for n in confirm]
    res = run.impl(lines)
    table = dict(bad)
    wrong = [(n, fields(o).get("count")) for n, o in zip(confirm, res) if fields(o).get("count") != str(table.get(n, 3))]
    if wrong:
        ctx.broken("corr:sweep-real", "sweep expression vs select_landmarks_random",
                   "the swept expression does not describe the real function at N=%s" % (wrong[:3],), case=lines[0])
    for ln in lines:
        ctx.count(ln, True)
    ctx.extra["double_product_sweep"] = {
        "what": "ratio = 3.0/N (smallest ratio validate() accepts): number of landmarks the compiled count expression selects",
        "N_values_swept_by_harness_this_run": sweep_hi,
        "N_values_swept_by_lean_model_this_run": hi_model,
        "N_with_fewer_than_3_landmarks": len(bad), "first": [b[0] for b in bad[:12]],
        "model_rne53_agrees_up_to": hi_model,
        "exact_floor_of_N_times_double_ratio_differs_from_3": mf.get("exactbad"),
        "confirmed_on_real_function": len(confirm) - len(wrong),
    }
    ctx.stat("sweep:N-with-2-landmarks-at-ratio-3/N", len(bad))


def full_api(run, cases):
    """both tiers (a sample in quick, 250 in thorough): the same cases through tapkee::with(..).withDistance(..).embedRange(..) (all 20 methods instantiated,
    embed.hpp front end) must print exactly what the light harness prints"""
    ctx = run.ctx
    binary, log = build_full(ctx)
    if not binary:
        ctx.broken("harness-build-full", "harness c11_landmarks.cpp -DC11_FULL_API",
                   "full-API harness does not compile against the repository: " + log[-1200:])
        return
    # (the randomized solver is left out: on rank-deficient input it normalises a zero column and what comes out of the
    # NaNs differs between translation units — C05's F-RAND-RANKDEF)
    lines = [c.line for c in cases if c.eig == "dense"]
    light = run.impl(lines)
    full = Run(ctx, binary).impl(lines)
    diff = [(l, a, b) for l, a, b in zip(lines, light, full) if a != b and not (a.startswith("abort:") and b.startswith("abort:"))]
    ctx.extra["full_public_api_cases"] = {"compared": len(lines), "different": len(diff)}
    ctx.stat("full-api:identical", len(lines) - len(diff))
    ctx.stat("full-api:non-identity-range", sum(1 for l in lines if " sel=" in l))
    if diff:
        l, a, b = diff[0]
        ctx.broken("corr:full-api", "correspondence: method classes driven directly vs tapkee::with(...).embedRange(...)",
                   "the public API chain returns something else than validate()+embed() of the method class",
                   case=l, detail={"light": a[:1500], "full": b[:1500]})


# ----------------------------------------------------------------------------- entry points
FULL_FLAGS = [("-g1" if f == "-g" else f) for f in FLAGS]


def build_full(ctx):
    """the same harness through tapkee::with(..).withDistance(..).embedRange(..) (all 20 methods; -O0 -g1, cached)"""
    return ctx.build_harness("c11_landmarks.cpp", name="c11_landmarks_full", flags=FULL_FLAGS, extra=["-DC11_FULL_API"])


def build(ctx):
    # both builds at once (the full-chain one takes about twice as long; both are cached by content hash)
    t = threading.Thread(target=lambda: build_full(ctx))
    t.start()
    try:
        return build_light(ctx)
    finally:
        t.join()


def build_light(ctx):
    binary, log = ctx.build_harness("c11_landmarks.cpp", flags=FLAGS)
    if not binary:
        ctx.broken("harness-build", "harness c11_landmarks.cpp", "harness does not compile against the repository: " + log[-1200:])
    return binary


def corpus_lines():
    cdir = os.path.join(vlib.ROOT, "corpus", "C11")
    out = []
    if os.path.isdir(cdir):
        for f in sorted(os.listdir(cdir)):
            for l in open(os.path.join(cdir, f)):
                l = l.strip()
                if l and not l.startswith("#"):
                    out.append(l)
    return out


def case_from_line(line):
    f = fields(line)
    pts = [[x for x in r.split(",")] for r in f["pts"].split(";")] if "pts" in f else None
    dist = [[x for x in r.split(",")] for r in f["dist"].split(";")] if "dist" in f else None
    lmwant = [int(x) for x in f["lmwant"].split(",")] if "lmwant" in f else None
    seed = int(f["seed"]) if "seed" in f else None
    ids = ([int(x) for x in f["sel"].split(",")], f.get("alldata", "nan")) if "sel" in f else (None, None)
    if f["method"] == "lmds":
        return LmdsCase(int(f["n"]), int(f["d"]), f["ratio"], pts=pts, dist=dist, seed=seed, lmwant=lmwant,
                        eig=f.get("eig", "dense"), label="replay", ids=ids)
    return LisoCase(int(f["n"]), int(f["d"]), f["ratio"], int(f.get("k", 5)), pts=pts, dist=dist, seed=seed,
                    eig=f.get("eig", "dense"), label="replay", ids=ids)


def judge_lines(run, lines):
    sel = [l for l in lines if l.startswith("sel ")]
    tri = [(l, False) for l in lines if l.startswith("tri ")]
    lm = [case_from_line(l) for l in lines if l.startswith("api ") and "method=lmds" in l]
    li = [case_from_line(l) for l in lines if l.startswith("api ") and "method=lisomap" in l]
    if sel:
        judge_sel(run, sel)
    if tri:
        judge_tri(run, tri)
    if lm:
        judge_lmds(run, lm)
    if li:
        judge_lisomap(run, li)


def unmask_known(ctx):
    """vlib.finish drops every `broken` report as soon as ANY failing input exists, including inputs that match an
    open KNOWN_FINDINGS entry; an open finding must not hide a broken correspondence, so known hits are announced here
    (same line vlib prints) and taken out of the failure list before finish() runs."""
    known = ctx.known()
    if not known:
        return
    keep = []
    for f in ctx.failures:
        k = [k for k in known if re.fullmatch(k["signature"], f.signature)] if f.kind == "failing-input" else []
        if k:
            if f.signature not in ctx.known_hits:
                print("KNOWN-FINDING: property=%s %s [%s]" % (ctx.prop, k[0].get("what", f.what), f.signature))
                ctx.known_hits.append(f.signature)
        else:
            keep.append(f)
    ctx.failures = keep


def replay_case(ctx, body):
    binary = build(ctx)
    if binary:
        judge_lines(Run(ctx, binary), [body["case"]])


def correspond(ctx):
    binary = build(ctx)
    if not binary:
        return
    run = Run(ctx, binary)
    quick = ctx.tier == "quick"
    r = ctx.rng
    corpus = corpus_lines()
    if corpus:
        judge_lines(run, corpus)
    judge_sel(run, gen_sel(r.fork(), quick))
    ctx.log("sel done")
    judge_tri(run, gen_tri(r.fork(), quick))
    ctx.log("tri done")
    sweep(run, quick)
    ctx.log("sweep done")
    cases = lmds_cases(r.fork(), quick)
    for i in range(0, len(cases), 200):
        judge_lmds(run, cases[i:i + 200])
    ctx.log("lmds done")
    ex = lmds_exhaustive(r.fork(), quick)
    for i in range(0, len(ex), 400):
        judge_lmds(run, ex[i:i + 400])
    ctx.extra["exhaustive_landmark_subsets"] = len(ex)
    ctx.log("lmds exhaustive done (%d)" % len(ex))
    lis = lisomap_cases(r.fork(), quick)
    for i in range(0, len(lis), 200):
        judge_lisomap(run, lis[i:i + 200])
    ctx.log("lisomap done")
    tot, okc = getattr(run, "ratio_one_total", 0), getattr(run, "ratio_one_ok", 0)
    ctx.extra["lisomap_ratio_one_judged"] = {"comparisons": tot, "judged_equal_to_isomap": okc}
    if tot >= 20 and 2 * okc < tot:
        ctx.broken("coverage:lisomap-ratio-one", "coverage obligation: at least half of the ratio-one Landmark Isomap comparisons are judged",
                   "only %d of %d ratio-one Landmark Isomap cases were judged equal to Isomap (the rest skipped as degenerate or "
                   "attributed to the open findings): the clause is not exercised enough" % (okc, tot))
    # the real public chain: a few cases of every family in quick, 250 in thorough
    if quick:
        by_label = {}
        for c in cases + ex[:40] + lis:
            by_label.setdefault(type(c).__name__ + c.label + (":ids" if " sel=" in c.line else ""), []).append(c)
        sample = [c for l in sorted(by_label) for c in by_label[l][:2]]
        full_api(run, sample + [case_from_line(l) for l in corpus if l.startswith("api ")])
    else:
        full_api(run, cases[:150] + lis[:100])
    ctx.log("full public API build compared")
    ctx.cov["rule"] = ("select: N 1..%d, boundary ratios 3/N, k/N, dyadic, 1, 0; triangulate: exact-mode (integer callback values, "
                       "dyadic V, power-of-two eigenvalues, repeated landmarks, zero eigenvalue); Landmark MDS / Landmark Isomap "
                       "through the method classes: exact-mode integer metrics with N, n_l powers of two (== required), Euclidean "
                       "integer points of affine rank <, =, > d, every landmark subset of small sets via seed search, ratio = 1, "
                       "d > n_l, randomized solver; non-trivial = at least 2 landmarks / N > 3; distinct by case text"
                       % (400 if quick else 3000))
    unmask_known(ctx)
    ctx.assumptions += [
        "the geodesic stage of Landmark Isomap (k-NN + Dijkstra) is taken from the implementation (C04 covers it); C11 ties everything after it",
        "eigensolver, sqrt and the shuffle enter as contracts checked on the observed values (residual/orthonormality 2^-30, sqrt 2^-40, permutation)",
        "approx-mode comparisons use 2^-30 relative tolerance on values the model computes exactly from the implementation's own (V, lambda, sqrt)",
        "Gram-level comparisons are skipped (counted as degenerate) when the spectral gap at d is below 2^-20 of the norm",
        "most cases drive validate()+embed() of the four method classes through a copy of tapkee::embed's body (compile time); a sample of every family (quick) / 250 cases (thorough) also goes through the real tapkee::with(...).embedRange chain and must print identical lines",
        "landmark count oracle: 'integer part of landmark_ratio*N' is read as the truncated IEEE double product of the double ratio and N (computed independently in Python); disagreements with the exact-arithmetic floor are counted (sel:double-product-differs-from-exact-floor)",
    ]
