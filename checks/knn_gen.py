"""Exact-mode case generators shared by checks/c02.py and checks/c03.py (DESIGN §3, §6 C02/C03).

A case is a dict of line-protocol fields.  Sample sets are given either as integer points (`pts`, metric L1 / Linf,
optional `sh=e`: coordinates are multiplied by 2^-e on the C++ side => dyadic data, order-isomorphic to the integers the
model uses), as a precomputed integer metric (`m`), or as an integer kernel (`kern=lin` on `pts`, or `km`) whose induced
squared distances are perfect squares, so that every double the real code computes is exact."""


# ----------------------------------------------------------------------------- case <-> line
ORDER = ["method", "k", "check", "cb", "metric", "kern", "sh", "pts", "m", "km", "vs", "rng", "dump", "dv"]


def case_line(topic, c):
    toks = [topic]
    for key in ORDER:
        if key in c and c[key] is not None:
            v = c[key]
            if key in ("pts", "m", "km"):
                v = ";".join(",".join(str(x) for x in row) for row in v)
            elif key in ("vs", "rng"):
                v = ",".join(str(x) for x in v)
            toks.append("%s=%s" % (key, v))
    return " ".join(toks)


def parse_line(line):
    toks = line.split()
    c = {}
    for t in toks[1:]:
        k, v = t.split("=", 1)
        if k in ("pts", "m", "km"):
            v = [[int(x) for x in row.split(",") if x != ""] for row in v.split(";")]
        elif k in ("vs", "rng"):
            v = [int(x) for x in v.split(",") if x != ""]
        elif k in ("k", "sh"):
            v = int(v)
        c[k] = v
    return toks[0], c


def size(c):
    for key in ("pts", "m", "km"):
        if key in c:
            return len(c[key])
    return 0


def subset(c, idx):
    """the same case restricted to the samples idx (in that order)"""
    d = dict(c)
    if "pts" in c:
        d["pts"] = [c["pts"][i] for i in idx]
    for key in ("m", "km"):
        if key in c:
            d[key] = [[c[key][i][j] for j in idx] for i in idx]
    if c.get("rng"):
        d["rng"] = [c["rng"][i] for i in idx]
    return d


# ----------------------------------------------------------------------------- iterator ranges (element != position)
def range_kind(c):
    """identity | disjoint (every element >= N: no position is an element) | interleaved"""
    ids = c.get("rng")
    if not ids:
        return "identity"
    return "disjoint" if min(ids) >= len(ids) else "interleaved"


def with_range(c):
    """About half of all cases get `rng=`: the range handed to tapkee is data[p] = rng[p] (distinct non-negative ints,
    a shuffled subset of a larger id space) instead of 0..N-1, so that an element (*iter, the sample id) and its position
    differ — code that passes a loop position where the element is meant reaches the harness callbacks with an id that is
    not in the range (`foreign=`).  Half of those take all ids >= N (every position is a foreign id), the others
    interleave with the positions.  Deterministic: SplitMix64 seeded by the case text (which derives from ctx.rng).
    The neighbour lists are positions either way: nothing changes on the model side."""
    if "rng" in c or c.get("_norng"):
        return c
    import hashlib
    import vlib
    n = size(c)
    if n < 1:
        return c
    text = case_line("x", {k: v for k, v in c.items() if not k.startswith("_")})
    r = vlib.SplitMix64(int.from_bytes(hashlib.sha256(text.encode()).digest()[:8], "big"))
    kind = r.below(4)
    if kind < 2:
        return c
    d = dict(c)
    if kind == 2:
        space = list(range(n, 3 * n + 7))
    else:
        space = list(range(0, 2 * n + 5))
    d["rng"] = r.shuffle(space)[:n]
    if kind == 3 and d["rng"] == list(range(n)):
        d["rng"] = d["rng"][::-1] if n > 1 else [1]
    return d


# ----------------------------------------------------------------------------- point sets
def pts_lattice(r, n):
    d = r.choice([1, 1, 2, 2, 2, 3])
    side = r.choice([2, 3, 4, 5, 8])
    return [[r.below(side) for _ in range(d)] for _ in range(n)]


def pts_grid(r, n):
    """a full a x b grid (n is ignored beyond an upper bound)"""
    a = r.range(2, 8)
    b = r.range(1, max(1, min(8, n // a)))
    pts = [[x, y] for x in range(a) for y in range(b)]
    return r.shuffle(pts) if r.chance(1, 2) else pts


def pts_dups(r, n):
    d = r.choice([1, 2, 3])
    ndist = r.range(1, max(1, n // 2))
    base = [[r.below(6) for _ in range(d)] for _ in range(ndist)]
    pts = [list(r.choice(base)) for _ in range(n)]
    return pts


def pts_clustered(r, n):
    d = r.choice([1, 2, 3])
    nc = r.range(2, 4)
    centres = [[r.below(5) * 1000000 for _ in range(d)] for _ in range(nc)]
    spreads = [r.choice([1, 2, 5, 1000]) for _ in range(nc)]
    pts = []
    for _ in range(n):
        c = r.below(nc) if r.chance(9, 10) else 0
        pts.append([centres[c][t] + r.below(spreads[c] + 1) for t in range(d)])
    return pts


def pts_generic(r, n):
    d = r.choice([1, 2, 3, 5, 10, 50])
    return [[r.below(1 << 20) for _ in range(d)] for _ in range(n)]


def pts_line(r, n):
    """collinear integer points t*(3,4): all Euclidean distances are integers (5|t-s|) -> exact linear kernel"""
    if r.chance(1, 2):
        return [[r.below(3 * n)] for _ in range(n)]
    return [[3 * t, 4 * t] for t in (r.below(3 * n) for _ in range(n))]


# ----------------------------------------------------------------------------- precomputed metrics
def metric_tree(r, n):
    """shortest-path metric of a random weighted tree (lots of equal distances for small weights)"""
    w = r.choice([1, 2, 3, 10])
    parent = [0] * n
    wt = [0] * n
    for v in range(1, n):
        parent[v] = r.below(v)
        wt[v] = 1 + r.below(w)
    depth = [0] * n
    anc = [[0]] + [None] * (n - 1)
    for v in range(1, n):
        anc[v] = anc[parent[v]] + [v]
        depth[v] = depth[parent[v]] + wt[v]
    m = [[0] * n for _ in range(n)]
    for a in range(n):
        for b in range(a + 1, n):
            pa, pb = anc[a], anc[b]
            i = 0
            while i < len(pa) and i < len(pb) and pa[i] == pb[i]:
                i += 1
            l = pa[i - 1]
            m[a][b] = m[b][a] = depth[a] + depth[b] - 2 * depth[l]
    return m


def metric_path(r, n):
    pos = [0]
    for _ in range(n - 1):
        pos.append(pos[-1] + r.below(3))
    pos = r.shuffle(pos)
    return [[abs(a - b) for b in pos] for a in pos]


def metric_ultra(r, n, levels=None, even=False):
    """ultrametric from a random hierarchy: d(i,j) = value of the highest level at which the codes differ.
    Ultrametrics embed isometrically in Euclidean space, so the derived kernel is positive semi-definite."""
    depth = r.range(1, 5)
    if levels is None:
        levels = sorted({(2 if even else 1) * (1 + r.below(8)) for _ in range(depth)})
    depth = len(levels)
    codes = [[r.below(2 + r.below(2)) for _ in range(depth)] for _ in range(n)]
    m = [[0] * n for _ in range(n)]
    for a in range(n):
        for b in range(n):
            d = 0
            for t in range(depth):  # level 0 = top = largest distance
                if codes[a][t] != codes[b][t]:
                    d = levels[depth - 1 - t]
                    break
            m[a][b] = d
    return m


def metric_wide(r, n):
    """ultrametric whose distances are powers of two spanning up to 2^60 (wide dynamic range, still exact)"""
    top = r.choice([20, 36, 44, 52, 60])
    nl = r.range(2, 6)
    levels = sorted({1 << r.below(top + 1) for _ in range(nl)} | {1, 1 << top})
    return metric_ultra(r, n, levels=levels)


def kernel_of_metric(m):
    """integer kernel with k(i,i) - 2k(i,j) + k(j,j) = m[i][j]^2 (all m even): k(i,j) = (m[i][0]^2 + m[j][0]^2 - m[i][j]^2)/2"""
    n = len(m)
    return [[(m[i][0] ** 2 + m[j][0] ** 2 - m[i][j] ** 2) // 2 for j in range(n)] for i in range(n)]


def gen_space(r, n, family):
    """returns the callback/metric fields of a case with n samples"""
    c = {}
    if family in ("lattice", "grid", "dups", "clustered", "generic"):
        pts = {"lattice": pts_lattice, "grid": pts_grid, "dups": pts_dups, "clustered": pts_clustered,
               "generic": pts_generic}[family](r, n)
        c["cb"] = "plain"
        c["metric"] = r.choice(["L1", "L1", "Linf"])
        if family == "generic" and r.chance(1, 2):
            c["sh"] = r.choice([4, 10, 20])
        c["pts"] = pts
    elif family in ("tree", "path", "ultra", "wide"):
        c["cb"] = "plain"
        c["metric"] = "matrix"
        c["m"] = {"tree": metric_tree, "path": metric_path, "ultra": metric_ultra, "wide": metric_wide}[family](r, n)
    elif family == "kernel-lin":
        c["cb"] = "kernel"
        c["kern"] = "lin"
        c["pts"] = pts_line(r, n)
        if r.chance(1, 4):
            c["sh"] = r.choice([1, 3])
    elif family == "kernel-ultra":
        c["cb"] = "kernel"
        c["kern"] = "matrix"
        c["km"] = kernel_of_metric(metric_ultra(r, n, even=True))
    elif family == "kernel-path":
        c["cb"] = "kernel"
        c["kern"] = "matrix"
        m = metric_path(r, n)
        c["km"] = kernel_of_metric([[2 * x for x in row] for row in m])
    elif family == "kernel-lin-wide":
        # kernel values with more than 24 significant bits (k(x,x) up to 2^41), still exact in double and with
        # perfect-square induced distances: 1-D coordinates up to 2^20, or collinear (3t, 4t) with t < 2^18
        c["cb"] = "kernel"
        c["kern"] = "lin"
        base = r.choice([0, 1 << 12, 1 << 19])
        if r.chance(1, 2):
            c["pts"] = [[base + r.below(1 << 20)] for _ in range(n)]
        else:
            c["pts"] = [[3 * t, 4 * t] for t in ((base >> 2) + r.below(1 << 18) for _ in range(n))]
    elif family == "kernel-ultra-wide":
        c["cb"] = "kernel"
        c["kern"] = "matrix"
        levels = sorted({2 * (1 + r.below(1 << 19)) for _ in range(r.range(1, 5))})
        c["km"] = kernel_of_metric(metric_ultra(r, n, levels=levels))
    elif family == "wide-mantissa":
        # coordinates 1 + j*2^-30 (and 2^10 + j*2^-30): > 24 significant bits, every difference exact
        c["cb"] = "plain"
        c["metric"] = r.choice(["L1", "Linf"])
        c["sh"] = 30
        d = r.choice([1, 2, 3])
        big = r.choice([1 << 30, 1 << 40])
        spread = r.choice([1 << 6, 1 << 16, 1 << 26])
        c["pts"] = [[big + r.below(spread) for _ in range(d)] for _ in range(n)]
    elif family == "coincident":
        c["cb"] = "plain"
        c["metric"] = "L1"
        c["pts"] = [[3, 1]] * n
    else:
        raise ValueError(family)
    return c


def pts_volume(r, n):
    """tie-free generic data for the high-volume leg: uniform / bell-shaped / heavy-tailed integer coordinates"""
    kind = r.below(5)
    d = r.choice([1, 2, 2, 2, 3])
    if kind <= 1:
        return [[r.below(1 << 20) for _ in range(d)] for _ in range(n)]
    if kind == 2:
        return [[sum(r.below(1 << 18) for _ in range(4)) for _ in range(d)] for _ in range(n)]
    if kind == 3:
        def co():
            e = r.below(20)
            return ((1 << e) + r.below(1 << e)) * (1 if r.chance(1, 2) else -1)
        return [[co() for _ in range(d)] for _ in range(n)]
    centres = [[r.below(1 << 20) for _ in range(d)] for _ in range(r.range(2, 4))]
    spread = [1 << r.range(8, 18) for _ in centres]
    out = []
    for _ in range(n):
        c = r.below(len(centres))
        out.append([centres[c][t] + r.below(spread[c]) for t in range(d)])
    return out


FAMILIES = ["lattice", "grid", "dups", "clustered", "generic", "tree", "path", "ultra", "wide",
            "kernel-lin", "kernel-ultra", "kernel-path", "coincident", "kernel-lin-wide", "kernel-ultra-wide", "wide-mantissa"]


def vantage_stream(r, n):
    kind = r.below(4)
    ln = r.range(1, 8)
    if kind == 0:
        return [0]
    if kind == 1:
        return [(1 << 20) - 1]
    return [r.below(1 << 20) for _ in range(ln)]
