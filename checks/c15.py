"""C15 — OpenMP regions are race-free; results do not depend on the thread count.

(T)  tools/translate_omp.py regenerates lean/TapkeeVerif/Gen/OmpRegions.lean (the access table of every `#pragma omp`
     region) from the working tree; Props/C15.lean proves `disjoint_<region>` over that table and the generic
     schedule-independence theorems over Model/Omp.lean.
(C)  harness/c15_omp.cpp runs EVERY parallel routine in-process with 1, 2, 3, 8, 16 threads, several repetitions each,
     on the same input: results must be bit-identical where iterations own disjoint outputs and agree to 1e-10
     (relative to the largest magnitude of the matrix, decided on exact dyadic values) where only the order of the
     `critical` appends varies; embeddings through the public API are compared at Gram level.  Coded callbacks tie
     the table's write footprints to the running code (which iteration produced which entry).
     A second build with `schedule(runtime)` injected explores other iteration-to-thread assignments
     (OMP_SCHEDULE static,1 / dynamic,1 / guided); thorough adds the Fibonacci-heap configuration, full ASan+UBSan,
     and more inputs everywhere.  A clang++-14 -fsanitize=thread (libomp + Archer) build of the routine harness runs in
     BOTH tiers (quick: every routine once at 8 threads); a report with a tapkee frame is a failure; without libomp /
     libarcher.so the leg is skipped with a recorded reason.
Oracle: results identical across thread counts / schedules / repetitions, as the property states.
"""
import concurrent.futures
import hashlib
import os
import re
import shutil
import sys
from fractions import Fraction

import vlib

sys.path.insert(0, os.path.join(vlib.ROOT, "tools"))

PROPERTY = "C15"
LEAN_MODULES = ["TapkeeVerif.Props.C15", "TapkeeVerif.Gen.OmpRegionProofs"]
LEAN_EXES = ["model_c15"]
REQUIRED_THEOREMS = [
    "TapkeeVerif.Omp.race_free_deterministic",
    "TapkeeVerif.Omp.race_free_deterministic_prog",
    "TapkeeVerif.Omp.triplet_sum_perm_invariant",
    "TapkeeVerif.Omp.region_deterministic",
    "TapkeeVerif.Omp.regions_covered",
    "TapkeeVerif.Omp.all_regions_race_free",
    "TapkeeVerif.Omp.known_regions_present",
    "TapkeeVerif.Omp.exact_regions_no_critical",
    "TapkeeVerif.Omp.weight_regions_critical_append_only",
    "TapkeeVerif.Omp.disjoint_compute_diffusion_matrix", "TapkeeVerif.Omp.disjoint_compute_distance_matrix",
    "TapkeeVerif.Omp.disjoint_compute_shortest_distances_matrix", "TapkeeVerif.Omp.disjoint_weight_matrices",
    "TapkeeVerif.Omp.disjoint_matrix_from_callback", "TapkeeVerif.Omp.disjoint_triangulate",
    "TapkeeVerif.Gen.OmpRegionProofs.all_race_free",
]
_STATIC_REQUIRED = list(REQUIRED_THEOREMS)

THREADS = [1, 2, 3, 8, 16]
TOL_INTERMEDIATE = Fraction(1, 10 ** 10)   # property text: intermediate matrices agree to 1e-10 relative
TOL_GRAM = Fraction(1, 10 ** 6)            # "within the conditioning of the eigenproblem" (declared, counted as approx)

EXACT_ROUTINES = ["dist", "distl", "geo", "geol", "diff", "tri", "cli"]
APPROX_ROUTINES = ["wlin", "wtan", "whes"]
ROUTINE_OF_REGION = {   # region function -> harness routine(s)
    "compute_distance_matrix": ["dist", "distl"], "compute_shortest_distances_matrix": ["geo", "geol"],
    "compute_diffusion_matrix": ["diff"], "triangulate": ["tri"], "matrix_from_callback": ["cli"],
    "linear_weight_matrix": ["wlin"], "tangent_weight_matrix": ["wtan"], "hessian_weight_matrix": ["whes"],
}
# all 20 methods of the public API (randomised ones run on seeded streams: std::srand + verif_shuffle_generator)
EMB_METHODS = ["isomap", "lisomap", "mds", "lmds", "dm", "klle", "kltsa", "hlle", "npe", "lltsa",
               "le", "lpp", "kpca", "pca", "spe", "rp", "fa", "tsne", "ms", "passthru"]
ARCHER = os.environ.get("VERIF_C15_ARCHER", "/usr/lib/llvm-14/lib/libarcher.so")

_SUMMARY = {}


# ----------------------------------------------------------------------------- translator step
_BUILDS = {}


def start_builds(ctx):
    """compile the harness binaries in the background while the translator and lake run"""
    quick = ctx.tier == "quick"
    src_inc = "-I" + os.path.join(vlib.REPO, "src")
    jobs = {"asan": ("c15_omp.cpp", "c15_omp_q" if quick else "c15_omp_t", quick_flags() if quick else vlib.HARNESS_FLAGS + [src_inc], "g++"),
            "emb": ("c15_omp.cpp", "c15_emb", emb_flags(), "g++")}
    tree = sched_tree(ctx)
    jobs["sched"] = ("c15_omp.cpp", "c15_sched", sched_flags(tree), "g++")
    # ThreadSanitizer is the only reach into word-level races (bit-packed containers, false sharing of flags): a small
    # pass runs in quick too (the build is cached per tree like the others)
    jobs["tsan"] = ("c15_omp.cpp", "c15_tsan", tsan_flags(), "clang++-14")
    if not quick:
        jobs["fib"] = ("c15_omp.cpp", "c15_fib", quick_flags() + ["-DTAPKEE_USE_FIBONACCI_HEAP"], "g++")
    _JOBS.update(jobs)
    ex = concurrent.futures.ThreadPoolExecutor(max_workers=len(jobs))
    for k, v in jobs.items():
        _BUILDS[k] = ex.submit(ctx.build_harness, v[0], v[1], (), v[2], v[3])
    ex.shutdown(wait=False)


def translate(ctx):
    import translate_omp
    start_builds(ctx)
    s = translate_omp.translate(repo=vlib.REPO, repo_hash=ctx.repo_hash)
    _SUMMARY.clear()
    _SUMMARY.update(s)
    # one generated, audited disjointness theorem per region of the table
    REQUIRED_THEOREMS[:] = _STATIC_REQUIRED + ["TapkeeVerif.Gen.OmpRegionProofs.disjoint_" + g["name"] for g in s["regions"]]
    ctx.log("translator: %d pragmas, %d regions, Gen/OmpRegions.lean %s" % (
        len(s["pragmas"]), len(s["regions"]), "rewritten" if s["changed"] else "unchanged"))


# ----------------------------------------------------------------------------- numbers
SPECIAL = {"nan", "inf", "-inf", "dblmax", "-dblmax"}


def dyadic(tok):
    """exact value of a vh::num token; special tokens stay strings"""
    if tok in SPECIAL:
        return tok
    if ":" in tok:
        m, e = tok.split(":")
        m, e = int(m), int(e)
        return Fraction(m) * (Fraction(2) ** e)
    return Fraction(int(tok))


def parse_dense(text):
    if text == "-":
        return {}
    out = {}
    for i, row in enumerate(text.split(";")):
        for j, t in enumerate(row.split(",")):
            out[(i, j)] = dyadic(t)
    return out


def parse_sparse(text):
    if text == "-":
        return {}
    out = {}
    for t in text.split(";"):
        r, c, v = t.split(":", 2)
        out[(int(r), int(c))] = dyadic(v)
    return out


MAXREL = {}


def compare_maps(a, b, tol, tag=None):
    """exact comparison |a-b| <= tol * scale on rationals; returns (ok, detail, n_exact_equal, n_within_tol)"""
    if set(a) != set(b):
        only = sorted(set(a) ^ set(b))[:5]
        return False, "entry sets differ, e.g. %s" % only, 0, 0
    nums = [abs(v) for v in a.values() if isinstance(v, Fraction)]
    scale = max(nums) if nums else Fraction(0)
    n_eq = n_tol = 0
    for k in sorted(a):
        x, y = a[k], b[k]
        if x == y:
            n_eq += 1
            continue
        if not isinstance(x, Fraction) or not isinstance(y, Fraction):
            return False, "entry %s: %s vs %s" % (k, x, y), n_eq, n_tol
        if tag and scale:
            MAXREL[tag] = max(MAXREL.get(tag, 0.0), float(abs(x - y) / scale))
        if abs(x - y) <= tol * scale:
            n_tol += 1
            continue
        return False, "entry %s: %.17g vs %.17g (|diff| %.3g > %.3g = tol*scale)" % (
            k, float(x), float(y), float(abs(x - y)), float(tol * scale)), n_eq, n_tol
    return True, "", n_eq, n_tol


def gram(y, n, d):
    g = {}
    for i in range(n):
        for j in range(i, n):
            acc = Fraction(0)
            bad = None
            for t in range(d):
                a, b = y[(i, t)], y[(j, t)]
                if not isinstance(a, Fraction) or not isinstance(b, Fraction):
                    bad = "nonfinite"
                    break
                acc += a * b
            g[(i, j)] = bad or acc
    return g


# ----------------------------------------------------------------------------- cases
def case_line(r, T, p, **kw):
    q = dict(p)
    q.update(kw)
    return "omp r=%s T=%d " % (r, T) + " ".join("%s=%s" % (k, q[k]) for k in sorted(q))


def parse_out(line):
    if not line.startswith("ok "):
        return {"err": line}
    f = {}
    for tok in line.split()[1:]:
        k, _, v = tok.partition("=")
        f[k] = v
    f["hashes"] = f.get("h", "").split(",")
    vals = {}
    for part in (f.get("V") or "").split("|"):
        if "@" in part:
            h, _, t = part.partition("@")
            vals[h] = t
    f["vals"] = vals
    pres = {}
    for part in (f.get("P") or "").split("|"):
        if "@" in part:
            h, _, t = part.partition("@")
            pres[h] = t
    f["pres"] = pres
    return f


def gen_params(rng, r, quick, hunt):
    """input parameters of one differential group for routine r"""
    big = rng.chance(1, 2)
    if r in ("dist", "cli", "diff"):
        N = rng.range(40, 140) if big else rng.range(2, 24)
        p = {"N": N, "D": rng.range(1, 6)}
    elif r == "distl":
        N = rng.range(40, 160) if big else rng.range(4, 24)
        p = {"N": N, "D": rng.range(1, 6), "L": rng.range(2, max(2, N // 2))}
    elif r in ("geo", "geol"):
        N = rng.range(40, 160) if big else rng.range(6, 24)
        p = {"N": N, "D": rng.range(1, 4), "k": rng.range(2, min(10, N - 1))}
        if r == "geol":
            p["L"] = rng.range(2, max(2, N // 2))
    elif r == "tri":
        N = rng.range(60, 240) if big else rng.range(6, 24)
        p = {"N": N, "D": rng.range(1, 5), "L": rng.range(3, max(3, N // 3)), "d": rng.range(1, 3)}
    elif r == "wlin":
        N = rng.range(30, 90) if big else rng.range(8, 24)
        p = {"N": N, "D": rng.range(2, 5), "k": rng.range(3, min(10, N - 1))}
    elif r == "wtan":
        N = rng.range(30, 90) if big else rng.range(8, 24)
        d = rng.range(1, 2)
        p = {"N": N, "D": rng.range(2, 5), "k": rng.range(d + 2, min(10, N - 1)), "d": d}
    elif r == "whes":
        N = rng.range(30, 80) if big else rng.range(10, 24)
        d = rng.range(1, 3)
        need = 1 + d + d * (d + 1) // 2       # columns of Yi
        N = max(N, need + 4)
        p = {"N": N, "D": rng.range(2, 5), "k": rng.range(need + 1, min(need + 5, N - 1)), "d": d}
    else:
        raise ValueError(r)
    p["seed"] = rng.below(1 << 30) + 1
    if r in ("dist", "distl", "cli", "diff", "tri") and rng.chance(1, 2):
        p["asym"] = 1       # asymmetric callback: which of d(i,j), d(j,i) was stored is visible in the result
    return p


_JOBS = {}


class Runner:
    def __init__(self, ctx, binary, label, env=None):
        self.ctx, self.binary, self.label, self.env = ctx, binary, label, env or {}

    def run(self, lines):
        for attempt in range(2):
            if not os.path.exists(self.binary):
                # a concurrent check of another tree / tier dropped the cached binary: build it again
                v = _JOBS.get(self.label.split(":")[0].replace("asan-env", "asan"))
                if v:
                    self.binary = self.ctx.build_harness(v[0], v[1], (), v[2], v[3])[0] or self.binary
            try:
                return self.ctx.run_impl_cases(self.binary, lines, env=self.env, timeout=900)
            except FileNotFoundError:
                if attempt:
                    raise
        return []


def judge_group(ctx, runner, r, p, threads, reps, label):
    """one input, all thread counts; returns True when the oracle holds"""
    approx = r in APPROX_ROUTINES
    lines = [case_line(r, T, p, reps=reps) for T in threads]
    outs = runner.run(lines)
    obs = [parse_out(o) for o in outs]
    key = "%s %s" % (r, " ".join("%s=%s" % kv for kv in sorted(p.items())))
    ctx.stat("routine:" + r, len(lines) * reps)
    ctx.stat("build:" + label, len(lines) * reps)
    for T, o, line in zip(threads, obs, lines):
        thr = int(o.get("thr", "0") or 0) if "err" not in o else 0
        ctx.count("%s T=%d %s" % (key, T, label), nontrivial=thr >= 2, n=reps)
        ctx.stat("threads_observed>=2" if thr >= 2 else "threads_observed<2", reps)
        if "err" in o:
            sig = o["err"].split("@")[0][:60]
            ctx.fail("abort:%s:%s" % (r, sig), "routine %s aborts / throws with %d threads (%s): %s" % (r, T, label, o["err"][:200]),
                     case={"routine": r, "params": p, "threads": [T], "reps": reps, "build": label, "line": line},
                     detail={"stderr": getattr(ctx, "last_abort_stderr", "")[-1500:]})
            return False
    ctx.cov["traces_validated_against_impl"] += len(lines) * reps
    ref = obs[0]
    if threads[0] == 1 and len(set(ref["hashes"])) != 1:
        ctx.fail("nondet-1thread:" + r, "routine %s is not deterministic even with one thread" % r,
                 case={"routine": r, "params": p, "threads": [1], "reps": reps, "build": label, "line": lines[0]})
        return False
    ref_hash = ref["hashes"][0]
    if not approx:
        for T, o, line in zip(threads, obs, lines):
            hs = set(o["hashes"])
            if hs != {ref_hash}:
                ctx.stat("exact-mismatch")
                where = witness_exact(ctx, runner, r, p, threads[0], T, reps)
                ctx.fail("diff:%s" % r,
                         "routine %s: result with %d threads differs bit-wise from the result with %d thread(s) on the same input "
                         "(%d distinct results in %d repetitions)%s" % (r, T, threads[0], len(hs | {ref_hash}), reps, where),
                         case={"routine": r, "params": p, "threads": [threads[0], T], "reps": reps, "build": label, "line": line},
                         detail={"hashes": {str(t): ob["hashes"] for t, ob in zip(threads, obs)}})
                return False
            ctx.stat("exact-comparisons", len(o["hashes"]))
        return True
    # order of critical appends varies: 1e-10 relative, decided on the exact dyadic values
    refv = parse_sparse(ref["vals"][ref_hash])
    for T, o, line in zip(threads, obs, lines):
        for h in sorted(set(o["hashes"])):
            if h == ref_hash:
                ctx.stat("approx-class:bit-identical", o["hashes"].count(h))
                continue
            ok, why, n_eq, n_tol = compare_maps(refv, parse_sparse(o["vals"][h]), TOL_INTERMEDIATE, "weights:" + r)
            ctx.stat("approx-class:entries-identical", n_eq)
            ctx.stat("approx-class:entries-within-1e-10", n_tol)
            if not ok:
                ctx.fail("diff:%s" % r,
                         "routine %s: weight matrix with %d threads differs from the single-threaded one beyond 1e-10 relative: %s"
                         % (r, T, why),
                         case={"routine": r, "params": p, "threads": [threads[0], T], "reps": reps, "build": label, "line": line},
                         detail={"why": why})
                return False
    return True


def witness_exact(ctx, runner, r, p, T0, T, reps):
    """try to exhibit a differing entry (the difference is a race: it may not reproduce on the re-run)"""
    if p.get("N", 0) > 200:
        return ""
    outs = [parse_out(o) for o in runner.run([case_line(r, T0, p, reps=1, dump=1), case_line(r, T, p, reps=max(reps, 6), dump=1)])]
    if any("err" in o for o in outs) or not outs[0]["vals"]:
        return ""
    ref = parse_dense(list(outs[0]["vals"].values())[0])
    for h, t in outs[1]["vals"].items():
        m = parse_dense(t)
        for k in sorted(ref):
            if m.get(k) != ref[k]:
                return "; e.g. entry %s = %s vs %s" % (k, _show(m.get(k)), _show(ref[k]))
    return "; (the re-run with dump=1 agreed: the difference is schedule dependent)"


def _show(x):
    return "%.17g" % float(x) if isinstance(x, Fraction) else str(x)


def shrink_group(ctx, runner, r, p, threads, reps, label):
    """smaller N / fewer threads that still fail (several attempts each, the failure is schedule dependent)"""
    sub = vlib.Ctx.__new__(vlib.Ctx)        # a scratch context that swallows the failures of the probes
    sub.__dict__.update(ctx.__dict__)
    best = dict(p)

    def fails(q, ths):
        sub.failures, sub.cov, sub.extra, sub._distinct = [], {"traces_validated_against_impl": 0, "evaluations": 0}, {}, set()
        for _ in range(3):
            if not judge_group(sub, runner, r, q, ths, max(reps, 6), label):
                return True
        return False
    ths = list(threads)
    for T in (2, 3, 8):
        if T in threads and fails(best, [1, T]):
            ths = [1, T]
            break
    n = best["N"]
    while n > 4:
        q = dict(best)
        q["N"] = max(4, n * 2 // 3)
        for kk in ("L", "k"):
            if kk in q:
                q[kk] = max(2, min(q[kk], q["N"] // 2))
        if r == "whes":
            break
        if fails(q, ths):
            best, n = q, q["N"]
        else:
            break
    return best, ths


# ----------------------------------------------------------------------------- footprints (table vs running code)
def region_for(routine):
    regs = _SUMMARY.get("regions") or []
    for g in regs:
        if g["config"]:
            continue
        if routine in ROUTINE_OF_REGION.get(g["func"], []):
            has_l = "landmarks" in g["sharedReadOnly"]
            if routine in ("distl", "geol") and not has_l:
                continue
            if routine in ("dist", "geo") and has_l:
                continue
            return g
    return None


RESULT_ARRAY = {"dist": "distance_matrix", "distl": "distance_matrix", "cli": "result", "tri": "embedding",
                "diff": "diffusion_matrix", "geo": "shortest_distances", "geol": "shortest_distances",
                "wlin": "sparse_triplets", "wtan": "sparse_triplets", "whes": "sparse_triplets"}


def _isnum(x):
    return x.lstrip("-").isdigit()


def model_tokens(ctx, g, p):
    """footprint of every iteration according to the table, grouped by array: {array: set((kind, row, col, iteration))}"""
    vals = {"N": p["N"], "n_vectors": p["N"], "end - begin": p["N"], "N_landmarks": p.get("L", p["N"]),
            "n_landmarks": p.get("L", p["N"]), "n_neighbors": p.get("k", 1), "k": p.get("k", 1)}
    svals = [vals.get(sym, p["N"]) for sym in g["syms"]] or [p["N"]]
    bound = max(p["N"], p.get("L", 0), 1)
    rc, model, err = ctx.run_model("model_c15", ["foot region=%s s=%s B=%d" % (g["name"], ",".join(map(str, svals)), bound)])
    if rc != 0 or not model:
        ctx.broken("model-driver", "model_c15", "model driver failed: %s" % err[-300:])
        return None, ""
    by = {}
    for t in model[0].split():
        parts = t.split(":")
        if len(parts) != 5:
            continue
        kind, arr, rr, cc, ii = parts
        by.setdefault(arr, set()).add((kind, rr, cc, ii))
    return by, model[0]


def weight_block(routine, i, nb):
    """positions of the triplets iteration i appends (routines/locally_linear.hpp)"""
    out = set()
    if routine in ("wlin", "wtan"):
        out.add((i, i))
    for a in nb:
        if routine == "wlin":
            out.add((a, i))
            out.add((i, a))
        if routine == "wtan":
            out.add((a, a))
        for b in nb:
            out.add((a, b))
    return out


def footprints(ctx, runner):
    """The table against the running code.  Coded callbacks / the position of the zero in a geodesic row tell which
    iteration produced which entry (row) of the result: that must be the table's write set of that iteration.  For the
    weight matrices the stored pattern of the result must be the union of the triplet blocks of exactly the iterations
    the table lists as appending under `critical`."""
    n_ok = 0
    plan = (("dist", [(1, {}), (5, {}), (9, {})]), ("cli", [(1, {}), (4, {}), (8, {})]),
            ("distl", [(7, {"L": 4}), (9, {"L": 9})]), ("tri", [(8, {"L": 3}), (12, {"L": 5})]), ("diff", [(6, {})]),
            ("geo", [(6, {"k": 3}), (11, {"k": 4})]), ("geol", [(9, {"k": 3, "L": 4}), (12, {"k": 4, "L": 12})]),
            ("wlin", [(9, {"k": 4, "D": 3})]), ("wtan", [(9, {"k": 4, "D": 3, "d": 2})]), ("whes", [(10, {"k": 7, "D": 3, "d": 2})]))
    for routine, sizes in plan:
        g = region_for(routine)
        if g is None:
            ctx.broken("corr:region-missing:" + routine, "correspondence c15 (table has no region for routine %s)" % routine,
                       "the generated table has no region for harness routine %s" % routine)
            continue
        for N, extra in sizes:
            for T in (1, 3, 16):
                p = {"N": N, "D": 2, "seed": 5, "d": 1}
                p.update(extra)
                line = case_line(routine, T, p, reps=1, trace=1)
                o = parse_out(runner.run([line])[0])
                if "err" in o:
                    ctx.fail("abort:%s:trace" % routine, "routine %s aborts in trace mode: %s" % (routine, o["err"][:200]),
                             case={"routine": routine, "params": p, "threads": [T], "line": line})
                    continue
                by, mline = model_tokens(ctx, g, p)
                if by is None:
                    return
                ctx.count("foot %s N=%d T=%d" % (routine, N, T), nontrivial=N > 1)
                ctx.stat("footprint-comparisons")
                # the result array: by NAME; if the variable was renamed, any written array whose footprint matches
                pref = RESULT_ARRAY[routine]
                cands = [pref] if pref in by else sorted(by)
                good, what = False, "the table lists no written array"
                for arr in cands:
                    toks = by[arr]
                    writes = set(t for t in toks if t[0].startswith("w"))
                    if routine == "diff":
                        calls = set(tuple(map(int, c.split(":"))) for c in o.get("calls", "").split(";") if c)
                        ok_shape = all(_isnum(t[1]) and _isnum(t[2]) and _isnum(t[3]) for t in writes)
                        mcalls = set((int(t[3]), int(t[2])) for t in writes if ok_shape and t[1] == t[3])
                        good = ok_shape and calls == mcalls and o.get("split") == "0"
                        what = "callback invocations (iteration, inner index) vs table iteration space differ at %s" % sorted(calls ^ mcalls)[:6]
                    elif routine in ("geo", "geol"):
                        obs = set(tuple(t.split(":")[::2]) for t in o.get("W", "").split(";") if t)       # (row, iteration)
                        mod = set((t[1], t[3]) for t in writes)
                        good = obs == mod and all(_isnum(a) for _, a in obs)
                        what = "rows written per iteration: observed-only %s, table-only %s" % (sorted(obs - mod)[:5], sorted(mod - obs)[:5])
                    elif routine in APPROX_ROUTINES:
                        appends = set(t for t in toks if t[0] == "ac")
                        iters = sorted(int(t[3]) for t in appends if _isnum(t[3]))
                        nb = [[int(x) for x in row.split(",") if x] for row in o.get("nb", "").split(";")]
                        expect = set()
                        for it in iters:
                            if it < len(nb):
                                expect |= weight_block(routine, it, nb[it])
                        vals = list(o["vals"].values())
                        seen = set(parse_sparse(vals[0])) if vals else set()
                        good = bool(appends) and expect == seen and all(t[1] == "*" and t[2] == "*" for t in appends) \
                            and not (toks - appends)
                        what = "stored pattern vs union of the triplet blocks of the table's iterations %s: pattern-only %s, blocks-only %s" % (
                            iters[:3] + ["..."], sorted(seen - expect)[:4], sorted(expect - seen)[:4])
                    else:
                        otoks = set(tuple(t.split(":")) for t in o.get("W", "").split(";") if t)      # (row, col, iteration)
                        mod = set((t[1], t[2], t[3]) for t in writes)
                        if routine == "tri":
                            # rows of landmarks are written before the region (and skipped inside it): the table's
                            # footprint is the superset `every iteration writes its own row`
                            good = otoks <= mod and len(mod - otoks) == p["L"] and o.get("split") == "0"
                        else:
                            good = otoks == mod and o.get("split") == "0"
                        what = "observed writers %s vs table %s" % (sorted(otoks - mod)[:5], sorted(mod - otoks)[:5])
                    if good:
                        break
                if good:
                    n_ok += 1
                    ctx.stat("footprint-ok:" + routine)
                    if n_ok <= 2:
                        ctx.sample({"footprint": line, "impl": (o.get("W") or o.get("calls") or "")[:160], "model": mline[:160]})
                else:
                    ctx.stat("footprint-mismatch")
                    ctx.broken("corr:footprint:" + routine, "correspondence c15 footprint (%s, region %s)" % (routine, g["name"]),
                               "the write footprint observed on the running code differs from the generated table: " + what,
                               case=line, detail={"impl": (o.get("W") or o.get("calls") or o.get("nb") or "")[:2000], "model": mline[:2000]})
    ctx.extra["footprints_agreeing"] = n_ok


def model_selftest(ctx):
    """the operational model on random small loops: racy loops must show schedule dependence, disjoint ones never"""
    r = ctx.rng.fork()
    lines, kinds = [], []
    for t in range(60):
        n = r.range(2, 4)
        racy = t % 2 == 0
        bodies = []
        for i in range(n):
            effs = []
            for _ in range(r.range(1, 4)):
                c = r.below(10)
                if c < 4:
                    effs.append("w0.%d.%d" % (i, r.below(2)))
                elif c < 7:
                    effs.append("r0.%d.%d" % ((r.below(n) if racy else i), r.below(2)))
                else:
                    effs.append("c")
            if racy:
                # read the neighbour's cell, then publish a value that depends on it
                effs = ["w0.%d.0" % i, "r0.%d.0" % ((i + 1) % n), "w0.%d.1" % i] + effs
            bodies.append(effs)
        total = sum(len(b) for b in bodies)
        sig = []
        for i, b in enumerate(bodies):
            sig += [i] * len(b)
        sig = r.shuffle(sig)
        lines.append("sched n=%d eff=%s sigma=%s" % (n, "|".join(",".join(b) for b in bodies), ",".join(map(str, sig))))
        kinds.append(racy)
    rc, out, err = ctx.run_model("model_c15", lines)
    if rc != 0 or len(out) != len(lines):
        ctx.broken("model-driver", "model_c15", "model driver failed on sched lines: %s" % err[-300:])
        return
    dep = 0
    for line, o, racy in zip(lines, out, kinds):
        m = re.match(r"complete=(\w+) \| mem (\S*) log (\S*) \| seq mem (\S*) log (\S*)", o)
        if not m or m.group(1) != "true":
            ctx.broken("model:sched", "model_c15 sched", "unexpected driver answer %r for %r" % (o, line))
            return
        same_mem = m.group(2) == m.group(4)
        same_log = sorted(m.group(3).split(",")) == sorted(m.group(5).split(","))
        if not racy and not (same_mem and same_log):
            ctx.broken("model:determinism", "race_free_deterministic (executable instance)",
                       "the operational model is schedule dependent on a disjoint loop", case=line, detail=o)
        if racy and not (same_mem and same_log):
            dep += 1
    ctx.extra["model_selftest"] = {"loops": len(lines), "racy_loops_showing_schedule_dependence": dep}


# ----------------------------------------------------------------------------- public API (Gram level)
def emb_groups(ctx, runner, quick, hunt):
    r = ctx.rng.fork()
    n_groups = (1 if quick else 4) * (2 if hunt else 1)
    for m in EMB_METHODS:
        for gi in range(n_groups):
            N = r.range(24, 40) if gi % 2 == 0 else r.range(12, 22)
            p = {"N": N, "D": 3, "k": r.range(7, 9), "d": 2, "m": m, "seed": r.below(1 << 30) + 1, "L": max(6, N // 2), "w": 4}
            emb_one(ctx, runner, p, THREADS)


def emb_one(ctx, runner, p, threads):
    m, N, d = p["m"], p["N"], p["d"]
    lines = [case_line("emb", T, p, reps=2, dump=1) for T in threads]
    outs = [parse_out(o) for o in runner.run(lines)]
    ctx.stat("routine:emb:" + m, len(lines) * 2)
    if any("err" in o for o in outs):
        errs = sorted(set(o["err"] for o in outs if "err" in o))
        if len(errs) == 1 and all("err" in o for o in outs) and errs[0].startswith("exc:"):
            # the method rejects this input for every thread count alike (e.g. a numerically singular problem)
            ctx.stat("emb-exception-all-threads")
            return
        ctx.fail("diff:emb:" + m, "method %s: outcome depends on the thread count: %s" % (m, errs[:3]),
                 case={"routine": "emb", "params": p, "threads": threads, "reps": 2, "build": "emb", "line": lines[0]})
        return
    ref = outs[0]
    rh = ref["hashes"][0]
    ry = parse_dense(ref["vals"][rh])
    d = 1 + max([c for (_, c) in ry] or [0])          # columns the method actually returned (passthru: D)
    rg = gram(ry, N, d)
    nobs = int(ref.get("nobs", "0") or 0)
    ctx.extra.setdefault("eigenproblems_observed_per_embed_call", {})[m] = nobs
    if nobs == 0:
        ctx.stat("emb:no-eigenproblem-on-this-path:" + m)      # the 1e-10 leg on the pre-matrix does not apply
    rp = parse_dense(ref["pres"].get(rh, "-"))
    for T, o, line in zip(threads, outs, lines):
        ctx.count("emb %s N=%d seed=%s T=%d" % (m, N, p["seed"], T), nontrivial=T >= 2, n=2)
        ctx.cov["traces_validated_against_impl"] += 2
        for h in sorted(set(o["hashes"])):
            if h == rh:
                ctx.stat("emb:bit-identical", o["hashes"].count(h))
                continue
            okp, whyp, _, _ = compare_maps(rp, parse_dense(o["pres"].get(h, "-")), TOL_INTERMEDIATE, "eigenproblem:" + m)
            okg, whyg, ne, nt = compare_maps(rg, gram(parse_dense(o["vals"][h]), N, d), TOL_GRAM, "gram:" + m)
            ctx.stat("emb:gram-entries-identical", ne)
            ctx.stat("emb:gram-entries-within-1e-6", nt)
            if not okp:
                ctx.fail("diff:emb-pre:" + m,
                         "method %s: the matrix handed to the eigensolver with %d threads differs from the single-threaded one "
                         "beyond 1e-10 relative: %s" % (m, T, whyp),
                         case={"routine": "emb", "params": p, "threads": [1, T], "reps": 2, "build": "emb", "line": line})
                return
            if not okg:
                ctx.fail("diff:emb-gram:" + m,
                         "method %s: Gram matrix of the embedding with %d threads differs from the single-threaded one beyond "
                         "1e-6 relative: %s" % (m, T, whyg),
                         case={"routine": "emb", "params": p, "threads": [1, T], "reps": 2, "build": "emb", "line": line})
                return


# ----------------------------------------------------------------------------- builds
def quick_flags():
    """ASan only, line tables only: 26 s instead of 61 s (UBSan) for the Eigen-heavy weight-matrix routines"""
    fl = []
    for f in vlib.HARNESS_FLAGS:
        if f == "-g":
            fl.append("-g1")
        elif f.startswith("-fsanitize="):
            fl.append("-fsanitize=address")
        else:
            fl.append(f)
    return fl + ["-I" + os.path.join(vlib.REPO, "src")]


def emb_flags():
    return [f for f in vlib.HARNESS_FLAGS if not f.startswith("-fsanitize") and not f.startswith("-fno-sanitize")
            and f != "-g"] + ["-DC15_EMB", "-I" + os.path.join(vlib.REPO, "src")]


def sched_tree(ctx):
    """scratch copy of the headers with `schedule(runtime)` on every worksharing loop that has no schedule clause
    (a semantics-preserving variation: the property quantifies over every assignment of iterations to threads)"""
    dst = os.path.join(vlib.BUILD_DIR, "c15_sched", ctx.repo_hash)
    if os.path.exists(os.path.join(dst, ".done")):
        return dst
    shutil.rmtree(os.path.join(vlib.BUILD_DIR, "c15_sched"), ignore_errors=True)
    n = 0
    for top in ("include", os.path.join("src", "cli")):
        for d, dirs, files in os.walk(os.path.join(vlib.REPO, top)):
            for f in files:
                sp = os.path.join(d, f)
                dp = os.path.join(dst, os.path.relpath(sp, vlib.REPO))
                os.makedirs(os.path.dirname(dp), exist_ok=True)
                txt = open(sp, errors="replace").read()
                if "pragma omp" in txt or "_Pragma" in txt:
                    def inject(m):
                        nonlocal n
                        if "schedule" in m.group(0) or not re.search(r"\bfor\b", m.group(0)):
                            return m.group(0)
                        n += 1
                        return m.group(0).rstrip() + " schedule(runtime)"
                    txt = re.sub(r"^[ \t]*#[ \t]*pragma[ \t]+omp[^\n]*", inject, txt, flags=re.M)

                    def inject2(m):
                        nonlocal n
                        if "schedule" in m.group(1) or not re.search(r"\bfor\b", m.group(1)):
                            return m.group(0)
                        n += 1
                        return '_Pragma("omp%s schedule(runtime)")' % m.group(1)
                    txt = re.sub(r'_Pragma\(\s*"omp([^"]*)"\s*\)', inject2, txt)
                with open(dp, "w") as fh:
                    fh.write(txt)
    open(os.path.join(dst, ".done"), "w").write(str(n))
    return dst


def sched_flags(tree):
    fl = [f for f in quick_flags() if not f.startswith("-I" + vlib.REPO)]
    return ["-I" + os.path.join(tree, "include"), "-I" + os.path.join(tree, "src")] + fl


def tsan_flags():
    return ["-std=gnu++2b", "-O1", "-g", "-fopenmp", "-fsanitize=thread", "-DTAPKEE_VERIF", "-DTAPKEE_USE_LGPL_COVERTREE",
            "-DFMT_HEADER_ONLY=1", "-Wno-everything", "-I" + os.path.join(vlib.REPO, "include"),
            "-I" + os.path.join(vlib.ROOT, "harness"), "-I" + os.path.join(vlib.REPO, "src"),
            "-isystem", "/root/miniconda/include", "-isystem", "/usr/include/eigen3"]


def tsan_run(ctx, binary, quick=False):
    """supporting evidence only: ThreadSanitizer + Archer on the same harness"""
    r = ctx.rng.fork()
    lines = []
    if quick:
        # every routine once, 8 threads, small inputs
        for routine in EXACT_ROUTINES + APPROX_ROUTINES:
            p = gen_params(r, routine, True, False)
            p["N"] = min(max(p["N"], 16), 40)
            for kk in ("L", "k"):
                if kk in p:
                    p[kk] = max(2, min(p[kk], p["N"] // 2))
            if routine == "whes":
                p["k"] = max(p["k"], 1 + p["d"] + p["d"] * (p["d"] + 1) // 2 + 1)
                p["N"] = max(p["N"], p["k"] + 3)
            lines.append((routine, case_line(routine, 8, p, reps=2)))
        return tsan_lines(ctx, binary, lines)
    for routine in EXACT_ROUTINES + APPROX_ROUTINES:
        for _ in range(2):
            p = gen_params(r, routine, False, False)
            p["N"] = min(p["N"], 60)
            for kk in ("L", "k"):
                if kk in p:
                    p[kk] = max(2, min(p[kk], p["N"] // 2))
            if routine == "whes":
                p["k"] = max(p["k"], 1 + p["d"] + p["d"] * (p["d"] + 1) // 2 + 1)
            for T in (2, 8):
                lines.append((routine, case_line(routine, T, p, reps=2)))
    tsan_lines(ctx, binary, lines)


def tsan_lines(ctx, binary, lines):
    archer = ARCHER
    if not os.path.exists(archer):
        # without Archer TSan does not see libomp's barriers and reports false races in tapkee frames: never judge
        ctx.extra["tsan"] = {"skipped": "OpenMP-aware TSan tool %s not found; ThreadSanitizer leg not run" % archer}
        ctx.stat("tsan-skipped-no-archer")
        return
    env = {"TSAN_OPTIONS": "halt_on_error=0:report_signal_unsafe=0:exitcode=0:ignore_noninstrumented_modules=1",
           "OMP_TOOL_LIBRARIES": archer}
    # the binary must start (libomp present) before its silence means anything
    rc0, out0, err0 = ctx.run_impl(binary, [lines[0][1]], env=env, timeout=600)
    if not out0 or not out0[0].startswith("ok"):
        ctx.extra["tsan"] = {"skipped": "the TSan build does not run in this sandbox (rc=%s): %s" % (rc0, (err0 or "")[-300:])}
        ctx.stat("tsan-skipped-binary-does-not-run")
        return
    reports = []
    failed_runs = []
    for routine, line in lines:
        rc, out, err = ctx.run_impl(binary, [line], env=env, timeout=600)
        ctx.stat("tsan-runs")
        ctx.count("tsan " + line, nontrivial=True)
        races = re.findall(r"WARNING: ThreadSanitizer: data race.*?(?=\n\n|\Z)", err, re.S)
        tap = [x for x in races if "/tapkee/" in x or "/src/cli/" in x]
        if tap:
            frame = re.search(r"#\d+ (\S+) (\S*/(?:tapkee|cli)/\S+)", tap[0])
            reports.append({"routine": routine, "line": line, "n_reports": len(tap), "first": tap[0][:1500]})
            ctx.fail("tsan:%s" % routine,
                     "ThreadSanitizer (clang-14, libomp + Archer) reports a data race in routine %s%s" % (
                         routine, " at %s" % os.path.basename(frame.group(2)) if frame else ""),
                     case={"routine": routine, "params": dict(t.split("=", 1) for t in line.split()[1:] if not t.startswith(("r=", "T=", "reps="))),
                           "threads": [int(re.search(r"T=(\d+)", line).group(1))], "line": line, "build": "tsan"},
                     detail={"report": tap[0][:3000]})
        elif races:
            ctx.stat("tsan-reports-outside-tapkee", len(races))
        if not out or not out[0].startswith("ok"):
            ctx.stat("tsan-run-failed")
            failed_runs.append(line)
    ctx.extra["tsan"] = {"runs": len(lines), "archer": True, "reports_in_tapkee": reports,
                         "failed_runs": failed_runs,
                         "compiler": "clang++-14 -fsanitize=thread -fopenmp (libomp.so.5, libarcher.so)"}


# ----------------------------------------------------------------------------- replay
def replay_case(ctx, replay):
    """check.py replay <file>: re-run exactly the recorded case (routine + input + thread counts) on the current tree,
    many repetitions (a race is schedule dependent)"""
    c = replay.get("case")
    if not isinstance(c, dict) or "routine" not in c:
        ctx.log("replay file has no routine case (a broken obligation is re-checked by the build above)")
        return
    label = c.get("build", "asan")
    if not _BUILDS:
        start_builds(ctx)
    key = {"asan": "asan", "asan-env": "asan", "sched": "sched", "fib": "fib", "emb": "emb", "tsan": "tsan"}.get(label, "asan")
    if key not in _BUILDS:
        key = "asan"
    binary, log = _BUILDS[key].result()
    if not binary:
        ctx.broken("harness-build:" + key, "harness c15_omp.cpp (%s build)" % key, "harness does not compile: " + log[-800:])
        return
    env = {}
    if str(c.get("env", "")).startswith("OMP_SCHEDULE="):
        env["OMP_SCHEDULE"] = c["env"].split("=", 1)[1]
    runner = Runner(ctx, binary, key, env=env)
    r, p = c["routine"], c.get("params", {})
    ths = sorted(set([1] + [t for t in c.get("threads", THREADS) if t > 0]))
    ctx.log("replaying", r, p, "threads", ths, "build", key, env)
    if r == "emb":
        _SUMMARY.setdefault("regions", [])
        saved = list(EMB_METHODS)
        try:
            EMB_METHODS[:] = [p.get("m", "isomap")]
            for _ in range(3):
                emb_one(ctx, runner, p, ths)
        finally:
            EMB_METHODS[:] = saved
        return
    if key == "tsan":
        tsan_lines(ctx, binary, [(r, c.get("line") or case_line(r, ths[-1], p, reps=2))])
        return
    for _ in range(6):
        if not judge_group(ctx, runner, r, p, ths, max(6, c.get("reps", 4)), key):
            return
    ctx.log("replayed case holds on the current tree (%d runs)" % (6 * len(ths) * max(6, c.get("reps", 4))))


# ----------------------------------------------------------------------------- main
def correspond(ctx):
    quick = ctx.tier == "quick"
    props_ok = all(bool(getattr(ctx, "lean_target_ok", {}).get(m, False)) for m in LEAN_MODULES)
    translator_ok = bool(_SUMMARY.get("regions"))
    hunt = not (props_ok and translator_ok)       # an obligation broke: spend the budget on finding a failing input
    if hunt:
        ctx.log("an obligation is broken -> hunting for a failing input with more repetitions")
    if not translator_ok:
        # keep the routine <-> region mapping usable for the differential part
        try:
            import json
            _SUMMARY.update(json.load(open(os.path.join(vlib.BUILD_DIR, "c15_regions.json"))))
        except Exception:
            pass
    # which theorem broke? (diagnostic for the report)
    if not props_ok and ctx.lean_log:
        names = sorted(set(re.findall(r"disjoint_\w+|regions_covered|\w+_deterministic", ctx.lean_log)))
        lines = [l for l in ctx.lean_log.split("\n") if "error" in l][:40]
        ctx.extra["broken_obligations"] = {"mentioned": names, "errors": lines}
        for l in lines:
            m = re.search(r"TapkeeVerif/((?:Props|Gen)/\w+)\.lean:(\d+):", l)
            if m:
                try:
                    src = open(os.path.join(vlib.LEAN_DIR, "TapkeeVerif", m.group(1) + ".lean")).read().split("\n")
                except OSError:
                    continue
                k = int(m.group(2))
                while k > 0 and not re.match(r"\s*theorem\s+(\S+)", src[k - 1]):
                    k -= 1
                if k > 0:
                    name = re.match(r"\s*theorem\s+(\S+)", src[k - 1]).group(1)
                    if name not in ctx.extra["broken_obligations"].setdefault("theorems", []):
                        ctx.extra["broken_obligations"]["theorems"].append(name)
                        ctx.log("   broken:", name)

    # ---- builds (started in the background by translate())
    if not _BUILDS:
        start_builds(ctx)
    class Lazy(dict):
        """a binary is waited for only when its phase starts (the public-API build takes twice as long as the others)"""

        def resolve(self, k):
            if dict.__contains__(self, k) or k not in _BUILDS:
                return
            binary, log = _BUILDS[k].result()
            ctx.log("harness build %s: %s" % (k, "ok" if binary else "FAILED"))
            if not binary:
                if k == "tsan":
                    ctx.extra["tsan"] = {"skipped": "clang++-14 -fsanitize=thread -fopenmp build failed in this sandbox: " + log[-400:]}
                else:
                    ctx.broken("harness-build:" + k, "harness c15_omp.cpp (%s build)" % k,
                               "harness does not compile against the working tree (%s build): %s" % (k, log[-800:]))
                _BUILDS.pop(k)
                return
            dict.__setitem__(self, k, Runner(ctx, binary, k))

        def __contains__(self, k):
            self.resolve(k)
            return dict.__contains__(self, k)

        def __getitem__(self, k):
            if k not in self:
                raise KeyError(k)
            return dict.__getitem__(self, k)

        def get(self, k, d=None):
            return self[k] if k in self else d
    runners = Lazy()
    if "asan" not in runners:
        return

    # ---- coverage obligation: every region of the table is exercised by a harness routine (footprint + differential)
    cover = {}
    for g in (_SUMMARY.get("regions") or []):
        routines = [r for r in ROUTINE_OF_REGION.get(g["func"], []) if region_for(r) is not None and region_for(r)["func"] == g["func"]]
        cover[g["name"]] = routines
        if not routines:
            ctx.broken("coverage:region-without-routine:" + g["func"], "coverage c15 (region %s has no harness routine)" % g["name"],
                       "the parallel region in %s (%s:%s) is in the table but no harness routine runs it: it gets no footprint, "
                       "differential or ThreadSanitizer run (add a routine to harness/c15_omp.cpp and ROUTINE_OF_REGION)" % (
                           g["func"], g["file"], g["line"]))
    ctx.extra["region_coverage"] = cover
    # ---- the model itself, and the table against the running code
    model_selftest(ctx)
    if translator_ok:
        footprints(ctx, runners["asan"])

    ctx.log("model self-test and footprints done")
    # ---- differential runs of every parallel routine
    r = ctx.rng
    reps = 3 if quick else 10
    groups = 3 if quick else 14
    # corpus first
    cdir = os.path.join(vlib.ROOT, "corpus", "C15")
    if os.path.isdir(cdir):
        for fn in sorted(os.listdir(cdir)):
            for l in open(os.path.join(cdir, fn)):
                l = l.strip()
                if not l.startswith("omp "):
                    continue
                fs = dict(t.split("=", 1) for t in l.split()[1:])
                routine = fs.pop("r")
                p = {k: int(v) for k, v in fs.items() if k not in ("T", "reps")}
                ctx.stat("corpus-cases")
                judge_group(ctx, runners["asan"], routine, p, THREADS, 4, "asan")
    if hunt:
        reps, groups = reps * 2, groups * 2
    failed = set()
    for routine in EXACT_ROUTINES + APPROX_ROUTINES:
        for gi in range(groups):
            p = gen_params(r.fork(), routine, quick, hunt)
            ok = judge_group(ctx, runners["asan"], routine, p, THREADS, reps, "asan")
            if len(ctx.cov["samples"]) < 6 and ok and gi == 0:
                ctx.sample({"case": case_line(routine, 16, p, reps=reps), "verdict": "identical for threads %s x %d repetitions" % (THREADS, reps)})
            if not ok:
                if routine not in failed:
                    failed.add(routine)
                    f = ctx.failures[-1]
                    if isinstance(f.case, dict) and f.signature.startswith("diff:"):
                        q, ths = shrink_group(ctx, runners["asan"], routine, p, THREADS, reps, "asan")
                        f.case = dict(f.case, params=q, threads=ths, shrunk_from=p,
                                      line=case_line(routine, ths[-1], q, reps=max(reps, 6)))
                break
    ctx.log("differential runs (asan build) done")
    # ---- OMP_NUM_THREADS from the environment (the property's literal wording), one process per thread count
    for routine in EXACT_ROUTINES:
        if routine in failed:
            continue
        p = gen_params(r.fork(), routine, quick, hunt)
        hs = {}
        for T in THREADS:
            rn = Runner(ctx, runners["asan"].binary, "asan-env", env={"OMP_NUM_THREADS": str(T)})
            o = parse_out(rn.run([case_line(routine, 0, p, reps=2)])[0])
            hs[T] = o.get("hashes", [o.get("err")])
            ctx.count("env %s %s T=%d" % (routine, p, T), nontrivial=T >= 2, n=2)
            ctx.stat("env-OMP_NUM_THREADS-runs", 2)
        if len(set(h for v in hs.values() for h in v)) != 1:
            ctx.fail("diff:%s" % routine, "routine %s: result depends on OMP_NUM_THREADS" % routine,
                     case={"routine": routine, "params": p, "threads": THREADS, "reps": 2, "build": "asan", "env": "OMP_NUM_THREADS",
                           "line": case_line(routine, 0, p, reps=2)}, detail={"hashes": {str(k): v for k, v in hs.items()}})
    # ---- other iteration-to-thread assignments: schedule(runtime) build under OMP_SCHEDULE variations
    if "sched" in runners:
        scheds = ["static,1", "dynamic,1"] if quick else ["static,1", "static,3", "dynamic,1", "dynamic,4", "guided", "auto"]
        for routine in EXACT_ROUTINES + APPROX_ROUTINES:
            if routine in failed:
                continue
            for gi in range(1 if quick else 4):
                p = gen_params(r.fork(), routine, quick, hunt)
                ref_hash = None
                for sc in scheds:
                    rn = Runner(ctx, runners["sched"].binary, "sched:" + sc, env={"OMP_SCHEDULE": sc})
                    ths = [1, 3, 16] if quick else THREADS
                    if not judge_group(ctx, rn, routine, p, ths, 2 if quick else 4, "sched"):
                        ctx.failures[-1].case["env"] = "OMP_SCHEDULE=" + sc
                        failed.add(routine)
                        break
                    ctx.stat("schedule:" + sc.split(",")[0])
                if routine in failed:
                    break
    ctx.log("schedule(runtime) runs done")
    # ---- Fibonacci-heap configuration of the Dijkstra regions
    if "fib" in runners:
        for routine in ("geo", "geol"):
            for gi in range(groups):
                p = gen_params(r.fork(), routine, quick, hunt)
                if not judge_group(ctx, runners["fib"], routine, p, THREADS, reps, "fib"):
                    break
    # ---- public API, Gram level
    if "emb" in runners:
        emb_groups(ctx, runners["emb"], quick, hunt)
    ctx.log("public API runs done")
    # ---- ThreadSanitizer (supporting evidence)
    if "tsan" in runners:
        tsan_run(ctx, runners["tsan"].binary, quick)
    ctx.extra.setdefault("tsan", {"skipped": "clang++-14 -fsanitize=thread -fopenmp build unavailable"})

    regs = _SUMMARY.get("regions") or []
    ctx.extra["regions"] = [{"name": g["name"], "file": g["file"], "line": g["line"], "loop": "%s in [%s, %s)" % (g["loopVar"], g["loopLo"], g["loopHi"]),
                             "shared_written": g["arrays"], "private": g["privateNames"],
                             "scratch_carried_across_iterations_of_a_thread": g.get("carriedScratch", []), "accesses": len(g["accesses"]),
                             "critical_accesses": sum(1 for a in g["accesses"] if a["critical"]),
                             "reentrant_calls_assumed": g["reentrantCalls"], "flags": g["flags"]} for g in regs]
    ctx.extra["pragmas"] = len(_SUMMARY.get("pragmas") or [])
    ctx.extra["max_relative_difference_observed"] = {k: "%.3g" % v for k, v in sorted(MAXREL.items())}
    ctx.cov["rule"] = ("every parallel routine (%s; public API methods %s) on seed-derived inputs (N 2..240, k 2..10, d 1..2), "
                       "each run with OMP_NUM_THREADS in %s x %d repetitions (asan build), under OMP_SCHEDULE variations in a "
                       "schedule(runtime) build, and via the environment variable; non-trivial = at least two distinct threads "
                       "executed iterations of the region in that run (observed inside the callbacks); distinct by "
                       "(routine, input, thread count, build)" % (
                           ",".join(EXACT_ROUTINES + APPROX_ROUTINES), ",".join(EMB_METHODS), THREADS, reps))
    ctx.assumptions += [
        "the disjointness theorems are about the access sets tools/translate_omp.py extracts from clang-14's typed AST of the source; "
        "that the compiled program performs exactly those accesses (Eigen temporaries, std::vector<bool> packing in to_process, "
        "libgomp, false sharing) is runtime behaviour reached only by the differential runs and ThreadSanitizer",
        "user callbacks (callback.distance / callback.kernel / callback(i,j)) and iterator dereferences are assumed re-entrant and "
        "not to modify their arguments; they are listed per region as reentrantCalls",
        "thread-private scratch declared between `omp parallel` and `omp for` (heap, s, f, gram_matrix, G, Yi, local_triplets, "
        "distances_to_landmarks) persists across the iterations one thread executes; the model treats it as iteration-private, "
        "i.e. assumes every iteration (re)initialises what it reads; this is checked only by the differential runs (1 thread "
        "carries scratch across all iterations, 16 threads across few or none; schedule variations permute the carry-over)",
        "a critical section is modelled as one atomic step; iterations (not threads) are the unit of interleaving, which "
        "over-approximates every assignment of iterations to threads",
        "index values are non-negative (Nat); pointer aliasing is followed only through references / pointers initialised "
        "inside the region from a shared variable",
        "Eigen's own OpenMP parallelism (GEMM blocking depends on the thread count) re-associates sums in the dense "
        "post-processing of some methods; embeddings are therefore compared at Gram level within 1e-6 relative",
    ]
