"""C18 — the Barnes–Hut quadtree stores each point once; masses / centres of mass; force sums are the exact
sums at theta = 0 and converge as theta -> 0.
Model: lean/TapkeeVerif/Model/QuadTree.lean; theorems: Props/C18.lean; driver: Driver/C18.lean (model_c18);
harness: harness/c18_quad.cpp (real tsne::QuadTree, public interface only, ASan+UBSan)."""
import itertools
import os
from fractions import Fraction

import vlib

PROPERTY = "C18"
LEAN_MODULES = ["TapkeeVerif.Props.C18"]
LEAN_EXES = ["model_c18"]
REQUIRED_THEOREMS = [
    "TapkeeVerif.QuadTree.each_point_once",
    "TapkeeVerif.QuadTree.default_root_accepts_all",
    "TapkeeVerif.QuadTree.each_point_once_default",
    "TapkeeVerif.QuadTree.isCorrect_true",
    "TapkeeVerif.QuadTree.mass_and_com",
    "TapkeeVerif.QuadTree.root_mass_and_com",
    "TapkeeVerif.QuadTree.children_masses_add",
    "TapkeeVerif.QuadTree.mass_witness",
    "TapkeeVerif.QuadTree.forces_theta0_exact",
    "TapkeeVerif.QuadTree.forces_theta0_coincident",
    "TapkeeVerif.QuadTree.self_skip_total",
    "TapkeeVerif.QuadTree.forces_theta0_twins_witness",
    "TapkeeVerif.QuadTree.forces_exact_below_threshold",
    "TapkeeVerif.QuadTree.force_error_bound",
    "TapkeeVerif.QuadTree.order_independent_observables",
    "TapkeeVerif.QuadTree.fuel_suffices",
    "TapkeeVerif.QuadTree.fuel_irrelevant",
    "TapkeeVerif.QuadTree.fuel_exists",
    "TapkeeVerif.QuadTree.summary_criterion_sqrt",
]

# theta in {0, 2^-20, 0.1, 0.5, 1, 2}; 0.1 is the double nearest to 0.1 written as an exact dyadic
THETAS = ["0", "1:-20", "3602879701896397:-55", "1:-1", "1", "2"]


# ----------------------------------------------------------------------------- numbers
def dy(m, e=0):
    """the dyadic m*2^e as a Fraction"""
    return Fraction(m) * (Fraction(2) ** e)


def fmt(q):
    q = Fraction(q)
    if q.denominator == 1:
        return str(q.numerator)
    e = q.denominator.bit_length() - 1
    assert q.denominator == 1 << e, "non-dyadic coordinate"
    return "%d:%d" % (q.numerator, -e)


def fmt_pts(pts):
    return ";".join("%s,%s" % (fmt(x), fmt(y)) for x, y in pts)


# ----------------------------------------------------------------------------- generators (all dyadic)
def g_generic(r, n):
    b = r.choice([1, 2, 4, 8])
    R = r.choice([1, 4, 16])
    return [(dy(r.range(-R << b, R << b), -b), dy(r.range(-R << b, R << b), -b)) for _ in range(n)]


def g_clustered(r, n):
    k = r.range(1, 4)
    cs = g_generic(r, k)
    s = r.choice([6, 10, 16, 24])
    out = []
    for _ in range(n):
        c = r.choice(cs)
        out.append((c[0] + dy(r.range(-8, 8), -s), c[1] + dy(r.range(-8, 8), -s)))
    return out


def g_collinear(r, n):
    d = r.choice([(1, 0), (0, 1), (1, 1), (1, -1), (2, 1), (-3, 1)])
    b = r.choice([0, 2, 5])
    o = (dy(r.range(-8, 8), -1), dy(r.range(-8, 8), -1))
    ts = [dy(r.range(-64, 64), -b) for _ in range(n)]
    return [(o[0] + d[0] * t, o[1] + d[1] * t) for t in ts]


def g_coincident(r, n):
    m = max(1, r.range(1, max(1, n // 2)))
    base = r.choice([g_generic, g_clustered])(r, m)
    out = list(base)
    while len(out) < n:
        out.append(r.choice(base))
    return r.shuffle(out)


def g_wide(r, n):
    """coordinates spanning 2^40"""
    out = []
    mode = r.below(3)
    for _ in range(n):
        if mode == 0:      # magnitudes 2^-20 .. 2^20
            out.append((dy(r.choice([-1, 1]) * r.range(1, 15), r.range(-20, 20)),
                        dy(r.choice([-1, 1]) * r.range(1, 15), r.range(-20, 20))))
        elif mode == 1:    # tiny separations next to large coordinates
            bx = r.choice([0, 1, -1]) * (1 << r.choice([0, 10, 20]))
            by = r.choice([0, 1, -1]) * (1 << r.choice([0, 10, 20]))
            out.append((bx + dy(r.range(-7, 7), -20), by + dy(r.range(-7, 7), -20)))
        else:              # a tight cluster at the origin plus far satellites
            if r.chance(2, 3):
                out.append((dy(r.range(-9, 9), -22), dy(r.range(-9, 9), -22)))
            else:
                out.append((dy(r.range(-9, 9), 17), dy(r.range(-9, 9), 17)))
    return out


def g_neartwins(r, n):
    """distinct points 2^-41..2^-48 of the coordinate scale apart, next to coarse ones: the tree has to separate them
    (depth ~50), nothing may be merged as if it were a coincident point.  Scale 1 and 2^8: the gap is below 1e-12 in
    absolute terms; scale 2^13, 2^20: the same relative gap (a few ulps) is above it"""
    S = 1 << r.choice([0, 0, 8, 13, 20])
    m = max(1, n - r.range(1, 3))
    base = [(S * dy(r.range(-15, 15), -3), S * dy(r.range(-15, 15), -3)) for _ in range(m)]
    out = list(base)
    while len(out) < max(n, m + 1):
        b = r.choice(base)
        ox = S * r.choice([-1, 0, 1]) * dy(1, -r.range(41, 48))
        oy = S * r.choice([-1, 0, 1]) * dy(1, -r.range(41, 48))
        if ox == 0 and oy == 0:
            ox = S * dy(1, -r.range(41, 48))
        out.append((b[0] + ox, b[1] + oy))
    return r.shuffle(out)


def g_boundary(r, n):
    """explicit dyadic root; points exactly on cell boundaries of levels 0..4 and on the root boundary"""
    a, b = r.range(-1, 3), r.range(-1, 3)
    cx, cy = dy(r.range(-4, 4), -1), dy(r.range(-4, 4), -1)
    hw, hh = dy(1, a), dy(1, b)
    out = []
    for _ in range(n):
        jx, jy = r.range(0, 4), r.range(0, 4)
        kx, ky = r.range(-(1 << jx), 1 << jx), r.range(-(1 << jy), 1 << jy)
        if r.chance(1, 4):
            kx = r.choice([-(1 << jx), 1 << jx])     # on the root boundary
        if r.chance(1, 4):
            ky = r.choice([-(1 << jy), 1 << jy])
        out.append((cx + hw * kx / (1 << jx), cy + hh * ky / (1 << jy)))
    return (cx, cy, hw, hh), out


def enclosing_root(r, pts, tight=False):
    """a dyadic cell containing every point (centre dyadic, half sizes powers of two)"""
    m = max([abs(c) for p in pts for c in p] + [Fraction(1, 1 << 30)])
    e = 0
    while dy(1, e) < m:
        e += 1
    while e > -40 and dy(1, e - 1) >= m:
        e -= 1
    if tight and r.chance(1, 2):
        return (Fraction(0), Fraction(0), dy(1, e), dy(1, e))
    e2 = e + r.range(0, 2)
    return (Fraction(0), Fraction(0), dy(1, e + 1), dy(1, e2 + 1)) if r.chance(1, 2) else \
        (dy(1, e - 1), -dy(1, e - 1), dy(1, e + 2), dy(1, e + 2))


FAMILIES = [("generic", g_generic), ("clustered", g_clustered), ("collinear", g_collinear),
            ("coincident", g_coincident), ("wide", g_wide), ("neartwins", g_neartwins)]


def make_case(r, fam, n):
    """-> dict(root, pts, label)"""
    if fam == "boundary":
        root, pts = g_boundary(r, n)
        if r.chance(1, 5):           # some points outside the root cell: insert() must refuse them
            pts = pts + [(root[0] + 3 * root[2], root[1])]
            pts = r.shuffle(pts)
        return {"root": root, "pts": pts, "label": "boundary"}
    pts = dict(FAMILIES)[fam](r, n)
    if r.chance(1, 2):
        return {"root": "def", "pts": pts, "label": fam + "/def"}
    return {"root": enclosing_root(r, pts, tight=True), "pts": pts, "label": fam + "/explicit"}


def case_line(c, qs=None, f=None):
    n = len(c["pts"])
    root = "def" if c["root"] == "def" else ",".join(fmt(v) for v in c["root"])
    if qs is None:
        qs = c.get("qs") or list(range(n))
    s = "quad root=%s pts=%s th=%s q=%s" % (root, fmt_pts(c["pts"]), ",".join(THETAS), ",".join(map(str, qs)))
    if f is not None:
        s += " f=" + f
    return s


# ----------------------------------------------------------------------------- oracle on the structural observables
def in_root(c, p):
    if c["root"] == "def":
        return True
    x, y, hw, hh = c["root"]
    return x - hw <= p[0] <= x + hw and y - hh <= p[1] <= y + hh


def structure_oracle(c, obs):
    """each point exactly once / coincident points share a cell — on the implementation's observation"""
    pts = c["pts"]
    n = len(pts)
    if obs.get("corr") != "1":
        return "isCorrect() is false"
    idx = [int(t) for t in obs.get("idx", "").split(",") if t != ""]
    if len(set(idx)) != len(idx):
        return "an index is stored twice: %s" % idx
    if any(i < 0 or i >= n for i in idx):
        return "a stored index is out of range: %s" % idx
    stored = {}
    for i in idx:
        if not in_root(c, pts[i]):
            return "point %d lies outside the root cell but is stored" % i
        if pts[i] in stored:
            return "coincident points %d and %d are both stored" % (stored[pts[i]], i)
        stored[pts[i]] = i
    for i in range(n):
        if in_root(c, pts[i]) and pts[i] not in stored:
            return "point %d is lost (neither stored nor coincident with a stored point)" % i
    return None


def parse_impl(line):
    """'corr=1 idx=.. depth=.. | f=..' -> dict"""
    d = {}
    for tok in line.replace("|", " ").split():
        if "=" in tok:
            k, v = tok.split("=", 1)
            d[k] = v
    return d


def parse_model(line):
    d = {}
    for tok in line.replace("|", " ").split():
        if "=" in tok:
            k, v = tok.split("=", 1)
            d[k] = v
    return d


def run_cases(ctx, binary, cases, timeout=120):
    """-> list of (impl_line, impl_dict or None, model_dict or None, model_line)"""
    lines = [case_line(c) for c in cases]
    impl = ctx.run_impl_cases(binary, lines, timeout=timeout)
    mlines = []
    for c, io in zip(cases, impl):
        if io.startswith("abort:") or " | f=" not in io:
            mlines.append(case_line(c))
        else:
            mlines.append(case_line(c, f=io.split(" | f=", 1)[1]))
    rc, model, err = ctx.run_model("model_c18", mlines)
    if rc != 0 or len(model) != len(cases):
        ctx.broken("model-driver", "model_c18", "model driver failed: rc=%s %s" % (rc, err[-300:]))
        model = ["ERR:driver"] * len(cases)
    out = []
    for io, mo in zip(impl, model):
        out.append((io, None if io.startswith("abort:") else parse_impl(io), parse_model(mo), mo))
    return out


def verdict(c, io, idict, mdict, mo):
    """-> (kind, signature, what) or None.  kind: 'fail' (oracle false on the implementation) / 'broken'"""
    if io.startswith("abort:"):
        sig = io[len("abort:"):]
        if "timeout" in sig or "stack-overflow" in sig:
            return ("fail", "abort:nontermination", "QuadTree construction does not terminate (%s)" % sig)
        return ("fail", "abort:" + sig, "QuadTree aborts (%s)" % sig)
    why = structure_oracle(c, idict)
    if why:
        kind = "lost" if "lost" in why else "twice" if "twice" in why or "both stored" in why else "other"
        return ("fail", "each-point-once:%s:%s-root" % (kind, "default" if c["root"] == "def" else "explicit"),
                "quadtree does not store each point exactly once: " + why)
    if mo.startswith("ERR") or mo.startswith("bad"):
        return ("broken", "model:" + mo.split()[0], "model driver answered %s" % mo)
    if mdict.get("fin", "").startswith("BAD"):
        return ("fail", "forces-non-finite", "computeNonEdgeForces returned a non-finite force or sum_Q: " + mdict["fin"][:200])
    for k, sig, what in (("th0", "theta0-forces", "theta = 0 forces differ from the exact all-pairs Student-t sums"),
                         ("below", "below-threshold-forces", "forces for 0 < theta < theta0 differ from the exact sums"),
                         ("quad", "error-bound", "Barnes-Hut error exceeds 16*theta^2*sum_Q (test-level bound)")):
        v = mdict.get(k, "")
        if v.startswith("BAD"):
            if mdict.get("frag") == "1" and "dupset=1" not in v:
                sig += ":point-on-rounded-boundary"
            if "dupset=1" in v and k != "quad":
                return ("fail", sig + ":coincident-elsewhere",
                        what + " for a query without coincident partner, in a set that contains coincident points "
                        "(a cell's mass is not the number of points inside its box): " + v[:300])
            return ("fail", sig, what + ": " + v[:300])
    if mdict.get("frag") != "1":
        for k in ("corr", "idx", "depth"):
            if idict.get(k) != mdict.get(k):
                return ("broken", "corr:structure", "model and implementation disagree on %s: impl %s model %s" % (
                    k, idict.get(k), mdict.get(k)))
    v = mdict.get("cmp", "")
    if v.startswith("BAD") and mdict.get("frag") != "1":
        return ("broken", "corr:forces", "model and implementation forces differ: " + v[:300])
    return None


def shrink(ctx, binary, c, sig):
    """smallest sub-list of points on which the same signature still shows"""
    def failing(sub):
        cc = dict(c, pts=list(sub))
        cc.pop("qs", None)
        res = run_cases(ctx, binary, [cc], timeout=30)
        v = verdict(cc, *res[0])
        return v is not None and v[1] == sig
    if len(c["pts"]) > 40:
        return c
    small = vlib.ddmin(c["pts"], failing, max_tests=120)
    cc = dict(c, pts=small)
    cc.pop("qs", None)
    return cc


def judge(ctx, binary, cases, timeout=120):
    res = run_cases(ctx, binary, cases, timeout=timeout)
    seen = set()
    for c, (io, idict, mdict, mo) in zip(cases, res):
        n = len(c["pts"])
        line = case_line(c)
        distinct = len(set(c["pts"]))
        ctx.count(line, nontrivial=(distinct >= 2))
        ctx.stat("family:" + c["label"])
        ctx.stat("N<=6" if n <= 6 else "N<=24" if n <= 24 else "N<=64" if n <= 64 else "N>64")
        ctx.cov["traces_validated_against_impl"] += 1
        if idict is not None:
            d = int(idict.get("depth", "0") or 0)
            ctx.stat("depth<=4" if d <= 4 else "depth<=12" if d <= 12 else "depth<=30" if d <= 30 else "depth>30")
        if distinct < n:
            ctx.stat("has-coincident-points")
        cm = (mdict or {}).get("cmp", "")
        if cm.startswith("ok:"):
            e, a, f = cm[3:].split(":")
            ctx.stat("force-comparisons-exact", int(e[1:]))
            ctx.stat("force-comparisons-approx", int(a[1:]))
            ctx.stat("force-comparisons-skipped-near-tie", int(f[1:]))
        for k in ("th0", "below", "quad"):
            v = (mdict or {}).get(k, "")
            if v.startswith("ok:"):
                ctx.stat("oracle-%s-evaluations" % k, int(v[3:]))
        if (mdict or {}).get("bskip", "0").isdigit() and int((mdict or {}).get("bskip", "0")) > 0:
            # theta below the exact threshold theta0 but not below the threshold with the rounding margin of the criterion
            # as evaluated in doubles: the below-threshold equality is not demanded there (the theta^2 error bound is)
            ctx.stat("oracle-below-not-judged-within-rounding-margin-of-theta0", int(mdict["bskip"]))
        if (mdict or {}).get("frag") == "1":
            ctx.stat("structure-near-boundary-skipped")
        v = verdict(c, io, idict, mdict, mo)
        if v is None:
            if len(ctx.cov["samples"]) < 5 and 3 <= n <= 6:
                ctx.sample({"case": line, "impl": io[:400], "model": mo[:400]})
            continue
        kind, sig, what = v
        ctx.stat("verdict:" + sig)
        if os.environ.get("C18_DEBUG"):
            ctx.log("verdict", sig, what[:200], "\n    ", line, "\n    impl:", io[:300], "\n    model:", mo[:300])
        if sig in seen:
            continue
        seen.add(sig)
        small = shrink(ctx, binary, c, sig) if kind == "fail" else c
        r2 = run_cases(ctx, binary, [small], timeout=30)[0]
        v2 = verdict(small, *r2) or v
        detail = {"impl": r2[0][:1500], "model": r2[3][:1500], "family": c["label"], "shrunk_from_points": n}
        if kind == "fail":
            ctx.fail(sig, v2[2] + " [%d points]" % len(small["pts"]), case=case_line(small), detail=detail)
        else:
            ctx.broken(sig, "correspondence c18_quad", v2[2], case=case_line(small), detail=detail)


def order_sweep(ctx, binary, base, label):
    """every insertion order of one point set (orders realised by permuting the input array)"""
    n = len(base["pts"])
    cases = []
    perms = list(itertools.permutations(range(n)))
    for pm in perms:
        cases.append(dict(base, pts=[base["pts"][k] for k in pm], label=label))
    res = run_cases(ctx, binary, cases, timeout=300)
    ref = None
    for pm, c, (io, idict, mdict, mo) in zip(perms, cases, res):
        ctx.count(case_line(c), nontrivial=len(set(c["pts"])) >= 2)
        ctx.cov["traces_validated_against_impl"] += 1
        ctx.stat("order-sweep-cases")
        v = verdict(c, io, idict, mdict, mo)
        if v is not None:
            kind, sig, what = v
            ctx.stat("verdict:" + sig)
            small = shrink(ctx, binary, c, sig) if kind == "fail" else c
            if kind == "fail":
                ctx.fail(sig, what + " [order sweep]", case=case_line(small), detail={"impl": io[:1200], "model": mo[:1200]})
            else:
                ctx.broken(sig, "correspondence c18_quad", what, case=case_line(small), detail={"impl": io[:1200], "model": mo[:1200]})
            continue
        # order independence of the stored coordinate set and of the depth
        idx = [int(t) for t in idict.get("idx", "").split(",") if t != ""]
        key = (sorted(c["pts"][i] for i in idx), idict.get("depth"))
        if ref is None:
            ref = (key, c)
        elif key != ref[0]:
            ctx.fail("order-dependent", "stored point set / depth depend on the insertion order",
                     case=case_line(c), detail={"other_order": case_line(ref[1]), "this": str(key), "other": str(ref[0])})
    return len(perms)


def corpus_cases():
    cdir = os.path.join(vlib.ROOT, "corpus", "C18")
    out = []
    if os.path.isdir(cdir):
        for f in sorted(os.listdir(cdir)):
            for l in open(os.path.join(cdir, f)):
                l = l.strip()
                if l.startswith("quad ") and not l.startswith("#"):
                    out.append(parse_case_line(l))
    return out


def parse_num(s):
    if ":" in s:
        m, e = s.split(":")
        return dy(int(m), int(e))
    return Fraction(s)


def parse_case_line(l):
    fs = dict(t.split("=", 1) for t in l.split()[1:])
    root = "def" if fs["root"] == "def" else tuple(parse_num(v) for v in fs["root"].split(","))
    pts = [tuple(parse_num(v) for v in p.split(",")) for p in fs["pts"].split(";") if p]
    return {"root": root, "pts": pts, "label": "corpus"}


def correspond(ctx):
    binary, log = ctx.build_harness("c18_quad.cpp")
    if not binary:
        ctx.broken("harness-build", "harness c18_quad.cpp", "harness does not compile against /repo: " + log[-800:])
        return
    r = ctx.rng
    quick = ctx.tier == "quick"
    if getattr(ctx, "replay", None) and ctx.replay.get("case"):
        judge(ctx, binary, [parse_case_line(ctx.replay["case"])])
        return
    cc = corpus_cases()
    if cc:
        judge(ctx, binary, cc)
    # 1. random sets, one (random) order each
    fams = [f for f, _ in FAMILIES] + ["boundary"]
    nsets = 420 if quick else 9000
    cases = []
    for k in range(nsets):
        fam = fams[k % len(fams)]
        if r.chance(3, 5):
            n = r.range(1, 8)
        elif r.chance(4, 5) or quick:
            n = r.range(9, 24)
        else:
            n = r.range(25, 120)
        c = make_case(r.fork(), fam, n)
        if len(c["pts"]) > 24:
            c["qs"] = sorted(set(r.below(len(c["pts"])) for _ in range(6)))
        cases.append(c)
    for i in range(0, len(cases), 150):
        judge(ctx, binary, cases[i:i + 150])
    # 2. every insertion order of small sets
    nsweeps = 0
    sweeps = [(4, 6), (5, 3)] if quick else [(3, 20), (4, 20), (5, 12), (6, 6)]
    for n, reps in sweeps:
        for k in range(reps):
            fam = fams[(k + n) % len(fams)]
            base = make_case(r.fork(), fam, n)
            nsweeps += order_sweep(ctx, binary, base, "orders/" + base["label"])
    ctx.extra["order_sweeps"] = {"orders_run": nsweeps, "sizes": [n for n, _ in sweeps]}
    ctx.cov["rule"] = ("dyadic 2-D point sets from 7 families (generic, clustered, collinear, coincident groups, coordinates spanning 2^40, distinct points closer than 2^-40, "
                       "points on cell/root boundaries of explicit dyadic roots), default and explicit root cells, N = 1..%d, one random order each, "
                       "plus every insertion order of %d small sets; theta in {0, 2^-20, 0.1, 0.5, 1, 2}; non-trivial = at least two distinct "
                       "points; distinct by case text" % (24 if quick else 120, sum(k for _, k in sweeps)))
    ctx.assumptions += [
        "model arithmetic is exact (ordered field); doubles are tied to it exactly on the structural observables (dyadic inputs, exact cell "
        "halving) and within tol = sum_Q*(2^-30 + 2^-44*max|coordinate|) on force sums (divisions by cum_size and 1+D are not dyadic)",
        "default-constructor root cells (mean, max deviation + 1e-5) are not dyadic: a case in which a point lies within relative 2^-40 of a cell "
        "boundary is excluded from the structural comparison (counted as structure-near-boundary-skipped)",
        "cell halving below the ulp of the cell centre (depth > ~45 at unit scale) is outside the exact model (DESIGN §9)",
        "the explicit error bound 16*theta^2*sum_Q is a test-level bound, not a theorem",
    ]
