"""C04 — Isomap geodesics are exact shortest paths; Isomap is classical MDS of them.
Model: lean/TapkeeVerif/Model/Dijkstra.lean (+ DijkstraSpec.lean: walks, Floyd-Warshall oracle; IsomapPre.lean);
theorems: Props/C04.lean; driver: lean/Driver/C04.lean;
harnesses: harness/c04_geo.cpp (both overloads of compute_shortest_distances_matrix, ASan+UBSan) and
harness/c04_iso.cpp (Isomap end to end with the eigen observer), each built twice (TAPKEE_USE_PRIORITY_QUEUE default,
-DTAPKEE_USE_FIBONACCI_HEAP) and run with OMP_NUM_THREADS in {1,2,3,8,16}."""
import itertools
import os
from concurrent.futures import ThreadPoolExecutor
from fractions import Fraction

import vlib

PROPERTY = "C04"
LEAN_MODULES = ["TapkeeVerif.Props.C04", "TapkeeVerif.Props.C04Compose"]
LEAN_EXES = ["model_c04"]
REQUIRED_THEOREMS = [
    "TapkeeVerif.Dijkstra.dijkstra_exact",
    "TapkeeVerif.Dijkstra.allPairs_is_geodesic_matrix",
    "TapkeeVerif.Dijkstra.backends_agree",
    "TapkeeVerif.Dijkstra.choice_covers_every_minimum",
    "TapkeeVerif.Dijkstra.diag_zero",
    "TapkeeVerif.Dijkstra.ge_direct",
    "TapkeeVerif.Dijkstra.le_edge",
    "TapkeeVerif.Dijkstra.fuel_suffices",
    "TapkeeVerif.Dijkstra.landmark_row_eq_full_row",
    "TapkeeVerif.Dijkstra.landmarkRows_ok",
    "TapkeeVerif.Dijkstra.rows_independent",
    "TapkeeVerif.Dijkstra.allPairs_schedule_independent",
    "TapkeeVerif.Dijkstra.isShortestPathMatrix_sound",
    "TapkeeVerif.Dijkstra.fib_build_refines_indexed",
    "TapkeeVerif.Dijkstra.fib_build_exact",
    "TapkeeVerif.Dijkstra.fib_build_total",
    "TapkeeVerif.IsomapPre.center_eq_JAJ",
    "TapkeeVerif.IsomapPre.isomap_is_cmds",
    "TapkeeVerif.IsomapPre.isomap_is_cmds_either_dense_preamble",
    "TapkeeVerif.IsomapPre.isomapSteps_as_written",
    "TapkeeVerif.IsomapPre.isomapPre_eq_cmds",
    "TapkeeVerif.Dijkstra.landmark_row_eq_full_row_of_flag",
    "TapkeeVerif.Dijkstra.landmark_row_eq_full_row_any_lazy",
    "TapkeeVerif.Dijkstra.popMin_removes_a_minimum",
    "TapkeeVerif.Dijkstra.oracle_agrees_with_model",
    "TapkeeVerif.IsomapPre.isomap_is_cmds_unrepaired_symm",
    "TapkeeVerif.IsomapPre.asymD_is_geodesic_matrix",
    "TapkeeVerif.IsomapPre.isomapPre_symm",
    "TapkeeVerif.IsomapPre.isomap_is_cmds_unrepaired_refuted",
    # Props/C04Compose.lean: the stage models (C02 search, C03 k doubling, C04 Dijkstra + isomapPre, C05 post) composed
    "TapkeeVerif.IsomapCompose.isomap_end_to_end",
    "TapkeeVerif.IsomapCompose.isomap_end_to_end_brute",
    "TapkeeVerif.IsomapCompose.isomap_queue_independent",
    "TapkeeVerif.IsomapCompose.isomap_full_k_is_mds_end_to_end",
    "TapkeeVerif.IsomapCompose.isomapPre_eq_isomapPreOfGeodesics",
]
BUILDS = ["pq", "fib"]
THREADS = [1, 2, 3, 8, 16]


def translate(ctx):
    """regenerate Gen/IsomapSteps.lean (flag index of the landmark overload, statement list of Isomap::embed) from /repo"""
    import importlib.util
    spec = importlib.util.spec_from_file_location("translate_c04", os.path.join(vlib.ROOT, "tools", "translate_c04.py"))
    mod = importlib.util.module_from_spec(spec)
    spec.loader.exec_module(mod)
    gen = os.path.join(vlib.LEAN_DIR, "TapkeeVerif", "Gen", "IsomapSteps.lean")
    notes = []
    # a part of the source the translator cannot parse keeps its previous generated value; whether behaviour changed is
    # then decided by the exact model/implementation correspondence (geo: whole matrices; iso: matrix before the solver)
    text = mod.generate(vlib.REPO, fallback_path=gen, notes=notes)
    ctx.c04_translator_notes = notes
    for n in notes:
        ctx.log("translator could not parse (previous value kept, correspondence decides):", n)
    if vlib.write_if_changed(gen, text):
        ctx.log("Gen/IsomapSteps.lean regenerated")


# ----------------------------------------------------------------------------- case text
def num(x):
    x = Fraction(x)
    return str(x.numerator) if x.denominator == 1 else "%d/%d" % (x.numerator, x.denominator)


def lists_txt(lists):
    return ";".join(",".join(str(v) for v in l) if l else "-" for l in lists)


def mat_txt(W):
    return ";".join(",".join(num(x) for x in row) for row in W)


class Geo:
    """one case of the `geo` topic"""

    def __init__(self, lists, W, lm=None, tag="", idx=None):
        self.lists = [list(l) for l in lists]
        self.W = [list(r) for r in W]
        self.lm = None if lm is None else list(lm)
        self.tag = tag
        self.idx = None if idx is None else list(idx)     # values of the caller's index vector (None: 0..N-1)

    @property
    def N(self):
        return len(self.lists)

    def line(self, extra=""):
        s = "geo %sN=%d lists=%s w=%s" % (extra, self.N, lists_txt(self.lists), mat_txt(self.W))
        if self.lm is not None:
            s += " lm=%s" % ",".join(str(v) for v in self.lm)
        if self.idx is not None:
            s += " idx=%s" % ",".join(str(v) for v in self.idx)
        return s

    def oracle_line(self, out):
        f = dict(t.split("=", 1) for t in out.split() if "=" in t)
        s = "oracle N=%d lists=%s w=%s" % (self.N, lists_txt(self.lists), mat_txt(self.W))
        if self.lm is not None:
            s += " lm=%s" % ",".join(str(v) for v in self.lm)
        return s + " F=%s L=%s" % (f.get("F", ""), f.get("L", ""))

    def nontrivial(self):
        return self.N >= 3 and len(self.lists[0]) >= 1


def parse_geo(line):
    f = dict(t.split("=", 1) for t in line.split()[1:] if "=" in t)
    lists = [[] if r == "-" else [int(v) for v in r.split(",")] for r in f["lists"].split(";")]
    W = [[Fraction(x) for x in r.split(",")] for r in f["w"].split(";")]
    lm = [int(v) for v in f["lm"].split(",") if v != ""] if "lm" in f else None
    idx = [int(v) for v in f["idx"].split(",")] if "idx" in f else None
    return Geo(lists, W, lm, "replay", idx)


# ----------------------------------------------------------------------------- generators (all randomness: ctx.rng)
WEIGHT_ALPHABETS = [
    [1], [0, 1], [1, 2], [1, 2, 3], [0, 1, 2, 5], [Fraction(1, 2), Fraction(1, 4), Fraction(3, 4), 1],
    [1, 1, 1, 2, Fraction(3, 2)], list(range(1, 20)),
]
# wide mantissas (audit b1): > 24 significant bits, every path sum of <= 200 terms still exact in double (< 53 bits),
# so a computation of path lengths in single precision is visible
WIDE_ALPHABETS = [
    [1 + Fraction(j, 2 ** 30) for j in (1, 2, 3, 5, 17, 255, 511, 1023)],
    [2 ** 26 + j for j in (0, 1, 2, 3, 7, 100, 1023)],
    [1, 2 ** 20 + 1, Fraction(1, 2 ** 20), 3 + Fraction(1, 2 ** 25)],
]


def wide(x):
    """more than 24 significant bits (not representable in single precision)"""
    x = Fraction(x)
    n = abs(x.numerator)
    while n and n % 2 == 0:
        n //= 2
    return n.bit_length() > 24


def index_vector(r, N):
    """a non-identity index vector: offset + permutation, or a strided range (values distinct, any order)"""
    kind = r.below(3)
    if kind == 0:
        return r.shuffle(list(range(N)))
    if kind == 1:
        off = r.range(1, 5)
        return [off + v for v in r.shuffle(list(range(N)))]
    step, off = r.range(2, 3), r.range(0, 4)
    return [off + step * v for v in (r.shuffle(list(range(N))) if r.chance(1, 2) else list(range(N)))]


def l1(p, q):
    return sum(abs(a - b) for a, b in zip(p, q))


def linf(p, q):
    return max(abs(a - b) for a, b in zip(p, q))


def g_knn(r, N, k):
    """true k-NN lists of integer lattice points under L1 / Linf (ties broken at random): asymmetric relation,
    metric weights, many equal path lengths"""
    dim = r.range(1, 3)
    span = r.choice([2, 3, 4, 6, 10])
    pts = [tuple(r.below(span) for _ in range(dim)) for _ in range(N)]
    dist = l1 if r.chance(2, 3) else linf
    scale = r.choice([1, 1, 1, Fraction(1, 2), Fraction(1, 4), 1 + Fraction(r.range(1, 1023), 2 ** 30),
                      2 ** 26 + r.below(1024)])
    W = [[dist(p, q) * scale for q in pts] for p in pts]
    lists = []
    for i in range(N):
        others = [j for j in range(N) if j != i]
        others = r.shuffle(others)
        others.sort(key=lambda j: W[i][j])
        lists.append(others[:k])
    return Geo(lists, W, tag="knn")


def g_digraph(r, N, k):
    """arbitrary uniform out-degree lists, arbitrary (asymmetric, non-metric) non-negative dyadic weights;
    sometimes self loops and repeated entries"""
    alpha = r.choice(WIDE_ALPHABETS) if r.chance(1, 3) else r.choice(WEIGHT_ALPHABETS)
    W = [[r.choice(alpha) for _ in range(N)] for _ in range(N)]
    if r.chance(1, 2):
        for i in range(N):
            W[i][i] = 0
    if r.chance(1, 3):      # symmetric weights
        for i in range(N):
            for j in range(i):
                W[i][j] = W[j][i]
    sloppy = r.chance(1, 8)
    lists = []
    for i in range(N):
        if sloppy:
            lists.append([r.below(N) for _ in range(k)])
        else:
            lists.append(r.shuffle([j for j in range(N) if j != i])[:k] if N > 1 else [0] * k)
            while len(lists[-1]) < k:
                lists[-1].append(r.below(N))
    return Geo(lists, W, tag="digraph")


def g_clusters(r, N, k):
    """several groups with lists inside the group; a few one-way bridges: unreachable parts"""
    ng = r.range(2, 3)
    grp = [r.below(ng) for _ in range(N)]
    alpha = r.choice(WEIGHT_ALPHABETS)
    W = [[0 if i == j else r.choice(alpha) for j in range(N)] for i in range(N)]
    lists = []
    for i in range(N):
        same = [j for j in range(N) if grp[j] == grp[i] and j != i] or [i]
        l = r.shuffle(same)[:k]
        while len(l) < k:
            l.append(r.choice(same))
        lists.append(l)
    for _ in range(r.range(0, 2)):      # one-way bridges
        i = r.below(N)
        if k:
            lists[i][r.below(k)] = r.below(N)
    return Geo(lists, W, tag="clusters")


def g_structured(r, N, k):
    """paths, cycles, grids with unit / equal weights: every tie there is"""
    kind = r.choice(["path", "cycle", "grid", "bipath"])
    unit = r.choice([1, 1, 2, Fraction(1, 2)])
    W = [[0 if i == j else unit for j in range(N)] for i in range(N)]
    if kind == "path":          # i -> i+1 ; last -> itself
        lists = [[min(i + 1, N - 1)] for i in range(N)]
    elif kind == "cycle":
        lists = [[(i + 1) % N] + ([(i + 2) % N] if k >= 2 else []) for i in range(N)]
    elif kind == "bipath":
        lists = [[min(i + 1, N - 1), max(i - 1, 0)] for i in range(N)]
    else:
        wdt = max(1, int(N ** 0.5))
        lists = []
        for i in range(N):
            x, y = i % wdt, i // wdt
            nb = [j for j in (i + 1 if x + 1 < wdt else i, i - 1 if x > 0 else i, i + wdt, i - wdt) if 0 <= j < N]
            while len(nb) < 4:
                nb.append(i)
            lists.append(nb[:4])
    if r.chance(1, 2):          # relabel the vertices
        perm = r.shuffle(list(range(N)))
        inv = [0] * N
        for new, old in enumerate(perm):
            inv[old] = new
        lists = [[inv[w] for w in lists[old]] for old in perm]
    return Geo(lists, W, tag=kind)


GENS = [("knn", g_knn), ("digraph", g_digraph), ("clusters", g_clusters), ("structured", g_structured)]


def g_malformed(r, N, k):
    """inputs outside the routine's contract, on which the code has undefined behaviour and the model its explicit
    `oob` state: a list shorter than neighbors[0], an entry == N, a landmark == N (all reachable from every source:
    the graph contains a Hamiltonian cycle)"""
    W = [[0 if i == j else 1 for j in range(N)] for i in range(N)]
    lists = [[(i + 1) % N] + [r.below(N) for _ in range(k - 1)] for i in range(N)]
    kind = r.choice(["short-list", "entry=N", "landmark=N"])
    c = Geo(lists, W, [r.below(N)], "malformed:" + kind)
    if kind == "short-list" and k >= 2:
        c.lists[r.range(1, N - 1)].pop()
    elif kind == "entry=N":
        c.lists[r.below(N)][r.below(k)] = N
        c.lists = [l if (i + 1) % N in l or N in l else l[:-1] + [(i + 1) % N] for i, l in enumerate(c.lists)]
    else:
        c.lm = c.lm + [N]
    return c


def all_subsets(n):
    for m in range(1, n + 1):
        for c in itertools.combinations(range(n), m):
            yield list(c)


# ----------------------------------------------------------------------------- running
def omp_env(t, alarm=60):
    # passive waiting: idle libgomp threads must not spin (10 harness processes x 16 threads share the machine);
    # C04_CASE_ALARM: per-case watchdog of the harness (a hang becomes the observation abort:timeout)
    return {"OMP_NUM_THREADS": str(t), "OMP_DYNAMIC": "false", "OMP_WAIT_POLICY": "passive",
            "C04_CASE_ALARM": str(alarm)}


def parallel(fn, items, workers=10):
    with ThreadPoolExecutor(max_workers=workers) as ex:
        return list(ex.map(fn, items))


def run_all_impl(ctx, bins, lines, threads):
    """{(build, t): [output line per case]}"""
    keys = [(b, t) for b in BUILDS for t in threads]

    def one(key):
        b, t = key
        return ctx.run_impl_cases(bins[b], lines, env=omp_env(t))
    outs = parallel(one, keys)
    return dict(zip(keys, outs))


def model_lines(ctx, lines):
    rc, out, err = ctx.run_model("model_c04", lines)
    if rc != 0 or len(out) != len(lines):
        ctx.broken("model-driver", "model_c04", "model driver failed: rc=%s %s" % (rc, err[-300:]))
        return None
    return out


def oracle_verdict(v):
    """`sp=ok diag=ok direct=ok|na lm=ok|na` -> list of violated clauses"""
    f = dict(t.split("=", 1) for t in v.split() if "=" in t)
    bad = []
    if f.get("sp") != "ok":
        bad.append("not-shortest-paths")
    if f.get("diag") != "ok":
        bad.append("diagonal-nonzero")
    if f.get("direct") not in ("ok", "na"):
        bad.append("below-direct-distance")
    if f.get("lm") not in ("ok", "na"):
        bad.append("landmark-row-differs-from-full-row")
    if not f:
        bad.append("oracle-unreadable:" + v[:40])
    return bad


CLAUSE_TEXT = {
    "not-shortest-paths": "the geodesic matrix is not the matrix of shortest-path lengths of the neighbourhood graph",
    "diagonal-nonzero": "a diagonal entry of the geodesic matrix is not zero",
    "below-direct-distance": "a geodesic is below the direct (metric) distance",
    "landmark-row-differs-from-full-row": "a landmark row differs from the corresponding row of the full matrix",
}


def judge_geo(ctx, bins, cases, label, threads=THREADS, shrink_budget=120):
    """cases: list of Geo.  implementation (2 builds x thread counts), model (2 disciplines), oracle."""
    if not cases:
        return
    lines = [c.line() for c in cases]
    impl = run_all_impl(ctx, bins, lines, threads)
    mlines = []
    for c in cases:
        for b in BUILDS:
            mlines.append(c.line("heap=%s " % b))
    # model under other tie-breaking streams (every stream must give the same matrix: backends_agree)
    alt = [i for i in range(len(cases)) if i % 4 == 0]
    for i in alt:
        for b in BUILDS:
            mlines.append(cases[i].line("heap=%s ch=%d " % (b, 1 + i % 7)))
    # the Fibonacci build with the concrete heap model of C16 (its own tie-breaking), and pseudo-random schedules
    # over garbage-filled thread scratch state: both must print what the sequential abstract model prints
    fibheap = [i for i in range(len(cases)) if i % 3 == 0 and cases[i].N <= 48]
    sched = [i for i in range(len(cases)) if i % 5 == 1 and cases[i].N <= 48]
    nbase = len(mlines)
    for i in fibheap:
        mlines.append(cases[i].line("heap=fibheap "))
    for i in sched:
        mlines.append(cases[i].line("heap=%s sched=%d threads=%d " % (BUILDS[i % 2], 1 + i, 1 + i % 4)))
    mout = model_lines(ctx, mlines)
    if mout is None:
        return
    model = {(i, b): mout[2 * i + j] for i in range(len(cases)) for j, b in enumerate(BUILDS)}
    base = 2 * len(cases)
    for n, i in enumerate(alt):
        for j, b in enumerate(BUILDS):
            if mout[base + 2 * n + j] != model[(i, b)]:
                ctx.broken("model:tie-break-dependent:" + b, "TapkeeVerif.Dijkstra.backends_agree (model run)",
                           "the model's matrix depends on the queue's tie-breaking choice", case=mlines[base + 2 * n + j],
                           detail={"ch=0": model[(i, b)], "other": mout[base + 2 * n + j]})
    for n, i in enumerate(fibheap):
        ctx.stat("geo:model-with-C16-heap:" + ("identical" if mout[nbase + n] == model[(i, "fib")] else "DIFFERS"))
        if mout[nbase + n] != model[(i, "fib")]:
            ctx.broken("model:fibheap-differs", "TapkeeVerif.Dijkstra.fib_build_refines_indexed (model run)",
                       "the Fibonacci build driven by the concrete heap model of C16 differs from the abstract indexed discipline",
                       case=mlines[nbase + n], detail={"fibheap": mout[nbase + n], "indexed": model[(i, "fib")]})
    for n, i in enumerate(sched):
        o = mout[nbase + len(fibheap) + n]
        ctx.stat("geo:model-schedule:" + ("identical" if o == model[(i, BUILDS[i % 2])] else "DIFFERS"))
        if o != model[(i, BUILDS[i % 2])]:
            ctx.broken("model:schedule-dependent", "TapkeeVerif.Dijkstra.rows_independent (model run)",
                       "a scrambled schedule over garbage-filled scratch state gives a different matrix than the sequential model",
                       case=mlines[nbase + len(fibheap) + n], detail={"scheduled": o, "sequential": model[(i, BUILDS[i % 2])]})
    # oracle on every distinct implementation observation
    distinct = {}
    for i, c in enumerate(cases):
        for key, outs in impl.items():
            o = outs[i]
            if not o.startswith("abort:") and (i, o) not in distinct:
                distinct[(i, o)] = None
    okeys = list(distinct)
    overd = model_lines(ctx, [cases[i].oracle_line(o) for i, o in okeys]) if okeys else []
    if overd is None:
        return
    for kk, v in zip(okeys, overd):
        distinct[kk] = oracle_verdict(v)
    # the model's own output must satisfy the oracle as well (sampled)
    msample = [(i, b) for i in range(0, len(cases), 5) for b in ["pq"]]
    mver = model_lines(ctx, [cases[i].oracle_line(model[(i, b)]) for i, b in msample]) if msample else []
    for (i, b), v in zip(msample, mver or []):
        if oracle_verdict(v) and "ERR" not in model[(i, b)]:
            ctx.broken("model:oracle-reject", "TapkeeVerif.Dijkstra.dijkstra_exact (model run)",
                       "the oracle rejects the model's own matrix: %s" % v, case=cases[i].line("heap=%s " % b))
    for i, c in enumerate(cases):
        ctx.count(lines[i], c.nontrivial())
        ctx.stat("geo:gen:" + label)
        ctx.stat("geo:N<=6" if c.N <= 6 else "geo:N<=16" if c.N <= 16 else "geo:N<=32" if c.N <= 32 else "geo:N>32")
        if c.lm is not None:
            ctx.stat("geo:with-landmarks")
        ctx.stat("geo:index-vector:" + ("identity" if c.idx is None or c.idx == list(range(c.N)) else "non-identity"))
        if any(wide(x) for row in c.W for x in row):
            ctx.stat("geo:weights-with-more-than-24-significant-bits")
        first = impl[(BUILDS[0], threads[0])][i]
        if "dblmax" in first:
            ctx.stat("geo:has-unreachable")
        reported = set()
        for (b, t), outs in impl.items():
            o = outs[i]
            ctx.cov["traces_validated_against_impl"] += 1
            if o.startswith("abort:") and "ERR:oob" in model[(i, b)]:
                # undefined behaviour in the code <-> the model's explicit oob state (inputs outside the contract)
                ctx.stat("geo:oob-agree(impl aborts, model ERR:oob):" + b)
                if (b, t) == (BUILDS[0], threads[0]):
                    ctx.stat("geo:unjudged(agreed oob/abort)")
                continue
            if c.tag.startswith("malformed") and "ERR:oob" in model[(i, b)] and not o.startswith("abort:"):
                sig = "corr:geo:oob:" + b
                if sig not in reported:
                    reported.add(sig)
                    ctx.broken(sig, "correspondence c04_geo (%s build): model oob state vs sanitizer abort" % b,
                               "the model reaches its out-of-bounds state but the implementation ran to completion under ASan/UBSan",
                               case=lines[i], detail={"build": b, "threads": t, "impl": o, "model": model[(i, b)]})
                continue
            if o.startswith("abort:"):
                sig = "geo:%s:abort:%s" % (b, o[6:])
                if sig not in reported:
                    reported.add(sig)
                    ctx.fail(sig, "compute_shortest_distances_matrix aborts (%s) in the %s build with %d threads" % (o[6:], b, t),
                             case=lines[i], detail={"build": b, "threads": t, "model": model[(i, b)],
                                                    "stderr": getattr(ctx, "last_abort_stderr", "")[-1500:]})
                continue
            bad = distinct[(i, o)]
            if bad:
                sig = "geo:%s:%s" % (b, bad[0])
                if sig in reported:
                    continue
                reported.add(sig)
                ctx.stat("geo:oracle-reject:%s:%s" % (b, bad[0]))
                ctx.stat("geo:model-%s-defect:%s" % ("reproduces" if o == model[(i, b)] else "DIFFERS-on", b))
                if sig in ctx.c04_seen:         # shrink and report the first failing case of each kind only
                    continue
                ctx.c04_seen.add(sig)
                small = shrink_geo(ctx, bins, c, b, t, bad[0], shrink_budget)
                sl = small.line()
                so = ctx.run_impl_cases(bins[b], [sl], env=omp_env(t))[0]
                sm = model_lines(ctx, [small.line("heap=%s " % b)]) or ["?"]
                ctx.fail(sig, "%s (%s build, %d threads): %s" % (CLAUSE_TEXT.get(bad[0], bad[0]), b, t, ", ".join(bad)),
                         case=sl, detail={"build": b, "threads": t, "impl": so, "model_same_discipline": sm[0],
                                          "clauses": bad, "shrunk_from_N": c.N, "original_case": lines[i][:2000]})
                continue
            if o != model[(i, b)]:
                sig = "corr:geo:" + b
                if sig not in reported:
                    reported.add(sig)
                    ctx.broken(sig, "correspondence c04_geo (%s build): model and implementation matrices" % b,
                               "model and implementation disagree although the implementation's matrix passes the oracle",
                               case=lines[i], detail={"build": b, "threads": t, "impl": o, "model": model[(i, b)]})
                ctx.stat("geo:mismatch:" + b)
            else:
                ctx.stat("geo:identical:" + b)
        if len(ctx.cov["samples"]) < 4 and c.nontrivial() and c.N <= 6 and c.lm:
            ctx.sample({"case": lines[i], "impl(pq,1 thread)": first, "model(pq)": model[(i, "pq")],
                        "oracle": distinct.get((i, first))})


def geo_fails(ctx, bins, c, b, t, clause):
    out = ctx.run_impl_cases(bins[b], [c.line()], env=omp_env(t, alarm=5))
    if not out or out[0].startswith("abort:"):
        return False
    v = model_lines(ctx, [c.oracle_line(out[0])])
    return bool(v) and clause in oracle_verdict(v[0])


def drop_vertex(c, v):
    """remove vertex v: its list goes, references to it are redirected to the referring list's first other entry
    (or to the vertex itself), indices above v shift down"""
    if c.N <= 1:
        return None

    def ren(x):
        return x - 1 if x > v else x
    lists = []
    for u, l in enumerate(c.lists):
        if u == v:
            continue
        alt = [x for x in l if x != v]
        sub = alt[0] if alt else u
        lists.append([ren(sub if x == v else x) for x in l])
    W = [[c.W[i][j] for j in range(c.N) if j != v] for i in range(c.N) if i != v]
    lm = None
    if c.lm is not None:
        lm = [ren(x) for x in c.lm if x != v]
        if not lm:
            return None
    return Geo(lists, W, lm, c.tag, None if c.idx is None else [x for i, x in enumerate(c.idx) if i != v])


def shrink_geo(ctx, bins, c, b, t, clause, budget):
    tests = [0]

    def bad(x):
        if x is None or tests[0] >= budget:
            return False
        tests[0] += 1
        return geo_fails(ctx, bins, x, b, t, clause)
    cur = c
    progress = True
    while progress and tests[0] < budget:
        progress = False
        # fewer landmarks
        if cur.lm and len(cur.lm) > 1:
            for i in range(len(cur.lm)):
                x = Geo(cur.lists, cur.W, cur.lm[:i] + cur.lm[i + 1:], cur.tag, cur.idx)
                if bad(x):
                    cur, progress = x, True
                    break
            if progress:
                continue
        # fewer vertices
        for v in range(cur.N - 1, -1, -1):
            x = drop_vertex(cur, v)
            if bad(x):
                cur, progress = x, True
                break
        if progress:
            continue
        # smaller out-degree
        k = len(cur.lists[0])
        if k > 1 and all(len(l) == k for l in cur.lists):
            for col in range(k):
                x = Geo([l[:col] + l[col + 1:] for l in cur.lists], cur.W, cur.lm, cur.tag, cur.idx)
                if bad(x):
                    cur, progress = x, True
                    break
            if progress:
                continue
        # unit weights
        if any(w not in (0, 1) for r_ in cur.W for w in r_):
            x = Geo(cur.lists, [[0 if i == j else 1 for j in range(cur.N)] for i in range(cur.N)], cur.lm, cur.tag, cur.idx)
            if bad(x):
                cur, progress = x, True
    return cur


# ----------------------------------------------------------------------------- Isomap end to end
class Iso:
    def __init__(self, W, k, d, eig="dense", cc=0, tag="", idx=None, approx=False):
        self.W, self.k, self.d, self.eig, self.cc, self.tag = W, k, d, eig, cc, tag
        self.idx = idx          # values of the caller's index vector (None: 0..N-1)
        self.approx = approx    # squares of the geodesics are not exact in double: compare `pre` within 2^-30*scale

    @property
    def N(self):
        return len(self.W)

    def line(self):
        s = "iso N=%d k=%d d=%d eig=%s cc=%d w=%s" % (self.N, self.k, self.d, self.eig, self.cc, mat_txt(self.W))
        if self.idx is not None:
            s += " idx=%s" % ",".join(str(v) for v in self.idx)
        if self.approx:
            s += " approx=1"
        return s


def parse_iso(line):
    f = dict(t.split("=", 1) for t in line.split()[1:] if "=" in t)
    W = [[Fraction(x) for x in r.split(",")] for r in f["w"].split(";")]
    idx = [int(v) for v in f["idx"].split(",")] if "idx" in f else None
    return Iso(W, int(f["k"]), int(f["d"]), f.get("eig", "dense"), int(f.get("cc", "0")), "replay", idx,
               f.get("approx") == "1")


def i_points(r, N):
    """distinct integer points, L1 distances (exact in double); N a power of two so that all means are dyadic"""
    kind = r.choice(["line", "curve", "grid", "cloud", "twolines"])
    pts = set()
    if kind == "line":
        xs = r.shuffle(list(range(3 * N)))[:N]
        pts = {(x, 0) for x in xs}
    elif kind == "curve":
        for i in range(N):
            pts.add((i, (i * i) % 7 + (i // 3)))
    elif kind == "grid":
        wdt = 1
        while wdt * wdt < N:
            wdt += 1
        cells = r.shuffle([(x, y) for x in range(wdt) for y in range(wdt)])[:N]
        pts = set(cells)
    elif kind == "twolines":
        for i in range(N // 2):
            pts.add((i, 0))
            pts.add((i + r.below(2), 3))
    while len(pts) < N:
        pts.add((r.below(2 * N), r.below(2 * N)))
    pts = r.shuffle(sorted(pts))[:N]
    W = [[l1(p, q) for q in pts] for p in pts]
    return W, kind


def i_matrix(r, N):
    """precomputed integer dissimilarities (symmetric or not, positive off the diagonal)"""
    W = [[0 if i == j else r.range(1, 9) for j in range(N)] for i in range(N)]
    if r.chance(2, 3):
        for i in range(N):
            for j in range(i):
                W[i][j] = W[j][i]
    return W, "matrix"


# declared skip budgets (audit a1): a leg whose cases are mostly not judged must not stay green
ISO_MAX_EXPECTED_FAILURE_FRACTION = 0.25    # model itself predicts a non-finite matrix (check off, graph not strongly connected)
ISO_MAX_CERT_UNJUDGED_FRACTION = 0.20       # eligible (dense, N <= 16, finite) cases whose certificate is inconclusive / na
GEO_MAX_UNJUDGED_FRACTION = 0.05            # geo cases that end in the agreed oob/abort state (malformed inputs)


def iso_model_line(c, f):
    """what the driver judges: the lists OBSERVED inside embed(), the weights, and either `thrown` or the observations"""
    base = "iso N=%d k=%d cc=%d nb=%s w=%s" % (c.N, c.k, c.cc, f.get("nb", ""), mat_txt(c.W))
    if "throw" in f:
        return base + " thrown=1"
    extra = ""
    if c.eig == "dense" and c.N <= 16:      # certificate of the final embedding (exact LDLt: small N only)
        extra = " d=%d ev=%s Y=%s" % (c.d, f.get("ev", ""), f.get("Y", ""))
    return base + " pre=%s%s%s" % (f.get("pre", ""), extra, " approx=1" if c.approx else "")


def judge_iso(ctx, bins, cases, threads):
    if not cases:
        return
    lines = [c.line() for c in cases]
    impl = run_all_impl(ctx, bins, lines, threads)
    ref_key = (BUILDS[0], threads[0])
    acc = ctx.c04_iso

    def fields(o):
        return dict(t.split("=", 1) for t in o.split() if "=" in t)
    mlines, midx = [], []
    for i, c in enumerate(cases):
        o = impl[ref_key][i]
        if o.startswith("abort:"):
            continue
        mlines.append(iso_model_line(c, fields(o)))
        midx.append(i)
    # the certificate of the final embedding is also run on the Fibonacci build's output (its Y / ev)
    fib_key = ("fib", threads[0])
    fidx = []
    for i, c in enumerate(cases):
        o = impl[fib_key][i]
        if c.eig == "dense" and c.N <= 16 and not o.startswith("abort:") and "throw" not in fields(o):
            mlines.append(iso_model_line(c, fields(o)))
            fidx.append(i)
    mout = model_lines(ctx, mlines) if mlines else []
    if mout is None:
        return
    verdict = dict(zip(midx, mout))
    verdict_fib = dict(zip(fidx, mout[len(midx):]))

    def fail_once(sig, what, i, detail):
        ctx.stat(sig)
        if sig in ctx.c04_seen:
            return
        ctx.c04_seen.add(sig)
        ctx.fail(sig, what, case=lines[i], detail=detail)
    for i, c in enumerate(cases):
        ctx.count(lines[i], True)
        ctx.stat("iso:N=%d" % c.N)
        ctx.stat("iso:gen:" + c.tag)
        acc["total"] += 1
        ref = impl[ref_key][i]
        rf = fields(ref)
        # identical for both back-ends and all thread counts: observed lists, outcome, matrix before the eigensolver (exact)
        for (b, t), outs in impl.items():
            ctx.cov["traces_validated_against_impl"] += 1
            o = outs[i]
            if o.startswith("abort:"):
                fail_once("iso:%s:abort:%s" % (b, o[6:]), "Isomap aborts (%s), %s build, %d threads" % (o[6:], b, t), i,
                          {"stderr": getattr(ctx, "last_abort_stderr", "")[-1500:]})
                continue
            if ref.startswith("abort:"):
                continue
            of = fields(o)
            if ("throw" in of) != ("throw" in rf):
                fail_once("iso:config-dependent-outcome",
                          "Isomap outcome differs between configurations: %s/%d threads: %s vs %s" % (b, t, o[:80], ref[:80]),
                          i, {"this": o[:2000], "reference": ref[:2000]})
                continue
            if of.get("pre") != rf.get("pre") or of.get("nb") != rf.get("nb") or of.get("rounds") != rf.get("rounds"):
                fail_once("iso:config-dependent:" + b,
                          "the neighbour lists / the matrix Isomap hands to the eigensolver differ between back-ends / thread "
                          "counts (%s build, %d threads vs %s build, %d thread)" % (b, t, ref_key[0], ref_key[1]), i,
                          {"this": o[:3000], "reference": ref[:3000]})
        v = verdict.get(i)
        if v is None:
            continue
        vf = fields(v)
        thrown = "throw" in rf
        # ---- the lists observed inside embed(): uniform, of the length the doubling rule gives
        rounds = int(rf.get("rounds", "0") or 0)
        obs = [] if not rf.get("nb") else [0 if l == "-" else len(l.split(",")) for l in rf["nb"].split(";")]
        want_k = min(c.k * 2 ** max(rounds - 1, 0), c.N - 1)
        ctx.stat("iso:rounds=%d" % rounds)
        ctx.stat("iso:k=%d" % c.k)
        ctx.stat("iso:d=%d" % c.d)
        ctx.stat("iso:index-vector:" + ("identity" if c.idx is None or c.idx == list(range(c.N)) else "non-identity"))
        if (rf.get("shape", "ok") != "ok" or vf.get("graph") != "ok" or not obs or any(n != want_k for n in obs) or rounds < 1
                or (c.cc == 0 and rounds != 1)):
            # the OBSERVATION is not of the expected shape (e.g. the search was restructured): a broken tie, not a
            # failing input -- the property says nothing about how the search asks its questions
            ctx.stat("iso:observed-lists-not-recognised")
            acc["unrecognised"] = acc.get("unrecognised", 0) + 1
            if "corr:iso-observed-lists" not in ctx.c04_seen:
                ctx.c04_seen.add("corr:iso-observed-lists")
                ctx.broken("corr:iso-observed-lists", "correspondence c04_iso: neighbour lists observed through the distance callback",
                           "the query pattern of Isomap::embed is not recognised as rounds of complete pair covers followed by edge "
                           "queries over uniform lists of min(k*2^(rounds-1), N-1) = %d entries (shape=%s, rounds=%d, lengths %s, "
                           "model: %s)" % (want_k, rf.get("shape"), rounds, sorted(set(obs)), vf.get("graph")),
                           case=lines[i], detail={"verdict": v, "impl": ref[:2000]})
            continue
        if vf.get("ref", "ok") != "ok":
            ctx.broken("model:dijkstra-vs-floyd-warshall", "TapkeeVerif.Dijkstra.dijkstra_exact (model run)",
                       "the model's Dijkstra and the Floyd-Warshall reference disagree on the observed lists", case=lines[i],
                       detail={"verdict": v})
        reach = vf.get("reach")
        ctx.stat("iso:model-predicts-" + str(reach))
        if reach == "unreachable":
            if c.cc == 1:
                # check_connectivity on (the default): the returned graph is strongly connected, so every geodesic is finite
                fail_once("iso:connectivity-check-on-but-unreachable",
                          "check_connectivity is on but the neighbourhood graph Isomap used has unreachable pairs (infinite "
                          "geodesics%s)" % (": " + rf["throw"] if thrown else ""), i, {"verdict": v, "impl": ref[:2000]})
                continue
            # check off and the graph is not strongly connected: the model itself predicts a non-finite matrix
            acc["expected_failure"] += 1
            ctx.stat("iso:expected-failure(model predicts non-finite matrix):" + ("throws" if thrown else "returns"))
            continue
        if thrown:
            fail_once("iso:throws-on-finite-geodesics",
                      "Isomap throws (%s) although every geodesic of the neighbourhood graph it used is finite" % rf["throw"],
                      i, {"verdict": v, "impl": ref[:2000]})
            continue
        ctx.stat("iso:geodesics-symmetric" if vf.get("sym") == "1" else "iso:geodesics-asymmetric")
        if not c.approx:
            ctx.stat("exact-comparisons", c.N * c.N)
        if str(vf.get("pre")).startswith("FAIL"):
            fail_once("iso:matrix-not-finite", "the matrix Isomap hands to the eigensolver is not finite although all geodesics "
                      "are finite", i, {"verdict": v, "impl": ref[:2000]})
            continue
        if vf.get("cmds") != "ok":
            # the property's oracle: the matrix the dense solver decomposes is -1/2 J S J of the averaged squared geodesics
            sig = "iso:not-classical-mds:sym=%s" % vf.get("sym")
            ctx.stat(sig)
            if vf.get("pre") == "ok":
                ctx.stat("iso:model-reproduces-defect")
            if sig in ctx.c04_seen:
                continue
            ctx.c04_seen.add(sig)
            small = shrink_iso(ctx, bins, c)
            ctx.fail(sig, "the matrix decomposed by Isomap is not the classical-MDS matrix -1/2 J S J of the (direction-averaged) "
                     "squared geodesics [%s; geodesics %ssymmetric]" % (vf.get("cmds"), "" if vf.get("sym") == "1" else "a"),
                     case=small.line(), detail={"verdict": v, "original": lines[i][:1500], "impl": ref[:1500]})
            continue
        yv = vf.get("y", "na")
        ctx.stat("iso:embedding-certificate:" + yv.split(":")[0])
        if c.eig == "dense" and c.N <= 16:
            acc["cert_eligible"] += 1
            if not (yv.startswith("ok") or yv.startswith("FAIL")):
                acc["cert_unjudged"] += 1
        if yv.startswith("ok"):
            ctx.stat("approx-comparisons", c.N * c.d + c.d * c.d)
        vfib = verdict_fib.get(i)
        if vfib is not None:
            yfib = fields(vfib).get("y", "na")
            ctx.stat("iso:embedding-certificate(fib build):" + yfib.split(":")[0])
            if yfib.startswith("FAIL"):
                fail_once("iso:embedding-not-classical-mds:fib:" + yfib,
                          "the embedding returned by Isomap (Fibonacci build) is not the classical-MDS solution of the reference "
                          "geodesics (%s)" % yfib, i, {"verdict": vfib, "impl": impl[fib_key][i][:3000]})
        if yv.startswith("FAIL"):
            fail_once("iso:embedding-not-classical-mds:" + yv,
                      "the embedding returned by Isomap is not the classical-MDS solution of the reference geodesics (%s: finite "
                      "values, Gram matrix, eigen-residual, extremality checked in exact arithmetic, tolerance 2^-30*scale)" % yv,
                      i, {"verdict": v, "impl": ref[:3000]})
        if vf.get("pre") == "ok~":
            ctx.stat("iso:pre-within-2^-30(wide-mantissa family)")
            ctx.stat("approx-comparisons", c.N * c.N)
            acc["judged"] += 1
        elif vf.get("pre") != "ok":
            ctx.broken("corr:iso-pre", "correspondence c04_iso: matrix handed to the eigensolver vs model isomapPre",
                       "model isomapPre and the observed matrix differ: %s" % vf.get("pre"), case=lines[i],
                       detail={"verdict": v, "impl": ref[:3000]})
            ctx.stat("iso:pre-mismatch")
        else:
            ctx.stat("iso:pre-identical")
            acc["judged"] += 1
        if len([s for s in ctx.cov["samples"] if "iso" in str(s.get("case", ""))[:4]]) < 2 and c.N <= 8:
            ctx.sample({"case": lines[i], "impl": ref[:600], "model_verdict": v})


def skip_guards(ctx):
    """a leg that silently stops judging its cases is a broken tie, not a green run"""
    a = ctx.c04_iso
    ctx.extra["iso_leg"] = dict(a)
    if a["total"]:
        if a["expected_failure"] > ISO_MAX_EXPECTED_FAILURE_FRACTION * a["total"]:
            ctx.broken("guard:iso-skip-rate", "correspondence c04_iso (skip-rate guard)",
                       "%d of %d Isomap cases are in the class where the model itself predicts failure (allowed: %d%%): the leg "
                       "no longer judges enough cases" % (a["expected_failure"], a["total"], 100 * ISO_MAX_EXPECTED_FAILURE_FRACTION))
        if a["cert_eligible"] and a["cert_unjudged"] > ISO_MAX_CERT_UNJUDGED_FRACTION * a["cert_eligible"]:
            ctx.broken("guard:iso-certificate-skip-rate", "correspondence c04_iso (certificate skip-rate guard)",
                       "%d of %d eligible embeddings were not judged by the certificate (inconclusive / na; allowed: %d%%)"
                       % (a["cert_unjudged"], a["cert_eligible"], 100 * ISO_MAX_CERT_UNJUDGED_FRACTION))
        if a.get("unrecognised", 0) * 4 > a["total"] and "corr:iso-observed-lists" not in ctx.c04_seen:
            ctx.broken("guard:iso-unrecognised", "correspondence c04_iso (observation guard)",
                       "%d of %d Isomap cases have an unrecognised query pattern" % (a["unrecognised"], a["total"]))
        if a["judged"] * 2 < a["total"] and "corr:iso-observed-lists" not in ctx.c04_seen:
            ctx.broken("guard:iso-judged-rate", "correspondence c04_iso (judged-rate guard)",
                       "only %d of %d Isomap cases reached the exact comparison of the matrix handed to the eigensolver"
                       % (a["judged"], a["total"]))
    d = ctx.extra.get("distribution", {})
    geo_total = sum(v for k, v in d.items() if k.startswith("geo:gen:"))
    geo_unjudged = d.get("geo:unjudged(agreed oob/abort)", 0)
    ctx.extra["geo_leg"] = {"total": geo_total, "unjudged": geo_unjudged}
    if geo_total and geo_unjudged > GEO_MAX_UNJUDGED_FRACTION * geo_total:
        ctx.broken("guard:geo-skip-rate", "correspondence c04_geo (skip-rate guard)",
                   "%d of %d geo cases end in the agreed out-of-contract state and are not judged by the oracle (allowed: %d%%)"
                   % (geo_unjudged, geo_total, 100 * GEO_MAX_UNJUDGED_FRACTION))


def iso_bad(ctx, bins, c):
    o = ctx.run_impl_cases(bins["pq"], [c.line()], env=omp_env(1, alarm=10))
    if not o or o[0].startswith("abort:"):
        return False
    f = dict(t.split("=", 1) for t in o[0].split() if "=" in t)
    if "throw" in f:
        return False
    v = model_lines(ctx, [iso_model_line(c, f)])
    if not v:
        return False
    vf = dict(t.split("=", 1) for t in v[0].split() if "=" in t)
    return vf.get("reach") == "finite" and vf.get("cmds", "ok") not in ("ok", "na")


def shrink_iso(ctx, bins, c):
    """smaller power-of-two N (leading principal sub-configuration), then smaller k, d"""
    cur = c
    n = c.N // 2
    while n >= 4:
        x = Iso([row[:n] for row in cur.W[:n]], min(cur.k, n - 1), min(cur.d, n - 1), cur.eig, cur.cc, cur.tag,
                None if cur.idx is None else cur.idx[:n], cur.approx)
        if x.k >= 3 and iso_bad(ctx, bins, x):
            cur = x
            n //= 2
        else:
            break
    for k in range(3, cur.k):
        x = Iso(cur.W, k, cur.d, cur.eig, cur.cc, cur.tag, cur.idx, cur.approx)
        if iso_bad(ctx, bins, x):
            cur = x
            break
    if cur.d > 1:
        x = Iso(cur.W, cur.k, 1, cur.eig, cur.cc, cur.tag, cur.idx, cur.approx)
        if iso_bad(ctx, bins, x):
            cur = x
    return cur


# ----------------------------------------------------------------------------- correspondence
def build_all(ctx, quick):
    """four (quick) harness builds in parallel; {topic: {build: path}}"""
    iso_flags = None if not quick else [f for f in vlib.HARNESS_FLAGS if not f.startswith("-fsanitize") and
                                        not f.startswith("-fno-sanitize") and f != "-g"]
    jobs = []
    for b in BUILDS:
        extra = ["-DTAPKEE_USE_FIBONACCI_HEAP"] if b == "fib" else []
        jobs.append(("geo", b, "c04_geo.cpp", "c04_geo_" + b, extra, None))
        if quick:
            jobs.append(("iso", b, "c04_iso.cpp", "c04_iso_" + b, extra, iso_flags))
        else:       # thorough: the public API (tapkee::with(...).embedUsing) under ASan+UBSan
            jobs.append(("iso", b, "c04_iso.cpp", "c04_isoapi_" + b, extra + ["-DC04_PUBLIC_API"], None))

    def one(j):
        topic, b, src, name, extra, flags = j
        return ctx.build_harness(src, name=name, extra=extra, flags=flags)
    res = parallel(one, jobs, workers=4)
    bins = {"geo": {}, "iso": {}}
    for (topic, b, src, name, extra, flags), (path, log) in zip(jobs, res):
        if not path:
            ctx.broken("harness-build:" + name, "harness " + src, "harness does not compile against /repo: " + log[-800:])
            return None
        bins[topic][b] = path
    return bins


def corpus_lines():
    cdir = os.path.join(vlib.ROOT, "corpus", "C04")
    out = []
    if os.path.isdir(cdir):
        for f in sorted(os.listdir(cdir)):
            for l in open(os.path.join(cdir, f)):
                l = l.strip()
                if l.startswith("geo ") or l.startswith("iso "):
                    out.append(l)
    return out


def correspond(ctx):
    quick = ctx.tier == "quick"
    ctx.c04_seen = set()
    ctx.c04_iso = {"total": 0, "judged": 0, "expected_failure": 0, "cert_eligible": 0, "cert_unjudged": 0}
    bins = build_all(ctx, quick)
    if bins is None:
        return
    ctx.log("harnesses built")
    r = ctx.rng
    # replayed case / corpus first
    pre = corpus_lines()
    rep = getattr(ctx, "replay", None)
    if rep and rep.get("case"):
        pre = [rep["case"]] + pre
    judge_geo(ctx, bins["geo"], [parse_geo(l) for l in pre if l.startswith("geo ")], "corpus")
    judge_iso(ctx, bins["iso"], [parse_iso(l) for l in pre if l.startswith("iso ")], [1, 3])
    # 1. small graphs with EVERY landmark subset (in increasing order) and shuffled orders
    small = []
    nsmall = 60 if quick else 400
    for n in range(nsmall):
        name, g = GENS[n % len(GENS)]
        N = r.range(2, 6)
        k = r.range(1, max(1, min(3, N - 1)))
        base = g(r.fork(), N, k)
        if r.chance(1, 2):
            base.idx = index_vector(r.fork(), N)
        for lm in all_subsets(N):
            small.append(Geo(base.lists, base.W, lm, base.tag, base.idx))
            if len(lm) > 1 and r.chance(1, 4):
                small.append(Geo(base.lists, base.W, r.shuffle(lm), base.tag, base.idx))
    for i in range(0, len(small), 1500):
        judge_geo(ctx, bins["geo"], small[i:i + 1500], "small-all-landmark-subsets")
    ctx.log("small graphs with all landmark subsets: %d cases" % len(small))
    # 2. random graphs
    ngraphs = 1200 if quick else 12000
    maxN = 32 if quick else 96
    batch = []
    for n in range(ngraphs):
        name, g = GENS[n % len(GENS)]
        N = r.range(3, 12) if r.chance(1, 2) else r.range(12, maxN)
        if not quick and n % 200 == 0:
            N = r.range(100, 200)
        k = r.range(1, min(8, N - 1))
        c = g(r.fork(), N, k)
        m = r.range(1, max(1, min(N, 6)))
        c.lm = r.shuffle(list(range(N)))[:m] if r.chance(9, 10) else None
        if c.lm and r.chance(1, 10):        # repeated landmarks are allowed by the routine (and by the theorem)
            c.lm = c.lm + [r.choice(c.lm)]
        if r.chance(1, 2):
            c.idx = index_vector(r.fork(), N)
        batch.append((name, c))
    for name, _ in GENS:
        sub = [c for n, c in batch if n == name]
        for i in range(0, len(sub), 500):
            judge_geo(ctx, bins["geo"], sub[i:i + 500], name)
    ctx.log("random graphs: %d cases" % len(batch))
    # 2b. inputs outside the contract: the model's oob state must coincide with a sanitizer / assertion abort
    mal = [g_malformed(r.fork(), r.range(3, 9), r.range(2, 3)) for _ in range(12 if quick else 60)]
    judge_geo(ctx, bins["geo"], mal, "malformed", threads=[1, 3])
    # 3. thorough: exhaustive 1- and 2-out-regular digraphs on <= 4 vertices, unit weights, all landmark subsets
    if not quick:
        ex = []
        for N in (2, 3, 4):
            for k in (1, 2):
                if N == 4 and k == 2:
                    continue
                choices = list(itertools.product(range(N), repeat=k))
                for lists in itertools.product(choices, repeat=N):
                    W = [[0 if i == j else 1 for j in range(N)] for i in range(N)]
                    ex.append(Geo([list(l) for l in lists], W, list(range(N)), "exhaustive"))
        for i in range(0, len(ex), 2000):
            judge_geo(ctx, bins["geo"], ex[i:i + 2000], "exhaustive", threads=[1, 3])
        ctx.extra["exhaustive_small"] = {"digraphs": len(ex), "what": "all k-out lists, N<=3 k<=2 and N=4 k=1, unit weights"}
    # 4. Isomap end to end
    iso = []
    niso = 90 if quick else 300
    for n in range(niso):
        N = r.choice([8, 8, 16]) if quick else r.choice([8, 16, 16, 32])
        W, kind = (i_points if n % 3 else i_matrix)(r.fork(), N)
        c = Iso(W, r.range(3, min(7, N - 1)), r.range(1, 3), "dense", 1 if r.chance(3, 4) else 0, kind)
        if n % 5 == 4:
            # wide mantissas: weights d*(1 + j*2^-22) are exact in double, every path sum too, but need up to 27 bits;
            # their squares are not exact in double, so the matrix is compared within 2^-30*scale for this family
            f = 1 + Fraction(r.range(1, 2 ** 12 - 1) * 2 + 1, 2 ** 22)
            c.W = [[x * f for x in row] for row in c.W]
            c.approx, c.tag = True, kind + "-wide"
        if r.chance(1, 2):
            c.idx = index_vector(r.fork(), N)
        iso.append(c)
    iso.sort(key=lambda c: 0 if all(c.W[i][j] == c.W[j][i] for i in range(c.N) for j in range(i)) else 1)
    judge_iso(ctx, bins["iso"], iso, [1, 3, 8] if quick else THREADS)
    ctx.extra["iso_build"] = ("quick: IsomapImplementation instantiated directly, built -O1 WITHOUT sanitizers (15 s compile)"
                              if quick else "thorough: tapkee::with(...).embedUsing under ASan+UBSan")
    ctx.log("isomap end to end: %d cases" % len(iso))
    skip_guards(ctx)
    notes = getattr(ctx, "c04_translator_notes", [])
    if notes:
        ctx.extra["translator_fallback"] = notes
        ctx.assumptions.append("translate_c04 could not parse %d part(s) of the source and kept the previous table; the exact "
                               "correspondence of this run decided that behaviour is unchanged: %s" % (len(notes), "; ".join(notes)))
    iso_threads = [1, 3, 8] if quick else THREADS
    ctx.cov["rule"] = (
        "geo: uniform-length neighbour lists from 4 generators (true k-NN of integer lattice points under L1/Linf with random "
        "tie-breaks; arbitrary digraphs with asymmetric non-metric dyadic weights, self loops, repeated entries; clusters with "
        "one-way bridges (unreachable parts); paths/cycles/grids with equal weights); weights small integers / dyadics and, in "
        "about a sixth of the cases, wide mantissas (1+j*2^-30, 2^26+j: > 24 significant bits, sums exact in double); half of the "
        "cases with a permuted / offset / strided index vector; N<=%d, k<=8, every landmark subset for N<=6 and random shuffled "
        "subsets (some with repeats) beyond; each case through both overloads, 2 builds x OMP_NUM_THREADS %s (malformed and "
        "corpus cases: [1, 3]); iso: Isomap end to end on distinct integer points (L1) / integer dissimilarity matrices, a fifth "
        "scaled by 1+j*2^-22 (matrix compared within 2^-30*scale), half with a non-identity index vector, N in %s, 2 builds x "
        "OMP_NUM_THREADS %s; non-trivial = N>=3 and k>=1; distinct by case text"
        % (maxN if quick else 200, THREADS, "{8,16}" if quick else "{8,16,32}", iso_threads))
    ctx.assumptions += [
        "weights are non-negative, non-NaN and such that every path sum is exact in double (small integers / dyadics): the "
        "model computes in an exact ordered field; dblmax is modelled as +infinity",
        "neighbour lists are uniform (every list has neighbors[0].size() entries, entries < N); anything else is undefined "
        "behaviour in the code and an explicit error state in the model",
        "thread schedules are observed for OMP_NUM_THREADS in %s; the theorem rows_independent is about the model's per-source "
        "iterations with thread-local scratch state" % THREADS,
        "eigensolver, sqrt: not part of this property's exact tie (spectral post-step by contract)",
    ]
