"""Shared generators / plumbing for the C08, C09, C10 checks (locally-linear, Laplacian, linear-graph methods).

Everything random derives from the SplitMix64 handed in (ctx.rng forks).  Numbers cross to the harness and the
Lean driver as exact dyadics: integers, or `m:e` (= m * 2^e) for doubles — never decimal floats."""
import math
from fractions import Fraction

import vlib


# ----------------------------------------------------------------------------- number protocol
def fmt(x):
    """exact text of a number that both sides read identically: int, or the double nearest to x as m:e"""
    if isinstance(x, int):
        if abs(x) < (1 << 53):
            return str(x)
        x = Fraction(x)
    if isinstance(x, Fraction):
        if x.denominator == 1 and abs(x.numerator) < (1 << 53):
            return str(x.numerator)
        x = float(x)            # correctly rounded
    if x == 0:
        return "0"
    n, d = x.as_integer_ratio()     # d is a power of two
    e = -(d.bit_length() - 1)
    while n % 2 == 0:
        n //= 2
        e += 1
    if e == 0:
        return str(n)
    return "%d:%d" % (n, e)


def as_double(x):
    """the exact rational value of the double that fmt(x) denotes"""
    if isinstance(x, int):
        return Fraction(x) if abs(x) < (1 << 53) else Fraction(float(x))
    if isinstance(x, Fraction):
        if x.denominator == 1 and abs(x.numerator) < (1 << 53):
            return x
        return Fraction(float(x))
    return Fraction(x)


def fmt_matrix(rows):
    return ";".join(",".join(fmt(v) for v in row) for row in rows)


def fmt_lists(lists):
    return ";".join(",".join(str(v) for v in row) for row in lists)


# ----------------------------------------------------------------------------- data sets
def dyadic(x, bits=10):
    """round a float to a multiple of 2^-bits (exactly representable, keeps later integer arithmetic exact)"""
    return Fraction(round(x * (1 << bits)), 1 << bits)


INTRINSIC = []      # intrinsic coordinates of the last flat data set generated (same order as the points)


def gen_points(r, kind, N, D, scale=1):
    """N points in R^D (Fractions with power-of-two denominators).  kinds:
       lattice  - integer lattice in [-4,4]^D (ties and exact symmetries are frequent)
       cloud    - generic dyadic points
       roll     - swiss-roll-like 2-manifold in R^3 (+ zero padding / small noise in further coordinates)
       curve    - a 1-manifold (helix)
       flat1/2  - points on a 1- or 2-dimensional affine subspace of R^D (general position inside it)
       grid     - regular 2-D grid embedded isometrically (rotated by a 3-4-5 rotation)"""
    pts = []
    if kind == "lattice":
        seen = set()
        while len(pts) < N:
            p = tuple(Fraction(r.range(-4, 4)) for _ in range(D))
            if p not in seen or len(seen) >= 9 ** D:
                seen.add(p)
                pts.append(list(p))
    elif kind == "cloud":
        for _ in range(N):
            pts.append([Fraction(r.range(-2048, 2048), 256) for _ in range(D)])
    elif kind == "roll":
        for _ in range(N):
            t = 1.5 * math.pi * (1 + 2 * r.below(10000) / 10000.0)
            h = 8 * r.below(10000) / 10000.0
            p = [dyadic(t * math.cos(t) / 4), dyadic(h / 2), dyadic(t * math.sin(t) / 4)]
            while len(p) < D:
                p.append(Fraction(r.range(-8, 8), 1024))
            pts.append(p[:D])
    elif kind == "curve":
        for _ in range(N):
            t = 4 * math.pi * r.below(10000) / 10000.0
            p = [dyadic(math.cos(t)), dyadic(math.sin(t)), dyadic(t / 3)]
            while len(p) < D:
                p.append(Fraction(r.range(-8, 8), 1024))
            pts.append(p[:D])
    elif kind in ("flat1", "flat2", "flat3"):
        dd = int(kind[-1])
        base = [Fraction(r.range(-8, 8), 4) for _ in range(D)]
        dirs = [[Fraction(r.range(-4, 4)) for _ in range(D)] for _ in range(dd)]
        INTRINSIC.clear()
        for _ in range(N):
            c = [Fraction(r.range(-512, 512), 64) for _ in range(dd)]
            INTRINSIC.append(c)
            pts.append([base[j] + sum(c[a] * dirs[a][j] for a in range(dd)) for j in range(D)])
    elif kind == "twoclusters":
        # two well separated clouds: the k-NN graph is disconnected for every k below the size of the smaller one,
        # so check_connectivity has to raise k (the lists actually used are longer than requested)
        n1 = max(2, N // 2 - r.below(max(1, N // 6)))
        for i in range(N):
            off = Fraction(0) if i < n1 else Fraction(96)
            p = [Fraction(r.range(-1024, 1024), 256) for _ in range(D)]
            p[0] += off
            pts.append(p)
    elif kind == "grid":
        side = max(2, int(math.ceil(math.sqrt(N))))
        for i in range(N):
            x, y = Fraction(i % side), Fraction(i // side)
            p = [(3 * x - 4 * y) / 5, (4 * x + 3 * y) / 5]
            p = [dyadic(float(v), 20) for v in p]
            while len(p) < D:
                p.append(Fraction(0))
            pts.append(p[:D])
    else:
        raise ValueError(kind)
    if scale != 1:
        pts = [[v * scale for v in p] for p in pts]
    return pts


def dot(a, b):
    return sum(x * y for x, y in zip(a, b))


def sqdist(a, b):
    return sum((x - y) * (x - y) for x, y in zip(a, b))


UNIT_EXPONENTS = [0, 0, 0, 0, -6, 5, -40, -30, -20, -10, 10, 20, 30]


def pick_unit(r):
    """the unit the data is expressed in: a power of two between 2^-40 and 2^30 (exact rescaling of dyadic data; targets
    absolute thresholds / epsilons in the code under proof)"""
    return Fraction(2) ** r.choice(UNIT_EXPONENTS)


def kernel_matrix(pts, kind, c=1, unit=1):
    """exact kernel values, then rounded to the doubles both sides will read (returned as Fractions).  `unit` is the
    unit of the coordinates: the nonlinear kernels carry it in their parameter ((u^2 + x.y)^2, 1/(1+|x-y|^2/(c u^2))), so
    the same data in other units gives the same geometry"""
    unit = Fraction(unit)
    N = len(pts)
    K = [[None] * N for _ in range(N)]
    for i in range(N):
        for j in range(i, N):
            if kind == "linear":
                v = dot(pts[i], pts[j])
            elif kind == "poly2":
                v = (unit * unit + dot(pts[i], pts[j])) ** 2
            elif kind == "cauchy":            # 1/(1+|x-y|^2/c): rational, positive definite
                v = 1 / (1 + sqdist(pts[i], pts[j]) / (Fraction(c) * unit * unit))
            else:
                raise ValueError(kind)
            v = as_double(v)
            K[i][j] = v
            K[j][i] = v
    return K


def distance_matrix(pts, metric="l2"):
    """Euclidean distances rounded to double (sqrt is the harness side's business only when it recomputes them;
       here the *callback values* are the data, so any symmetric non-negative matrix is a legal input)"""
    N = len(pts)
    Dm = [[Fraction(0)] * N for _ in range(N)]
    for i in range(N):
        for j in range(i + 1, N):
            if metric == "l1":
                v = sum(abs(x - y) for x, y in zip(pts[i], pts[j]))
            else:
                v = Fraction(math.sqrt(float(sqdist(pts[i], pts[j]))))
            v = as_double(v)
            Dm[i][j] = v
            Dm[j][i] = v
    return Dm


def knn_from_sq(sq, k):
    """k nearest others by the given (exact) squared-distance rows; ties by index"""
    N = len(sq)
    out = []
    for i in range(N):
        order = sorted((j for j in range(N) if j != i), key=lambda j: (sq[i][j], j))
        out.append(order[:k])
    return out


def kernel_sq(K):
    N = len(K)
    return [[K[i][i] - 2 * K[i][j] + K[j][j] for j in range(N)] for i in range(N)]


def random_lists(r, N, k):
    """arbitrary neighbour lists (distinct, non-self) — the routines are defined for any lists"""
    out = []
    for i in range(N):
        others = [j for j in range(N) if j != i]
        out.append(r.shuffle(others)[:k])
    return out


# ----------------------------------------------------------------------------- non-identity iterator ranges
def with_decoys(rows, seed, make_decoy, extra=None):
    """embed the N selected samples at shuffled positions among decoy samples: returns (all_rows, sel) with
    all_rows[sel[a]] = rows[a]; the library is handed the range `sel` (non-identity, non-contiguous, unordered)"""
    r = vlib.SplitMix64(seed)
    N = len(rows)
    extra = extra if extra is not None else r.range(1, max(2, N // 3))
    total = N + extra
    sel = r.shuffle(list(range(total)))[:N]
    allr = [None] * total
    for a, pos in enumerate(sel):
        allr[pos] = rows[a]
    for i in range(total):
        if allr[i] is None:
            allr[i] = make_decoy(r)
    return allr, sel


def restrict_line(line):
    """the case as the MODEL sees it: callback matrices restricted to the selected samples, in range order"""
    if " sel=" not in line:
        return line
    toks = line.split(" ")
    f = {}
    for t in toks:
        if "=" in t:
            k, v = t.split("=", 1)
            f[k] = v
    sel = [int(x) for x in f["sel"].split(",")]
    out = []
    for t in toks:
        if "=" not in t:
            out.append(t)
            continue
        k, v = t.split("=", 1)
        if k == "sel":
            continue
        if k in ("kern", "dist"):
            rows = [row.split(",") for row in v.split(";")]
            v = ";".join(",".join(rows[i][j] for j in sel) for i in sel)
        elif k in ("feat", "feat2"):
            rows = v.split(";")
            v = ";".join(rows[i] for i in sel)
        out.append(k + "=" + v)
    return " ".join(out)


# ----------------------------------------------------------------------------- running
def fields_of(line):
    d = {}
    for tok in line.split():
        if "=" in tok:
            k, v = tok.split("=", 1)
            d[k] = v
    return d


KNOWN_SITES = ["hessian_weight_matrix", "tangent_weight_matrix", "linear_weight_matrix", "generalized_eigendecomposition_impl_dense",
               "eigendecomposition_impl_dense", "eigendecomposition_impl_randomized", "compute_laplacian", "compute_diffusion_matrix",
               "construct_neighborhood_preserving_eigenproblem", "construct_lltsa_eigenproblem",
               "construct_locality_preserving_eigenproblem", "project", "compute_mean", "embed"]


def abort_signature(io, stderr):
    """stable signature of a sanitizer abort: kind + innermost tapkee routine on the stack (vlib's own summary keeps
    the tail of the template argument list instead of the function name)"""
    kind = io[len("abort:"):].split("@")[0]
    import re
    for fm in re.finditer(r"#\d+ 0x[0-9a-f]+ in (.+?) (/\S+?):(\d+)", stderr or ""):
        if "/include/tapkee" not in fm.group(2):
            continue
        for site in KNOWN_SITES:
            if re.search(r"\b%s\b" % site, fm.group(1)):
                return "abort:%s@%s:%s" % (kind, fm.group(2).split("/")[-1], site)
    return io.split(">")[0] if io.endswith(">") else io


def run_pairs(ctx, binary, exe, lines, env=None, timeout=900):
    """harness on every case line, then the Lean driver on `case + observation`; returns [(impl, verdict-dict)]"""
    e = {"OMP_NUM_THREADS": "2"}
    if env:
        e.update(env)
    impl = run_impl_cases_sig(ctx, binary, lines, e, timeout)
    if len(impl) != len(lines):
        impl = impl + ["abort:harness-output-missing"] * (len(lines) - len(impl))
    dl = []
    for l, io in zip(lines, impl):
        l = restrict_line(l)
        if io.startswith("abort:"):
            dl.append(l + " abort=" + io[len("abort:"):].replace(" ", "_"))
        else:
            dl.append(l + " " + io)
    import subprocess
    try:
        rc, model, err = ctx.run_model(exe, dl, timeout=timeout)
    except subprocess.TimeoutExpired:
        # a slow model driver is an observation about the case, not a crash of the check: find the slow case(s)
        rc, model, err = 0, [], ""
        for one in dl:
            try:
                r1, m1, e1 = ctx.run_model(exe, [one], timeout=120)
                model.append(m1[0] if (r1 == 0 and m1) else "res=BROKEN:model-driver-failed rc=%s" % r1)
            except subprocess.TimeoutExpired:
                model.append("res=BROKEN:model-timeout (model driver exceeded 120 s on this case)")
    if rc != 0 or len(model) != len(lines):
        return None, "rc=%s %s" % (rc, err[-400:])
    out = []
    for io, mo in zip(impl, model):
        v = fields_of(mo)
        v["_line"] = mo
        out.append((io, v))
    return out, ""


def run_impl_cases_sig(ctx, binary, lines, env, timeout):
    """ctx.run_impl_cases, with abort observations re-labelled by abort_signature (one restart per abort)"""
    outs = []
    todo = list(lines)
    while todo:
        rc, out, err = ctx.run_impl(binary, todo, env=env, timeout=timeout)
        if rc == 0 and len(out) == len(todo):
            outs += out
            break
        n = min(len(out), len(todo))
        outs += out[:n]
        if n == len(todo):
            break
        summ = ctx.sanitizer_summary(err) or ("timeout" if rc in (-999, -14) else "crash:rc=%d" % rc)
        if summ == "timeout" or rc == -9:
            # a watchdog firing (SIGALRM, rc -14) or a SIGKILL under memory pressure can be machine load, not a hang:
            # the case is re-run ALONE once before it is believed (as vlib.run_impl_cases does)
            import time
            time.sleep(2.0)
            rc2, out2, err2 = ctx.run_impl(binary, [todo[n]], env=env, timeout=timeout)
            if rc2 == 0 and len(out2) == 1:
                outs.append(out2[0])
                ctx.stat("watchdog-fired-but-case-passed-alone")
                todo = todo[n + 1:]
                continue
            summ = ctx.sanitizer_summary(err2) or ("timeout" if rc2 in (-999, -14) else "crash:rc=%d" % rc2)
            err = err2
        ctx.last_abort_stderr = err[-6000:]
        outs.append(abort_signature("abort:" + summ, err))
        todo = todo[n + 1:]
    return outs


def tally(ctx, verdict):
    """exact / approx comparison counters printed by the driver"""
    for key in ("exact", "approx"):
        if key in verdict:
            try:
                ctx.stat("comparisons-" + key, int(verdict[key]))
            except ValueError:
                pass
    if "inertia" in verdict:
        try:
            ctx.stat("inertia-certificates", int(verdict["inertia"]))
        except ValueError:
            pass


def short(line, n=400):
    return line if len(line) <= n else line[:n] + "…(%d chars)" % len(line)


def harness_flags():
    """vlib.HARNESS_FLAGS at -O0 -g1: the public-API harnesses instantiate all twenty methods; with ASan+UBSan the
    optimiser dominates the compile time (-O1: ~2 min, -O0: < 1 min) while the cases are tiny"""
    return [f for f in vlib.HARNESS_FLAGS if f not in ("-O1", "-g")] + ["-O0", "-g1"]


def build_with_fallback(ctx, harness_src):
    """full harness; if the internal routines no longer have the signatures it calls, a public-API-only build
    (-DV8_NO_ROUTINES): the routine-level tie is then reported as broken, the search for a failing input goes on"""
    binary, log = ctx.build_harness(harness_src, name=harness_name(harness_src), extra=["-DV0810_HASH=" + hdr_hash()],
                                    flags=harness_flags())
    if binary:
        return binary, True, log
    b2, log2 = ctx.build_harness(harness_src, name=harness_name(harness_src) + "-api", extra=["-DV0810_HASH=" + hdr_hash(), "-DV8_NO_ROUTINES"],
                                 flags=harness_flags())
    if b2:
        errs = [l for l in log.split("\n") if "error" in l][:6]
        ctx.broken("harness-build:routines", "harness %s (direct calls of the internal routines)" % harness_src,
                   "the internal routines no longer have the signatures the harness calls; routine-level correspondence "
                   "unavailable, public-API legs only: " + " | ".join(errs)[-900:])
    return b2, False, (log if not b2 else log2)


def harness_name(src):
    """cache name of the harness binary; VERIF_HARNESS_TAG keeps scratch-copy runs (TAPKEE_REPO=...) from evicting the
    cached build of the real tree"""
    import os
    return os.path.splitext(os.path.basename(src))[0] + os.environ.get("VERIF_HARNESS_TAG", "")


def hdr_hash():
    import hashlib
    import os
    return hashlib.sha256(open(os.path.join(vlib.ROOT, "harness", "v0810.hpp"), "rb").read()).hexdigest()[:12]


# ----------------------------------------------------------------------------- generic judge / shrink / replay
def classify(io, v):
    """-> (class, signature, text)"""
    res = v.get("res", "BADCASE:no-verdict")
    if io.startswith("unavailable=1"):
        return "skip", "routine-unavailable", "routine-level call unavailable in the fallback harness build"
    if io.startswith("abort:"):
        return "fail", io, "implementation aborts (%s); model: %s" % (io[6:], v.get("model", "?"))
    if res == "ok":
        return "ok", None, ""
    if res.startswith("SKIP:"):
        return "skip", res[5:].split()[0], res
    if res.startswith("MODEL-ERR:"):
        return "fail", "ub:" + res[len("MODEL-ERR:"):].split(":")[0], "model reaches an undefined-behaviour state (%s) but the implementation returned" % res
    if res.startswith("FAIL:"):
        body = res[5:]
        parts = body.split(":")
        sig = parts[0] + (":" + parts[1].split("(")[0].split()[0] if len(parts) > 1 and parts[1] else "")
        return "fail", sig, v["_line"]
    if res.startswith("BROKEN:"):
        return "broken", res[7:].split()[0], v["_line"]
    return "broken", "driver:" + res.split(":")[0], v["_line"]


SKIP_LIMIT = 1.0 / 3      # a case class whose skip rate exceeds this is not exercised: reported as a broken tie
MIN_JUDGED = 4            # fewer judged cases than this in a planned class (after truncation) is reported as broken


def generic_correspond(ctx, harness_src, exe, prop, plan_fn, build_line, label, what_text, min_points, batch=40, budget_s=75,
                       pre_fn=None, stat_fn=None):
    import os
    import time
    binary, routines_ok, log = build_with_fallback(ctx, harness_src)
    if not binary:
        ctx.broken("harness-build", "harness " + harness_src, "harness does not compile against the repository: " + log[-1500:])
        return
    t_built = time.time()
    quick = ctx.tier == "quick"

    def run_one(line):
        res, err = run_pairs(ctx, binary, exe, [line])
        return res[0] if res else None

    def report(spec, line, io, v, do_shrink=True):
        cls, sig, text = classify(io, v)
        if cls == "fail":
            small, sline, sio, sv = spec, line, io, v
            if do_shrink and spec.get("pts"):
                tests = [0]

                def failing(sub):
                    if tests[0] >= 20 or len(sub) < max(5, min_points(spec)):
                        return False
                    tests[0] += 1
                    s2 = dict(spec)
                    s2["pts"] = sub
                    got = run_one(build_line(s2))
                    if not got:
                        return False
                    c2, sig2, _ = classify(*got)
                    return c2 == cls and sig2 == sig
                pts = vlib.ddmin(spec["pts"], failing, max_tests=20)
                if len(pts) < len(spec["pts"]):
                    small = dict(spec)
                    small["pts"] = pts
                    sline = build_line(small)
                    got = run_one(sline)
                    if got:
                        sio, sv = got
            detail = {"impl": short(sio, 2000), "model": sv.get("_line", ""),
                      "stderr": getattr(ctx, "last_abort_stderr", "")[-1500:] if sio.startswith("abort:") else ""}
            ctx.fail(sig, what_text(small, classify(sio, sv)[2] or text), case=sline, detail=detail)
        elif cls == "broken":
            ctx.broken("corr:%s:%s" % (label(spec), sig), "correspondence %s %s (%s)" % (harness_src, label(spec), sig),
                       what_text(spec, text), case=line, detail={"impl": short(io, 2000), "model": v.get("_line", "")})

    def replay_line(line):
        got = run_one(line)
        if not got:
            ctx.broken("model-driver", exe, "model driver failed on replay")
            return
        io, v = got
        f = fields_of(line)
        spec = {"op": f.get("op"), "method": f.get("method", f.get("op")), "pts": None, "k": int(f.get("k", "0")),
                "d": int(f.get("d", "0")), "kind": "replay", "kern": f.get("kern", "?")[:0] or "?", "t": f.get("t"),
                "metric": "?", "decade": "?", "D": "?", "rot": f.get("rot", "?")}
        spec["pts"] = [None] * int(f.get("N", "0"))
        print("replay: impl  :", short(io, 600))
        print("replay: model :", v["_line"])
        ctx.count(line, True)
        ctx.cov["traces_validated_against_impl"] += 1
        report(spec, line, io, v, do_shrink=False)

    if getattr(ctx, "replay", None) and ctx.replay.get("case"):
        replay_line(ctx.replay["case"])
        return
    cdir = os.path.join(vlib.ROOT, "corpus", prop)
    if os.path.isdir(cdir):
        for fn in sorted(os.listdir(cdir)):
            for l in open(os.path.join(cdir, fn)):
                l = l.strip()
                if l.startswith("op="):
                    replay_line(l)
    if pre_fn:
        pre_fn(ctx, binary)
    specs = plan_fn(ctx, ctx.rng, quick)
    if not routines_ok:
        ctx.stat("routine-level-cases-dropped", len([s for s in specs if s["op"] != "embed"]))
        specs = [s for s in specs if s["op"] == "embed"]
    # shuffled so that a truncation under the time budget never removes a whole class / method
    specs = vlib.SplitMix64(ctx.seed * 7919 + 17).shuffle(specs)
    planned, judged, skipped = {}, {}, {}
    for sp in specs:
        planned[label(sp)] = planned.get(label(sp), 0) + 1
    reported = set()
    for i in range(0, len(specs), batch):
        chunk = specs[i:i + batch]
        lines = [build_line(s) for s in chunk]
        res, err = run_pairs(ctx, binary, exe, lines)
        if res is None:
            ctx.broken("model-driver", exe, "model driver failed: " + err)
            return
        for spec, line, (io, v) in zip(chunk, lines, res):
            cls, sig, text = classify(io, v)
            N = len(spec["pts"])
            ctx.count(line, N >= 6 and cls in ("ok", "fail", "broken"))
            ctx.stat("case:" + label(spec))
            if cls == "skip":
                skipped[label(spec)] = skipped.get(label(spec), 0) + 1
            else:
                judged[label(spec)] = judged.get(label(spec), 0) + 1
            if stat_fn:
                stat_fn(ctx, spec, line, io, v)
            ctx.stat("verdict:" + cls + ((":" + sig) if cls == "skip" else ""))
            ctx.stat("range:" + ("shuffled-subset-among-decoys" if spec.get("dseed") is not None else "identity"))
            if spec.get("unit") is not None:
                u = Fraction(spec["unit"])
                e = (u.numerator.bit_length() - 1) if u >= 1 else -(u.denominator.bit_length() - 1)
                ctx.stat("unit:2^%d" % e)
            for key in ("kern", "kind", "metric", "nm", "decade", "t", "rot"):
                if key in spec and not (key == "nm" and spec["op"] != "embed"):
                    ctx.stat("%s:%s" % (key, spec[key]))
            ctx.stat("d=%d" % spec["d"])
            if isinstance(spec.get("D"), int) and spec["op"] == "embed":
                ctx.stat("D:" + ("2-4" if spec["D"] <= 4 else "5-12" if spec["D"] <= 12 else "13-29" if spec["D"] <= 29 else "30"))
            ctx.stat("k:" + ("min" if spec["k"] <= 3 else "N-1" if spec["k"] >= N - 1 else "mid"))
            tally(ctx, v)
            if cls in ("ok", "fail", "broken"):
                ctx.cov["traces_validated_against_impl"] += 1
            if cls == "ok":
                if len(ctx.cov["samples"]) < 6 and (len(ctx.cov["samples"]) < 3 or spec["op"] == "embed"):
                    ctx.sample({"case": short(line, 300), "verdict": v["_line"]})
                continue
            if cls == "skip":
                continue
            import os as _os
            if _os.environ.get("VERIF_DEBUG"):
                ctx.log("non-ok:", what_text(spec, text)[:500])
            key = (cls, sig, label(spec))
            if key in reported:
                continue
            reported.add(key)
            report(spec, line, io, v)
        if quick and time.time() - t_built > budget_s and i + batch < len(specs):
            ctx.extra["truncated"] = {"after_cases": i + batch, "planned": len(specs), "budget_s": budget_s}
            ctx.log("TRUNCATED by the time budget (%d s) after %d of %d planned cases" % (budget_s, i + batch, len(specs)))
            break
    # accountability: every planned class must have been judged, and must not mostly skip
    ctx.extra["per_class"] = {k: {"planned": planned[k], "judged": judged.get(k, 0), "skipped": skipped.get(k, 0)} for k in sorted(planned)}
    for k in sorted(planned):
        j, sk = judged.get(k, 0), skipped.get(k, 0)
        if j < min(MIN_JUDGED, planned[k]):
            ctx.broken("coverage:" + k, "correspondence %s, case class %s" % (harness_src, k),
                       "only %d of %d planned cases of class %s were judged (%d skipped%s): the tie is not exercised for this class"
                       % (j, planned[k], k, sk, ", run truncated by the time budget" if "truncated" in ctx.extra else ""))
        elif j + sk >= 12 and sk > SKIP_LIMIT * (j + sk):
            ctx.broken("skip-rate:" + k, "correspondence %s, case class %s" % (harness_src, k),
                       "%d of %d cases of class %s were skipped (limit %d %%; clean-tree rate <= 13 %%): the tie is not exercised"
                       % (sk, j + sk, k, int(SKIP_LIMIT * 100)))
