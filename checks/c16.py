"""C16 — the Fibonacci heap is a correct indexed min-priority queue under every history.
Model: lean/TapkeeVerif/Model/FibHeap.lean (+ FibHeapSpec.lean); theorems: Props/C16.lean;
harness: harness/c16_heap.cpp (real class, ASan+UBSan)."""
import itertools
import os

import vlib

PROPERTY = "C16"
LEAN_MODULES = ["TapkeeVerif.Props.C16"]
LEAN_EXES = ["model_c16"]
REQUIRED_THEOREMS_FINAL = [
    "TapkeeVerif.FibHeap.refines_map",
    "TapkeeVerif.FibHeap.inv_reachable",
    "TapkeeVerif.FibHeap.no_corrupt",
    "TapkeeVerif.FibHeap.no_oob",
]


# ----------------------------------------------------------------------------- generators
def gen_uniform(r, cap, length, keymax):
    ops = []
    for _ in range(length):
        c = r.below(100)
        if c < 40:
            ops.append("i:%d:%d" % (r.below(cap), r.below(keymax)))
        elif c < 65:
            ops.append("d:%d:%d" % (r.below(cap), r.below(keymax)))
        elif c < 92:
            ops.append("x")
        elif c < 97:
            ops.append("g:%d" % r.below(cap))
        else:
            ops.append("c")
    return ops


def gen_guards(r, cap, length, keymax):
    """out-of-range / occupied / absent / larger-key / empty-extract / clear mid-history"""
    ops = []
    for _ in range(length):
        c = r.below(100)
        idx = r.choice([-3, -1, 0, cap - 1, cap, cap + 1, r.below(cap + 2)])
        if c < 35:
            ops.append("i:%d:%d" % (idx, r.below(keymax)))
        elif c < 65:
            ops.append("d:%d:%d" % (idx, r.range(-2, keymax + 2)))
        elif c < 85:
            ops.append("x")
        elif c < 95:
            ops.append("g:%d" % idx)
        else:
            ops.append("c")
    return ops


def gen_dijkstra(r, cap, length, keymax):
    """insert everything with a large key, then decrease / extract with non-decreasing extraction keys"""
    ops = []
    big = keymax * 10
    present = {}
    for i in range(cap):
        if r.chance(4, 5):
            ops.append("i:%d:%d" % (i, big))
            present[i] = big
    cur = 0
    while len(ops) < length and present:
        if r.chance(2, 3):
            i = r.choice(sorted(present))
            nk = cur + r.below(keymax)
            ops.append("d:%d:%d" % (i, nk))
            if nk <= present[i]:
                present[i] = nk
        else:
            ops.append("x")
            k = min(present.values())
            cands = [i for i in present if present[i] == k]
            # which one the implementation removes is unknown; keep the reference conservative
            if len(cands) == 1:
                del present[cands[0]]
                cur = k
            else:
                break
    return ops


def gen_thin(r, cap, length, keymax):
    """adversarial: build binomial-like trees by extract_min, then cut grandchildren by decrease_key so that
    ranks stay high while sizes shrink (the pattern that makes trees maximally thin)"""
    ops = []
    base = 1000
    alive = {}
    nxt = 0
    rounds = 0
    while len(ops) < length and rounds < 60:
        rounds += 1
        # fill up
        free = [i for i in range(cap) if i not in alive]
        r_free = r.shuffle(free)
        for i in r_free[: r.range(1, max(1, len(r_free)))]:
            k = base + r.below(keymax)
            ops.append("i:%d:%d" % (i, k))
            alive[i] = k
        # a sacrificial minimum, extracted at once -> consolidate links everything
        sac = [i for i in range(cap) if i not in alive]
        if sac:
            ops.append("i:%d:%d" % (sac[0], 0))
            ops.append("x")
        else:
            ops.append("x")
            k = min(alive.values())
            c = [i for i in alive if alive[i] == k]
            if len(c) != 1:
                break
            del alive[c[0]]
        # cut a few nodes: decrease to distinct small keys (< every live key) then remove them
        victims = r.shuffle(sorted(alive))[: r.range(0, max(0, len(alive) // 2))]
        for v in victims:
            nxt += 1
            ops.append("d:%d:%d" % (v, -nxt if r.chance(1, 2) else 1))
            alive[v] = min(alive[v], -nxt if ops[-1].endswith(str(-nxt)) else 1)
        if r.chance(1, 2) and alive:
            ops.append("x")
            k = min(alive.values())
            c = [i for i in alive if alive[i] == k]
            if len(c) != 1:
                break
            del alive[c[0]]
    return ops[:length]


REQUIRED_THEOREMS = [
    "TapkeeVerif.FibHeap.inv_reachable",
    "TapkeeVerif.FibHeap.min_root_minimal",
    "TapkeeVerif.FibHeap.refines_map",
    "TapkeeVerif.FibHeap.no_corrupt",
    "TapkeeVerif.FibHeap.no_oob",
    "TapkeeVerif.FibHeap.no_oob_of_fib",
    "TapkeeVerif.FibHeap.run_total",
    "TapkeeVerif.FibHeap.carry_fuel_adequate",
    "TapkeeVerif.FibHeap.dnOf_fuel_adequate",
]
GENS = [("uniform", gen_uniform), ("guards", gen_guards), ("dijkstra", gen_dijkstra), ("thin", gen_thin)]


def exhaustive_cases(maxlen, caps=(1, 2, 3), keys=(0, 1, 2)):
    """every history of length <= maxlen over a small alphabet (thorough tier)"""
    for cap in caps:
        alpha = ["x", "c"]
        for i in range(cap):
            for k in keys:
                alpha.append("i:%d:%d" % (i, k))
                alpha.append("d:%d:%d" % (i, k))
        for L in range(1, maxlen + 1):
            for ops in itertools.product(alpha, repeat=L):
                yield cap, list(ops)


def case_line(cap, ops):
    return "heap cap=%d ops=%s" % (cap, ",".join(ops))


# ----------------------------------------------------------------------------- correspondence
def judge(ctx, binary, cases, label):
    """cases: list of (cap, ops).  Runs implementation, model and the Lean spec checker."""
    lines = [case_line(c, o) for c, o in cases]
    impl = ctx.run_impl_cases(binary, lines)
    rc, model, err = ctx.run_model("model_c16", lines)
    if rc != 0 or len(model) != len(lines):
        ctx.broken("model-driver", "model_c16", "model driver failed: rc=%s %s" % (rc, err[-300:]))
        return
    # spec checker on the implementation's observations
    spec_lines = []
    for (cap, ops), io in zip(cases, impl):
        if io.startswith("abort:"):
            spec_lines.append("spec cap=%d ops=%s outs=" % (cap, ",".join(ops[:0])))
        else:
            outs = io.split("|", 1)[1].split()
            spec_lines.append("spec cap=%d ops=%s outs=%s" % (cap, ",".join(ops), ",".join(outs)))
    rc, spec, err = ctx.run_model("model_c16", spec_lines)
    for (cap, ops), line, io, mo, so in zip(cases, lines, impl, model, spec):
        nontrivial = ("x" in ops) and any(o.startswith("i:") for o in ops)
        ctx.count(line, nontrivial)
        ctx.stat("gen:" + label)
        ctx.stat("cap<=8" if cap <= 8 else "cap<=64" if cap <= 64 else "cap>64")
        ctx.cov["traces_validated_against_impl"] += 1
        if io.startswith("abort:"):
            sig = io[len("abort:"):]
            ctx.stat("impl-abort")
            small = ops
            if ("abort:" + sig) not in ctx.extra.setdefault("shrunk_signatures", []):
                ctx.extra["shrunk_signatures"].append("abort:" + sig)
                small = shrink(ctx, binary, cap, ops, lambda out: out.startswith("abort:"))
            ctx.fail("abort:" + sig, "fibonacci_heap touches memory outside its arrays / aborts (%s) on a %d-operation history, capacity %d"
                     % (sig, len(small), cap), case=case_line(cap, small),
                     detail={"impl": io, "model": mo, "stderr": getattr(ctx, "last_abort_stderr", "")[-1500:]})
            continue
        if so != "spec-ok":
            ctx.stat("impl-spec-reject")

            def bad(out, cap=cap):
                return False
            small = ops
            if "spec-reject" not in ctx.extra.setdefault("shrunk_signatures", []):
                ctx.extra["shrunk_signatures"].append("spec-reject")
                small = shrink_spec(ctx, binary, cap, ops)
            ctx.fail("spec-reject", "fibonacci_heap output is not an indexed-min-queue behaviour (%s)" % so,
                     case=case_line(cap, small), detail={"impl": io, "model": mo, "spec": so})
            continue
        if io != mo:
            ctx.stat("fidelity-mismatch")
            if "ERR:" in mo:
                # the model reaches an error state on a history the implementation survived
                ctx.broken("corr:model-error", "correspondence c16_heap (model reaches %s, implementation does not abort)" % mo.split()[-1],
                           "model and implementation disagree", case=line, detail={"impl": io, "model": mo})
            else:
                ctx.broken("corr:outputs", "correspondence c16_heap (identical-output tie of model and implementation)",
                           "model and implementation outputs differ although both satisfy the specification",
                           case=line, detail={"impl": io, "model": mo})
        else:
            ctx.stat("fidelity-identical")
        if len(ctx.cov["samples"]) < 5 and nontrivial and len(ops) < 40:
            ctx.sample({"case": line, "impl": io, "model": mo, "spec": so})


def shrink(ctx, binary, cap, ops, pred):
    def failing(sub):
        out = ctx.run_impl_cases(binary, [case_line(cap, sub)])
        return bool(out) and pred(out[0])
    return vlib.ddmin(ops, failing, max_tests=150)


def shrink_spec(ctx, binary, cap, ops):
    def failing(sub):
        out = ctx.run_impl_cases(binary, [case_line(cap, sub)])
        if not out or out[0].startswith("abort:"):
            return False
        outs = out[0].split("|", 1)[1].split()
        rc, sp, _ = ctx.run_model("model_c16", ["spec cap=%d ops=%s outs=%s" % (cap, ",".join(sub), ",".join(outs))])
        return bool(sp) and sp[0] != "spec-ok"
    return vlib.ddmin(ops, failing, max_tests=150)


def dn_sweep(ctx, binary, caps):
    """the constructor's Dn expression vs the model's dnOf, for every capacity in caps"""
    lines = ["heap cap=%d ops=x" % c for c in caps]
    impl = ctx.run_impl_cases(binary, lines)
    rc, model, _ = ctx.run_model("model_c16", lines)
    bad = [(c, i, m) for c, i, m in zip(caps, impl, model) if i.split("|")[0] != m.split("|")[0]]
    ctx.extra["dn_sweep"] = {"capacities": len(caps), "mismatches": len(bad)}
    ctx.count("dn-sweep", True, n=len(caps))
    if bad:
        c, i, m = bad[0]
        ctx.broken("corr:dn", "correspondence c16_heap (Dn expression vs model dnOf)",
                   "size of the consolidation array differs from the model at capacity %d: impl %s model %s" % (c, i, m),
                   case="heap cap=%d ops=x" % c)


def correspond(ctx):
    binary, log = ctx.build_harness("c16_heap.cpp")
    if not binary:
        ctx.broken("harness-build", "harness c16_heap.cpp", "harness does not compile against /repo: " + log[-800:])
        return
    r = ctx.rng
    quick = ctx.tier == "quick"
    # corpus first
    corpus = []
    cdir = os.path.join(vlib.ROOT, "corpus", "C16")
    if os.path.isdir(cdir):
        for f in sorted(os.listdir(cdir)):
            for l in open(os.path.join(cdir, f)):
                l = l.strip()
                if l.startswith("heap "):
                    fs = dict(t.split("=", 1) for t in l.split()[1:])
                    corpus.append((int(fs["cap"]), fs["ops"].split(",")))
    if corpus:
        judge(ctx, binary, corpus, "corpus")
    ncases = 16000 if quick else 200000
    caps_small = [1, 2, 3, 4, 5, 6, 7, 8, 9, 12, 15, 16, 17, 31, 32, 33, 63, 64]
    batch = []
    for n in range(ncases):
        name, g = GENS[n % len(GENS)]
        cap = r.choice(caps_small) if r.chance(5, 6) else r.range(1, 64 if quick else 400)
        length = r.range(1, 60) if r.chance(1, 2) else r.range(60, 300 if quick else 1500)
        keymax = r.choice([2, 3, 5, 10, 1000])
        ops = g(r.fork(), cap, length, keymax)
        if ops:
            batch.append((name, cap, ops))
    for name, _ in GENS:
        sub = [(c, o) for n, c, o in batch if n == name]
        for i in range(0, len(sub), 1000):
            judge(ctx, binary, sub[i:i + 1000], name)
    if not quick:
        ex = list(exhaustive_cases(4, caps=(1, 2, 3))) + list(exhaustive_cases(3, caps=(4, 5)))
        for i in range(0, len(ex), 5000):
            judge(ctx, binary, ex[i:i + 5000], "exhaustive")
        ctx.extra["exhaustive_small"] = {"histories": len(ex), "capacities": "1..3 (len<=4), 4..5 (len<=3)", "keys": [0, 1, 2]}
    dn_sweep(ctx, binary, list(range(1, 2050 if quick else 5000)) + ([] if quick else [2 ** k + d for k in range(13, 21) for d in (-1, 0, 1)]))
    ctx.cov["rule"] = ("histories from 4 generators (uniform, guard-exercising, Dijkstra-shaped, thin-tree adversarial) over "
                       "capacities 1..%d, lengths 1..%d, key alphabets 2..1000; non-trivial = contains an insert and an extract_min; "
                       "distinct by case text" % (64 if quick else 400, 300 if quick else 1500))
    ctx.assumptions += [
        "keys are non-NaN; Int keys in the model stand for any totally ordered key set (the heap only compares and copies keys)",
        "memory safety of the compiled code is observed by ASan/UBSan on the generated histories; the theorem no_oob is about the model's index d < Dn",
    ]


def replay_case(ctx, body):
    """python3 check.py replay <file>: the recorded history against the current tree and the model"""
    binary, log = ctx.build_harness("c16_heap.cpp")
    if not binary:
        ctx.broken("harness-build", "harness c16_heap.cpp", "harness does not compile against /repo: " + log[-800:])
        return
    fs = dict(t.split("=", 1) for t in body["case"].split()[1:])
    judge(ctx, binary, [(int(fs["cap"]), fs["ops"].split(","))], "replay")
    ctx.cov["rule"] = "replay of one recorded history"
    print("replayed:", body["case"][:200])
    print("evidence/C16.json holds the observation; exit status 1 = the violation reproduces")
