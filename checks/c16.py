"""C16 — the Fibonacci heap is a correct indexed min-priority queue under every history.
Model: lean/TapkeeVerif/Model/FibHeap.lean (+ FibHeapSpec.lean); theorems: Props/C16.lean;
harness: harness/c16_heap.cpp (real class, ASan+UBSan)."""
import itertools
import os
import subprocess
import time

import vlib

PROPERTY = "C16"
LEAN_MODULES = ["TapkeeVerif.Props.C16"]
LEAN_EXES = ["model_c16"]
REQUIRED_THEOREMS_FINAL = [
    "TapkeeVerif.FibHeap.refines_map",
    "TapkeeVerif.FibHeap.inv_reachable",
    "TapkeeVerif.FibHeap.no_corrupt",
    "TapkeeVerif.FibHeap.no_oob",
]


# ----------------------------------------------------------------------------- generators
def gen_uniform(r, cap, length, keymax):
    ops = []
    for _ in range(length):
        c = r.below(100)
        if c < 40:
            ops.append("i:%d:%d" % (r.below(cap), r.below(keymax)))
        elif c < 65:
            ops.append("d:%d:%d" % (r.below(cap), r.below(keymax)))
        elif c < 92:
            ops.append("x")
        elif c < 97:
            ops.append("g:%d" % r.below(cap))
        else:
            ops.append("c")
    return ops


def gen_guards(r, cap, length, keymax):
    """out-of-range / occupied / absent / larger-key / empty-extract / clear mid-history"""
    ops = []
    for _ in range(length):
        c = r.below(100)
        idx = r.choice([-3, -1, 0, cap - 1, cap, cap + 1, r.below(cap + 2)])
        if c < 35:
            ops.append("i:%d:%d" % (idx, r.below(keymax)))
        elif c < 65:
            ops.append("d:%d:%d" % (idx, r.range(-2, keymax + 2)))
        elif c < 85:
            ops.append("x")
        elif c < 95:
            ops.append("g:%d" % idx)
        else:
            ops.append("c")
    return ops


def gen_dijkstra(r, cap, length, keymax):
    """insert everything with a large key, then decrease / extract with non-decreasing extraction keys"""
    ops = []
    big = keymax * 10
    present = {}
    for i in range(cap):
        if r.chance(4, 5):
            ops.append("i:%d:%d" % (i, big))
            present[i] = big
    cur = 0
    while len(ops) < length and present:
        if r.chance(2, 3):
            i = r.choice(sorted(present))
            nk = cur + r.below(keymax)
            ops.append("d:%d:%d" % (i, nk))
            if nk <= present[i]:
                present[i] = nk
        else:
            ops.append("x")
            k = min(present.values())
            cands = [i for i in present if present[i] == k]
            # which one the implementation removes is unknown; keep the reference conservative
            if len(cands) == 1:
                del present[cands[0]]
                cur = k
            else:
                break
    return ops


def gen_thin(r, cap, length, keymax):
    """adversarial: build binomial-like trees by extract_min, then cut grandchildren by decrease_key so that
    ranks stay high while sizes shrink (the pattern that makes trees maximally thin)"""
    ops = []
    base = 1000
    alive = {}
    nxt = 0
    rounds = 0
    while len(ops) < length and rounds < 60:
        rounds += 1
        # fill up
        free = [i for i in range(cap) if i not in alive]
        r_free = r.shuffle(free)
        for i in r_free[: r.range(1, max(1, len(r_free)))]:
            k = base + r.below(keymax)
            ops.append("i:%d:%d" % (i, k))
            alive[i] = k
        # a sacrificial minimum, extracted at once -> consolidate links everything
        sac = [i for i in range(cap) if i not in alive]
        if sac:
            ops.append("i:%d:%d" % (sac[0], 0))
            ops.append("x")
        else:
            ops.append("x")
            k = min(alive.values())
            c = [i for i in alive if alive[i] == k]
            if len(c) != 1:
                break
            del alive[c[0]]
        # cut a few nodes: decrease to distinct small keys (< every live key) then remove them
        victims = r.shuffle(sorted(alive))[: r.range(0, max(0, len(alive) // 2))]
        for v in victims:
            nxt += 1
            ops.append("d:%d:%d" % (v, -nxt if r.chance(1, 2) else 1))
            alive[v] = min(alive[v], -nxt if ops[-1].endswith(str(-nxt)) else 1)
        if r.chance(1, 2) and alive:
            ops.append("x")
            k = min(alive.values())
            c = [i for i in alive if alive[i] == k]
            if len(c) != 1:
                break
            del alive[c[0]]
    return ops[:length]


REQUIRED_THEOREMS = [
    "TapkeeVerif.FibHeap.inv_reachable",
    "TapkeeVerif.FibHeap.min_root_minimal",
    "TapkeeVerif.FibHeap.refines_map",
    "TapkeeVerif.FibHeap.no_corrupt",
    "TapkeeVerif.FibHeap.no_oob",
    "TapkeeVerif.FibHeap.no_oob_of_fib",
    "TapkeeVerif.FibHeap.run_total",
    "TapkeeVerif.FibHeap.carry_fuel_adequate",
    "TapkeeVerif.FibHeap.dnOf_fuel_adequate",
]
GENS = [("uniform", gen_uniform), ("guards", gen_guards), ("dijkstra", gen_dijkstra), ("thin", gen_thin)]


def exhaustive_cases(maxlen, caps=(1, 2, 3), keys=(0, 1, 2)):
    """every history of length <= maxlen over a small alphabet (thorough tier)"""
    for cap in caps:
        alpha = ["x", "c"]
        for i in range(cap):
            for k in keys:
                alpha.append("i:%d:%d" % (i, k))
                alpha.append("d:%d:%d" % (i, k))
        for L in range(1, maxlen + 1):
            for ops in itertools.product(alpha, repeat=L):
                yield cap, list(ops)


KEY_SCALES = [-60, -40, -20, 20, 40, 900]
KEY_OFFSETS = [2 ** 52, -(2 ** 52)]


def case_line(cap, ops, ks=0, dump=True):
    """`ks=<e>`: the harness hands ldexp(K, e) to the real heap for every integer key K of the line (exact doubles:
    |K| < 2^53); the model line never carries it - K -> ldexp(K, e) is an order isomorphism and the heap only
    compares and copies keys, so the model stays on Int keys and the implementation's keys are mapped back
    (`unscale`) before any comparison"""
    return "heap cap=%d ops=%s%s%s" % (cap, ",".join(ops), " ks=%d" % ks if ks else "", " dump=1" if dump else "")


def norm_case(c):
    return (c[0], c[1], c[2] if len(c) > 2 else 0)


def unscale_key(tok, ks):
    """exact inverse of the harness' key scaling on a vh::num token (`m:e` = m*2^e, or a plain integer)"""
    if ":" in tok:
        m, e = tok.split(":")
        m, e = int(m), int(e)
    else:
        try:
            m, e = int(tok), 0
        except ValueError:
            return "?" + tok
    e -= ks
    if e >= 0:
        return str(m << e)
    if m % (1 << -e) == 0:
        return str(m >> -e)
    return "?" + tok            # not an integer multiple of 2^ks: cannot be a key the history supplied


def unscale(io, ks):
    """the implementation's line with every key mapped back to the integer K of the case line"""
    if ks == 0 or io.startswith("abort:"):
        return io
    seg = io.split("|")
    toks = []
    for t in seg[1].split():
        body, _, suffix = t.partition("/")
        suffix = "/" + suffix if suffix else ""
        if body.startswith("x") and not body.startswith("x-1:"):
            parts = body[1:].split(":")
            body = "x%s:%s:%s" % (parts[0], unscale_key(":".join(parts[1:-1]), ks), parts[-1])
        elif body.startswith("g") and body != "g-":
            body = "g" + unscale_key(body[1:], ks)
        toks.append(body + suffix)
    seg[1] = " " + " ".join(toks) + " " if toks else seg[1]
    if len(seg) >= 4:
        ns = []
        for t in seg[3].split():
            i, p_, r, m, k = t.split(":", 4)
            ns.append("%s:%s:%s:%s:%s" % (i, p_, r, m, unscale_key(k, ks)))
        if ns:
            seg[3] = " " + " ".join(ns)
    return "|".join(seg)


def shift_keys(ops, off):
    """the same history with every key moved by `off` (order preserved): keys of size 2^52"""
    if not off:
        return ops
    out = []
    for o in ops:
        p_ = o.split(":")
        if p_[0] in ("i", "d"):
            p_[2] = str(int(p_[2]) + off)
        out.append(":".join(p_))
    return out


def out_tokens(io):
    """the per-operation output tokens of a harness/driver line `dn=.. | tokens | r=.. n=.. m=.. t=.. [| dump]`
    (trace suffixes `/r:n:m` removed)"""
    return [t.split("/")[0] for t in io.split("|")[1].split()]


def parse_structure(io):
    """(max rank, stored, marked, trees) of the final heap, None if the line has no structure segment"""
    seg = io.split("|")
    if len(seg) < 3:
        return None
    d = dict(t.split("=") for t in seg[2].split())
    return int(d["r"]), int(d["n"]), int(d["m"]), int(d["t"])


def parse_dump(io):
    """{idx: (parent, rank, marked, key)} from a dump=1 line"""
    seg = io.split("|")
    nodes = {}
    if len(seg) >= 4:
        for t in seg[3].split():
            i, p, r, m, k = t.split(":", 4)
            nodes[int(i)] = (int(p), int(r), int(m), k)
    return nodes


# ----------------------------------------------------------------------------- implementation-guided search
FIB = [0, 1]
while len(FIB) < 80:
    FIB.append(FIB[-1] + FIB[-2])


class Session:
    """one long-lived harness process answering one line per request (`heap …` opens a heap, `more …` continues on it);
    a sanitizer abort / crash ends the process and shows as `None`"""

    def __init__(self, binary):
        e = dict(os.environ)
        e.setdefault("ASAN_OPTIONS", "detect_leaks=0:abort_on_error=0:exitcode=97")
        e.setdefault("UBSAN_OPTIONS", "print_stacktrace=1:exitcode=97")
        self.p = subprocess.Popen([binary], stdin=subprocess.PIPE, stdout=subprocess.PIPE, stderr=subprocess.DEVNULL,
                                  text=True, env=e, bufsize=1)

    def ask(self, line):
        try:
            self.p.stdin.write(line + "\n")
            self.p.stdin.flush()
            out = self.p.stdout.readline()
        except (BrokenPipeError, OSError):
            return None
        return out.rstrip("\n") if out.endswith("\n") else None

    def close(self):
        try:
            self.p.stdin.close()
        except OSError:
            pass
        try:
            self.p.wait(timeout=5)
        except subprocess.TimeoutExpired:
            self.p.kill()
        self.p.stdout.close()


class Guide:
    """a history under construction on the REAL heap: every step is executed by the harness process and the next
    moves are chosen from the structure it reports (parent, rank, mark, key of every stored node)"""
    BIG = 10 ** 6

    def __init__(self, sess, cap, stats, ks=0):
        self.sess, self.cap, self.stats, self.ks = sess, cap, stats, ks
        self.ops, self.nodes = [], {}
        self.lo, self.hi = 0, self.BIG
        self.dead = False
        self.dn = None
        self.best = (0, 0)          # (max rank seen, -stored nodes at that moment)

    # -- execution
    def do(self, ops):
        if self.dead or not ops:
            return not self.dead
        head = ("heap cap=%d" % self.cap) if not self.ops else "more"
        self.ops += ops
        out = self.sess.ask("%s ops=%s%s trace=1 dump=1" % (head, ",".join(ops), " ks=%d" % self.ks if self.ks else ""))
        if out is None:
            self.dead = True
            return False
        seg = out.split("|")
        self.dn = int(seg[0].split("=")[1])
        st = self.stats
        for t in seg[1].split():
            r, n, m = (int(x) for x in t.split("/")[1].split(":"))
            st["steps"] += 1
            if (r, -n) > self.best:
                self.best = (r, -n)
            if n < st["heap_min_nodes"].get(r, 1 << 30):
                st["heap_min_nodes"][r] = n
        self.nodes = parse_dump(out)
        self.observe()
        return True

    def observe(self):
        """measured invariants of the real heap: rank = number of children, subtree size >= fib(rank + 2)"""
        st = self.stats
        kids = self.children()
        size = {}
        order = sorted(self.nodes, key=lambda v: -self.depth(v))
        for v in order:
            size[v] = 1 + sum(size.get(c, 1) for c in kids.get(v, []))
        st["dumps"] += 1
        for v, (p, r, m, k) in self.nodes.items():
            st["nodes_checked"] += 1
            if size[v] < st["tree_min_size"].get(r, 1 << 30):
                st["tree_min_size"][r] = size[v]
            if r != len(kids.get(v, [])) and "rank_violation" not in st:
                st["rank_violation"] = {"ops": list(self.ops), "ks": self.ks, "node": v, "rank": r, "children": len(kids.get(v, []))}
            if FIB[min(r + 2, 79)] > size[v] and "degree_violation" not in st:
                st["degree_violation"] = {"ops": list(self.ops), "ks": self.ks, "node": v, "rank": r, "size": size[v]}

    # -- structure
    def children(self):
        kids = {}
        for v, (p, r, m, k) in self.nodes.items():
            if p != -1:
                kids.setdefault(p, []).append(v)
        return kids

    def depth(self, v):
        d = 0
        while v in self.nodes and self.nodes[v][0] != -1 and d <= self.cap:
            v = self.nodes[v][0]
            d += 1
        return d

    def free(self):
        return [i for i in range(self.cap) if i not in self.nodes]

    # -- moves
    def newmin(self):
        self.lo -= 1
        return self.lo

    def newbig(self):
        self.hi += 1
        return self.hi

    def add(self, k=1):
        return self.do(["i:%d:%d" % (i, self.newbig()) for i in self.free()[:k]])

    def consolidate(self):
        """insert a fresh minimum and extract it at once: everything in the root ring gets linked"""
        fr = self.free()
        if not fr:
            return False
        return self.do(["i:%d:%d" % (fr[0], self.newmin()), "x"])

    def cut(self, vs):
        """decrease below the minimum: the node is cut from its parent and stays in the heap as a root"""
        return self.do(["d:%d:%d" % (v, self.newmin()) for v in vs])

    def delete(self, vs):
        ops = []
        for v in vs:
            ops += ["d:%d:%d" % (v, self.newmin()), "x"]
        return self.do(ops)


PRUNE_RULES = ["thin", "thin-del", "deepcut", "deepdel", "grandcut", "none"]


def prune(g, P, r):
    """one pruning pass chosen from the structure the implementation reports"""
    rule = P["prune"]
    nodes = g.nodes
    kids = g.children()
    if rule in ("thin", "thin-del"):
        # textbook: every non-root node may lose ONE child (it gets marked); take its child of highest rank
        vs = []
        for u, (p, rk, m, k) in sorted(nodes.items()):
            if p != -1 and not m and kids.get(u):
                vs.append(max(kids[u], key=lambda c: (nodes[c][1], -c)))
        if P["order"]:
            vs.reverse()
        return g.cut(vs) if rule == "thin" else g.delete(vs)
    if rule == "deepcut":
        # cut every node two or more levels below a root (what a correct heap answers with cascading cuts)
        vs = sorted((v for v in nodes if g.depth(v) >= 2), key=lambda v: (g.depth(v), v), reverse=bool(P["order"]))
        return g.cut(vs)
    if rule == "grandcut":
        vs = sorted(v for v in nodes if g.depth(v) == 2)
        if P["order"]:
            vs.reverse()
        return g.cut(vs)
    if rule == "deepdel":
        for _ in range(8):
            kids = g.children()
            vs = [v for v in sorted(g.nodes) if g.depth(v) >= 2 and not kids.get(v)]
            if not vs:
                break
            if not g.delete(vs):
                return False
        return True
    return True


def run_policy(g, P, r, deadline, max_rounds):
    """rounds of: grow a little, force a consolidation, prune; stops at the deadline, on an abort, or when stuck"""
    if P["fill"]:
        g.add(max(0, len(g.free()) - 1 - P["spare"]))
    for _ in range(max_rounds):
        if g.dead or time.time() > deadline:
            break
        fr = len(g.free())
        if fr > 1:
            g.add(min(P["grow"], fr - 1))
        elif fr == 0:
            # full: remove the smallest-rank root that is not the only tree
            roots = sorted((v for v in g.nodes if g.nodes[v][0] == -1), key=lambda v: (g.nodes[v][1], v))
            if not roots or not g.delete(roots[:1]):
                break
        if not g.consolidate():
            break
        if not prune(g, P, r):
            break
        if P["noise"] and g.nodes and r.chance(P["noise"], 100):
            v = r.choice(sorted(g.nodes))
            if g.nodes[v][0] != -1:
                (g.cut if r.chance(1, 2) else g.delete)([v])
    return g


def random_policy(r):
    return {"prune": r.choice(PRUNE_RULES[:5]), "order": r.below(2), "grow": r.choice([1, 1, 2, 3]), "fill": r.below(2),
            "spare": r.choice([0, 0, 2, 5]), "noise": r.choice([0, 0, 5, 20]),
            "ks": r.choice(KEY_SCALES) if r.chance(1, 3) else 0}


def mutate_policy(r, P):
    Q = dict(P)
    k = r.choice(sorted(Q))
    Q[k] = random_policy(r)[k]
    return Q


# the deterministic adversarial generators: the textbook recipe (each non-root node loses exactly its highest-rank
# child) and the "cut everything two levels down" pattern a correct heap must answer with cascading cuts
FIXED_POLICIES = [
    {"prune": "thin", "order": 0, "grow": 1, "fill": 0, "spare": 0, "noise": 0},
    {"prune": "thin", "order": 0, "grow": 1, "fill": 1, "spare": 0, "noise": 0},
    {"prune": "deepcut", "order": 0, "grow": 1, "fill": 0, "spare": 0, "noise": 0},
    {"prune": "deepcut", "order": 1, "grow": 1, "fill": 1, "spare": 0, "noise": 0},
    {"prune": "deepdel", "order": 0, "grow": 1, "fill": 0, "spare": 0, "noise": 0},
    {"prune": "thin-del", "order": 0, "grow": 2, "fill": 0, "spare": 0, "noise": 0},
]


def guided_search(ctx, binary, caps, budget_s, slice_s):
    """population / hill-climbing over (capacity, policy): every candidate is grown on the real heap under ASan;
    survivors are the candidates that reached the highest rank with the fewest nodes; their policies are mutated.
    Returns (per-capacity statistics, list of (cap, ops) that made the implementation abort, best histories)."""
    r = ctx.rng.fork()
    t_end = time.time() + budget_s
    stats = {}
    aborted, best_hist = [], {}
    # the deterministic recipes on every capacity, every third one at a non-zero key scale
    pool = [(cap, dict(P, ks=KEY_SCALES[(i + j) % len(KEY_SCALES)] if (i + j) % 3 == 0 else 0))
            for i, P in enumerate(FIXED_POLICIES) for j, cap in enumerate(caps)]
    pool = r.shuffle(pool)
    scored = []
    runs = 0
    while time.time() < t_end:
        if pool:
            cap, P = pool.pop()
        elif scored:
            scored.sort(key=lambda x: x[0], reverse=True)
            del scored[12:]
            _, cap, P = r.choice(scored[:6])
            P = mutate_policy(r, P)
            if r.chance(1, 3):
                cap = r.choice(caps)
        else:
            cap, P = r.choice(caps), random_policy(r)
        st = stats.setdefault(cap, {"steps": 0, "dumps": 0, "nodes_checked": 0, "heap_min_nodes": {}, "tree_min_size": {},
                                    "runs": 0, "aborts": 0})
        sess = Session(binary)
        g = Guide(sess, cap, st, P.get("ks", 0))
        run_policy(g, P, r, min(t_end, time.time() + slice_s), 4 * cap + 200)
        sess.close()
        runs += 1
        st["runs"] += 1
        st["dn"] = g.dn
        if g.dead:
            st["aborts"] += 1
            aborted.append((cap, list(g.ops), dict(P)))
            if len(aborted) >= 3:
                break
        rank, negn = g.best
        # thinness: how far above the Fibonacci bound the best tree of that rank is (smaller = thinner)
        score = (rank - (g.dn or 1), rank, negn)
        scored.append((score, cap, P))
        if cap not in best_hist or score > best_hist[cap][0]:
            best_hist[cap] = (score, list(g.ops), dict(P))
    return stats, aborted, best_hist, runs


def degree_violations(io):
    """nodes of a dump=1 line whose subtree is smaller than fib(rank + 2), or whose rank is not their number of children"""
    nodes = parse_dump(io)
    kids = {}
    for v, (p, r, m, k) in nodes.items():
        if p != -1:
            kids.setdefault(p, []).append(v)

    def depth(v):
        d = 0
        while v in nodes and nodes[v][0] != -1 and d <= len(nodes):
            v = nodes[v][0]
            d += 1
        return d
    size = {}
    for v in sorted(nodes, key=lambda v: -depth(v)):
        size[v] = 1 + sum(size.get(c, 1) for c in kids.get(v, []))
    return [(v, nodes[v][1], size[v]) for v in nodes
            if FIB[min(nodes[v][1] + 2, 79)] > size[v] or nodes[v][1] != len(kids.get(v, []))]


def guided_phase(ctx, binary):
    quick = ctx.tier == "quick"
    caps = [8, 13, 20, 21, 32, 33, 40, 54] if quick else [5, 8, 12, 13, 16, 20, 21, 25, 30, 32, 33, 34, 38, 40, 48, 54, 55, 64]
    stats, aborted, best, runs = guided_search(ctx, binary, caps, 12.0 if quick else 150.0, 1.0 if quick else 4.0)
    ctx.stat("guided-runs", runs)
    report = {}
    bound_ok = True
    for cap in sorted(stats):
        st = stats[cap]
        ctx.stat("guided-steps", st["steps"])
        tms = {r: n for r, n in sorted(st["tree_min_size"].items())}
        ok = all(FIB[r + 2] <= n for r, n in tms.items()) and "rank_violation" not in st
        bound_ok = bound_ok and ok
        maxrank = max(st["heap_min_nodes"]) if st["heap_min_nodes"] else 0
        report[str(cap)] = {"Dn": st.get("dn"), "runs": st["runs"], "operations": st["steps"], "max_rank_reached": maxrank,
                            "min_stored_nodes_at_max_rank": {str(r): n for r, n in sorted(st["heap_min_nodes"].items())},
                            "min_subtree_size_by_rank": {str(r): n for r, n in tms.items()},
                            "fib_bound_by_rank": {str(r): FIB[r + 2] for r in tms},
                            "nodes_checked": st["nodes_checked"], "degree_bound_holds": ok, "aborts": st["aborts"]}
        if st.get("dn") is not None and maxrank >= st["dn"] and not st["aborts"]:
            _, ops, _ = best[cap]
            ctx.fail("rank>=Dn", "a node of the real heap reached rank %d >= Dn = %d at capacity %d: consolidate() indexed A[Dn]"
                     % (maxrank, st["dn"], cap), case=case_line(cap, ops, best[cap][2].get("ks", 0)),
                     detail={"stats": report[str(cap)]})
    ctx.extra["guided_search"] = {"per_capacity": report, "degree_bound_fib(rank+2)<=size_measured_on_real_heap": bound_ok,
                                  "policies": "textbook thin-tree recipe, cut-all-two-levels-down, delete-deep-leaves (deterministic), "
                                              "then hill-climbing mutations of (capacity, policy)"}
    # histories that made the real heap abort: failing inputs (judge shrinks the first of each signature)
    for cap, ops, P in sorted(aborted, key=lambda a: len(a[1])):
        judge(ctx, binary, [(cap, ops, P.get("ks", 0))], "guided-abort")
    # a violated degree bound without an abort: the real heap left the proved invariant
    if not aborted:
        for cap in sorted(stats):
            for key, what in (("degree_violation", "a node of rank %(rank)d heads only %(size)d nodes (< fib(rank+2))"),
                              ("rank_violation", "a node has rank %(rank)d but %(children)d children")):
                v = stats[cap].get(key)
                if not v:
                    continue

                def failing(sub, cap=cap, ks=v.get("ks", 0)):
                    out = ctx.run_impl_cases(binary, [case_line(cap, sub, ks)])
                    return bool(out) and not out[0].startswith("abort:") and bool(degree_violations(out[0]))
                small = vlib.ddmin(v["ops"], failing, max_tests=120, budget_s=15.0)
                ctx.broken("corr:" + key, "invariant Inv on the real heap (rank = children, size >= fib(rank+2))",
                           "the real heap leaves the invariant proved for the model: " + what % v,
                           case=case_line(cap, small, v.get("ks", 0)),
                           detail={k: v[k] for k in v if k != "ops"})
                break
    # the best history per capacity goes through the full model / implementation / specification comparison
    judge(ctx, binary, [(cap, best[cap][1], best[cap][2].get("ks", 0)) for cap in sorted(best)
                        if not any(a[0] == cap for a in aborted)], "guided-best")


# ----------------------------------------------------------------------------- correspondence
def judge(ctx, binary, cases, label):
    """cases: list of (cap, ops[, ks]).  Runs implementation (keys scaled by 2^ks), model and the Lean spec checker
    (both on the integer keys; the implementation's keys are mapped back first)."""
    cases = [norm_case(c) for c in cases]
    lines = [case_line(c, o, ks) for c, o, ks in cases]
    impl = [unscale(io, ks) for io, (c, o, ks) in zip(ctx.run_impl_cases(binary, lines), cases)]
    rc, model, err = ctx.run_model("model_c16", [case_line(c, o) for c, o, ks in cases])
    if rc != 0 or len(model) != len(lines):
        ctx.broken("model-driver", "model_c16", "model driver failed: rc=%s %s" % (rc, err[-300:]))
        return
    # spec checker on the implementation's observations
    spec_lines = []
    for (cap, ops, ks), io in zip(cases, impl):
        if io.startswith("abort:"):
            spec_lines.append("spec cap=%d ops=%s outs=" % (cap, ",".join(ops[:0])))
        else:
            outs = out_tokens(io)
            spec_lines.append("spec cap=%d ops=%s outs=%s" % (cap, ",".join(ops), ",".join(outs)))
    rc, spec, err = ctx.run_model("model_c16", spec_lines)
    if rc != 0 or len(spec) != len(spec_lines):
        ctx.broken("model-driver", "model_c16 (spec checker)", "spec checker run failed: rc=%s, %d answers for %d questions %s"
                   % (rc, len(spec), len(spec_lines), err[-300:]))
        return
    # an answered (non-aborted) history must carry exactly one output per operation
    spec = [("spec-reject@length" if (not io.startswith("abort:") and len(out_tokens(io)) != len(ops)) else so)
            for (cap, ops, ks), io, so in zip(cases, impl, spec)]
    for (cap, ops, ks), line, io, mo, so in zip(cases, lines, impl, model, spec):
        nontrivial = ("x" in ops) and any(o.startswith("i:") for o in ops)
        ctx.count(line, nontrivial)
        ctx.stat("gen:" + label)
        ctx.stat("cap<=8" if cap <= 8 else "cap<=64" if cap <= 64 else "cap>64")
        ctx.stat("key-scale:%d" % ks)
        ctx.cov["traces_validated_against_impl"] += 1
        if io.startswith("abort:"):
            sig = io[len("abort:"):]
            ctx.stat("impl-abort")
            small = ops
            if ("abort:" + sig) not in ctx.extra.setdefault("shrunk_signatures", []):
                ctx.extra["shrunk_signatures"].append("abort:" + sig)
                small = shrink(ctx, binary, cap, ops, lambda out: out.startswith("abort:"), ks)
            ctx.fail("abort:" + sig, "fibonacci_heap touches memory outside its arrays / aborts (%s) on a %d-operation history, capacity %d"
                     % (sig, len(small), cap), case=case_line(cap, small, ks),
                     detail={"impl": io, "model": mo, "stderr": getattr(ctx, "last_abort_stderr", "")[-1500:]})
            continue
        if so != "spec-ok":
            ctx.stat("impl-spec-reject")

            def bad(out, cap=cap):
                return False
            small = ops
            if "spec-reject" not in ctx.extra.setdefault("shrunk_signatures", []):
                ctx.extra["shrunk_signatures"].append("spec-reject")
                small = shrink_spec(ctx, binary, cap, ops, ks)
            ctx.fail("spec-reject", "fibonacci_heap output is not an indexed-min-queue behaviour (%s)" % so,
                     case=case_line(cap, small, ks), detail={"impl": io, "model": mo, "spec": so})
            continue
        if io != mo:
            ctx.stat("fidelity-mismatch")
            if "ERR:" in mo:
                # the model reaches an error state on a history the implementation survived
                ctx.broken("corr:model-error", "correspondence c16_heap (model reaches %s, implementation does not abort)" % mo.split()[-1],
                           "model and implementation disagree", case=line, detail={"impl": io, "model": mo})
            else:
                ctx.broken("corr:outputs", "correspondence c16_heap (identical-output tie of model and implementation)",
                           "model and implementation outputs differ although both satisfy the specification",
                           case=line, detail={"impl": io, "model": mo})
        else:
            ctx.stat("fidelity-identical")
        if len(ctx.cov["samples"]) < 5 and nontrivial and len(ops) < 40:
            ctx.sample({"case": line, "impl": io, "model": mo, "spec": so})


def large_leg(ctx, binary, n):
    """the property's own scale (capacity 10^4, 10^5 operations): implementation (ASan) against the specification
    checker only - the list-based model is not run at this size"""
    import hashlib
    r = ctx.rng.fork()
    cap, length = 10 ** 4, 10 ** 5
    cases = []
    for j in range(n):
        name, g = GENS[j % len(GENS)]
        ops = g(r.fork(), cap, length, r.choice([1000, 10 ** 6, 10 ** 9]))
        ks = r.choice(KEY_SCALES) if j % 2 else 0
        off = r.choice(KEY_OFFSETS) if j % 3 == 2 else 0
        cases.append((name, shift_keys(ops, off), ks))
    lines = [case_line(cap, o, ks, dump=False) + " alarm=120" for _, o, ks in cases]
    impl = [unscale(io, ks) for io, (_, o, ks) in zip(ctx.run_impl_cases(binary, lines, timeout=1800), cases)]
    spec_lines = ["spec cap=%d ops=%s outs=%s" % (cap, ",".join(o), "" if io.startswith("abort:") else ",".join(out_tokens(io)))
                  for (_, o, ks), io in zip(cases, impl)]
    rc, spec, err = ctx.run_model("model_c16", spec_lines)
    if rc != 0 or len(spec) != len(spec_lines):
        ctx.broken("model-driver", "model_c16 (spec checker)", "spec checker run failed on the large leg: rc=%s %s" % (rc, err[-300:]))
        return
    longest = 0
    for (name, ops, ks), line, io, so in zip(cases, lines, impl, spec):
        ctx.count("large:" + hashlib.sha256(line.encode()).hexdigest()[:16], True)
        ctx.stat("gen:large-" + name)
        ctx.stat("cap=10^4")
        ctx.stat("key-scale:%d" % ks)
        longest = max(longest, len(ops))
        if io.startswith("abort:"):
            small = shrink(ctx, binary, cap, ops, lambda out: out.startswith("abort:"), ks)
            ctx.fail(io, "fibonacci_heap aborts (%s) at capacity 10^4 on a %d-operation history" % (io, len(small)),
                     case=case_line(cap, small, ks), detail={"impl": io})
        elif so != "spec-ok" or len(out_tokens(io)) != len(ops):
            small = shrink_spec(ctx, binary, cap, ops, ks)
            ctx.fail("spec-reject", "fibonacci_heap output is not an indexed-min-queue behaviour (%s) at capacity 10^4" % so,
                     case=case_line(cap, small, ks), detail={"spec": so})
        else:
            ctx.stat("large-spec-ok")
    ctx.extra["large_leg"] = {"histories": len(cases), "capacity": cap, "longest_history": longest,
                              "compared": "implementation under ASan vs specification checker (no model run)"}


def shrink(ctx, binary, cap, ops, pred, ks=0):
    def failing(sub):
        out = ctx.run_impl_cases(binary, [case_line(cap, sub, ks)])
        return bool(out) and pred(out[0])
    return vlib.ddmin(ops, failing, max_tests=400, budget_s=40.0)


def shrink_spec(ctx, binary, cap, ops, ks=0):
    def failing(sub):
        out = ctx.run_impl_cases(binary, [case_line(cap, sub, ks)])
        if not out or out[0].startswith("abort:"):
            return False
        outs = out_tokens(unscale(out[0], ks))
        rc, sp, _ = ctx.run_model("model_c16", ["spec cap=%d ops=%s outs=%s" % (cap, ",".join(sub), ",".join(outs))])
        return bool(sp) and sp[0] != "spec-ok"
    return vlib.ddmin(ops, failing, max_tests=150)


def dn_sweep(ctx, binary, caps):
    """the constructor's Dn expression vs the model's dnOf, for every capacity in caps"""
    lines = ["heap cap=%d ops=x" % c for c in caps]
    impl = ctx.run_impl_cases(binary, lines)
    rc, model, _ = ctx.run_model("model_c16", lines)
    bad = [(c, i, m) for c, i, m in zip(caps, impl, model) if i.split("|")[0] != m.split("|")[0]]
    ctx.extra["dn_sweep"] = {"capacities": len(caps), "mismatches": len(bad)}
    ctx.count("dn-sweep", True, n=len(caps))
    if bad:
        c, i, m = bad[0]
        ctx.broken("corr:dn", "correspondence c16_heap (Dn expression vs model dnOf)",
                   "size of the consolidation array differs from the model at capacity %d: impl %s model %s" % (c, i, m),
                   case="heap cap=%d ops=x" % c)


def correspond(ctx):
    binary, log = ctx.build_harness("c16_heap.cpp")
    if not binary:
        ctx.broken("harness-build", "harness c16_heap.cpp", "harness does not compile against /repo: " + log[-800:])
        return
    r = ctx.rng
    quick = ctx.tier == "quick"
    # corpus first
    corpus = []
    cdir = os.path.join(vlib.ROOT, "corpus", "C16")
    if os.path.isdir(cdir):
        for f in sorted(os.listdir(cdir)):
            for l in open(os.path.join(cdir, f)):
                l = l.strip()
                if l.startswith("heap "):
                    fs = dict(t.split("=", 1) for t in l.split()[1:])
                    corpus.append((int(fs["cap"]), fs["ops"].split(","), int(fs.get("ks", "0"))))
    if corpus:
        judge(ctx, binary, corpus, "corpus")
    guided_phase(ctx, binary)
    ncases = 16000 if quick else 200000
    caps_small = [1, 2, 3, 4, 5, 6, 7, 8, 9, 12, 15, 16, 17, 31, 32, 33, 63, 64]
    batch = []
    for n in range(ncases):
        name, g = GENS[n % len(GENS)]
        cap = r.choice(caps_small) if r.chance(5, 6) else r.range(1, 64 if quick else 400)
        length = r.range(1, 60) if r.chance(1, 2) else r.range(60, 300 if quick else 1500)
        keymax = r.choice([2, 3, 5, 10, 1000])
        ops = g(r.fork(), cap, length, keymax)
        # a third of the cases at a non-zero key scale (near-ties 2^-60 apart, keys of size 2^940), a sixth on keys of size 2^52
        ks = r.choice(KEY_SCALES) if r.chance(1, 3) else 0
        off = r.choice(KEY_OFFSETS) if r.chance(1, 6) else 0
        if ops:
            batch.append((name, cap, shift_keys(ops, off), ks))
    for name, _ in GENS:
        sub = [(c, o, k) for n, c, o, k in batch if n == name]
        for i in range(0, len(sub), 1000):
            judge(ctx, binary, sub[i:i + 1000], name)
    if not quick:
        ex = list(exhaustive_cases(4, caps=(1, 2, 3))) + list(exhaustive_cases(3, caps=(4, 5)))
        for i in range(0, len(ex), 5000):
            judge(ctx, binary, ex[i:i + 5000], "exhaustive")
        ctx.extra["exhaustive_small"] = {"histories": len(ex), "capacities": "1..3 (len<=4), 4..5 (len<=3)", "keys": [0, 1, 2]}
    large_leg(ctx, binary, 2 if quick else 24)
    dn_sweep(ctx, binary, list(range(1, 2050 if quick else 5000)) + ([] if quick else [2 ** k + d for k in range(13, 21) for d in (-1, 0, 1)]))
    ctx.cov["rule"] = ("model-vs-implementation-vs-specification leg: histories from 4 generators (uniform, guard-exercising, "
                       "Dijkstra-shaped, thin-tree adversarial) over capacities 1..%d and lengths 1..%d (the property text asks for "
                       "capacities up to 10^4 and lengths up to 10^5: that scale is covered by the implementation-vs-specification leg "
                       "only, %d histories at capacity 10^4 / length up to 10^5, and by the theorems, which are unbounded), key "
                       "alphabets 2..1000; a third of the histories hand the real heap keys scaled by 2^e, e in %s (near-ties 2^-60 apart, "
                       "keys of size 2^940), a sixth use keys of size 2^52 (all exact doubles, mapped back to the integer keys of the "
                       "model before comparing); compared on outputs AND structure (parent, rank, mark, key of every stored node, "
                       "num_trees); plus an implementation-guided search (deterministic thin-tree recipes and hill-climbing over "
                       "policies, steered by the structure read from the real heap under ASan) whose best history per capacity is "
                       "compared the same way; non-trivial = contains an insert and an extract_min; distinct by case text"
                       % (64 if quick else 400, 300 if quick else 1500, 2 if quick else 24, KEY_SCALES))
    ctx.assumptions += [
        "keys are non-NaN; Int keys in the model stand for any totally ordered key set (the heap only compares and copies keys); "
        "the real heap is driven with doubles ldexp(K, e) for the integer keys K (order isomorphic, exact), not only with integers",
        "memory safety of the compiled code is observed by ASan/UBSan on the generated histories; the theorem no_oob is about the model's index d < Dn",
        "the degree bound fib(rank+2) <= subtree size and rank = number of children are additionally MEASURED on the real heap for every node after every step of the guided search (evidence: guided_search)",
    ]


def replay_case(ctx, body):
    """python3 check.py replay <file>: the recorded history against the current tree and the model"""
    binary, log = ctx.build_harness("c16_heap.cpp")
    if not binary:
        ctx.broken("harness-build", "harness c16_heap.cpp", "harness does not compile against /repo: " + log[-800:])
        return
    fs = dict(t.split("=", 1) for t in body["case"].split()[1:])
    judge(ctx, binary, [(int(fs["cap"]), fs["ops"].split(","), int(fs.get("ks", "0")))], "replay")
    ctx.cov["rule"] = "replay of one recorded history"
    print("replayed:", body["case"][:200])
    print("evidence/C16.json holds the observation; exit status 1 = the violation reproduces")
