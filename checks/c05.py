"""C05 — MDS and Kernel PCA return the optimal rank-d factor of the centred Gram matrix.
Model: lean/TapkeeVerif/Model/{Center,Mds,Cert}.lean; theorems: Props/C05.lean (+ Proofs/Spectral.lean);
harness: harness/c05_mds.cpp (public API + eigen-observer hook); driver: lean/Driver/C05.lean (exact rational judge)."""
from fractions import Fraction

import vlib
from checks import _spectral as sp

PROPERTY = "C05"
LEAN_MODULES = ["TapkeeVerif.Props.C05", "TapkeeVerif.Props.C05Compose"]
LEAN_EXES = ["model_c05"]
REQUIRED_THEOREMS = [
    "TapkeeVerif.C05.center_eq_JAJ",
    "TapkeeVerif.C05.mdsPre_eq_gram",
    "TapkeeVerif.C05.mds_gram",
    "TapkeeVerif.C05.mds_exact_recovery",
    "TapkeeVerif.C05.mds_exact_recovery_of_hrank",
    "TapkeeVerif.C05.isomap_full_k_eq_mds_partial",
    "TapkeeVerif.C05.isomap_full_k_eq_mds",
    "TapkeeVerif.C05.randomized_exact_on_low_rank",
    "TapkeeVerif.C05.mdsPre_eq_JDJ",
    "TapkeeVerif.C05.kpcaPre_eq_JKJ",
    "TapkeeVerif.C05.mds_kyFan",
    "TapkeeVerif.C05.factor_optimal",
    "TapkeeVerif.C05.certificate_sound_slack",
    "TapkeeVerif.C05.mds_optimal",
    "TapkeeVerif.C05.kpca_optimal",
    "TapkeeVerif.C05.certificate_sound",
    "TapkeeVerif.C05.certificate_sound_robust",
    "TapkeeVerif.MdsCompose.mds_end_to_end",
    "TapkeeVerif.MdsCompose.kpca_end_to_end",
    "TapkeeVerif.MdsCompose.ex_mds_isTopEig",
    "TapkeeVerif.MdsCompose.ex_kpca_isTopEig",
    "TapkeeVerif.MdsCompose.ex_sqrt",
]


# ----------------------------------------------------------------------------- case text
def fullrec(c):
    """the centred matrix handed to the solver is PSD of exact rank <= d: Y·Yᵀ must reproduce it (fine check, also for KPCA)"""
    psd = c["inp"] == "pts" or (c["inp"] == "kern" and c["label"] in ("kern-psd", "kern-wide-mantissa"))
    if not psd or c["N"] > 40:
        return False
    if "_fullrec" not in c:
        c["_fullrec"] = pre_rank(c) <= c["d"]
    return c["_fullrec"]


def case_line(c):
    return ("mds method=%s N=%d d=%d solver=%s in=%s D=%d seed=%d exact=%d lowrank=%d data=%s"
            % (c["method"], c["N"], c["d"], c["solver"], c["inp"], c["D"], c["seed"], 1 if c["exact"] else 0,
               1 if c["lowrank"] else 0, sp.mat_text(c["rows"])) + (" fullrec=1" if fullrec(c) else "") + sp.decoy_fields(c))


def parse_case(line):
    f = sp.fields(line)
    rows = [[Fraction(v) for v in r.split(",")] for r in f["data"].split(";")]
    c = {"method": f["method"], "N": int(f["N"]), "d": int(f["d"]), "solver": f["solver"], "inp": f["in"],
         "D": int(f.get("D", "0")), "seed": int(f.get("seed", "1")), "exact": f.get("exact") == "1",
         "lowrank": f.get("lowrank") == "1", "rows": rows, "label": "replay", "rank": None}
    sp.parse_decoys(f, c)
    return c


def subcase(c, keep):
    """the same case restricted to the samples in `keep`"""
    s = dict(c)
    if c["inp"] == "pts":
        s["rows"] = [c["rows"][i] for i in keep]
    else:
        s["rows"] = [[c["rows"][i][j] for j in keep] for i in keep]
    s["N"] = len(keep)
    s["d"] = max(1, min(c["d"], s["N"] - 1))
    s["exact"] = c["exact"] and sp.is_pow2(s["N"])
    if c.get("sel"):
        s["sel"] = [c["sel"][i] for i in keep]      # the decoys stay where they are
    s.pop("_fullrec", None)
    return s


def zero_pre(c):
    """is the model's matrix for the eigensolver identically zero (all samples coincide / centred input vanishes)?"""
    if c["inp"] == "pts":
        return sp.rows_identical(c["rows"])
    if c["inp"] == "dist":
        return sp.centred_is_zero([[v * v for v in r] for r in c["rows"]])
    return sp.centred_is_zero(c["rows"])


# ----------------------------------------------------------------------------- judging
def judge(ctx, binary, cases):
    """returns one verdict dict per case: {impl, model, bad: [(token, kind)], sig}"""
    lines = [case_line(c) for c in cases]
    impl = ctx.run_impl_cases(binary, lines)
    jl, where = [], []
    ncalls = {}
    verdicts = [None] * len(cases)
    for n, (c, line, io) in enumerate(zip(cases, lines, impl)):
        if io == "throw:eigendecomposition_error" and c["solver"] == "rand" and zero_pre(c):
            # numerically zero matrix + Randomized solver: the documented eigendecomposition_error
            # (behaviour pinned by the repository's own test Interface::EigenDecompositionFailMDS)
            verdicts[n] = {"impl": io, "model": "", "bad": [], "soft": [], "skip": "documented-error:zero-matrix"}
            continue
        if not io.startswith("ok "):
            verdicts[n] = {"impl": io, "model": "", "bad": [("impl", io.split("@")[0])], "soft": []}
            continue
        f = sp.fields(io)
        nan_y, ytxt = sp.nan_columns(f["Y"])
        calls = f.get("calls", "?")
        if sp.has_nonfinite(f["pre"]) or sp.has_nonfinite(f["V"]) or sp.has_nonfinite(f["lam"]):
            verdicts[n] = {"impl": io[:300], "model": "", "bad": [("eig", "nonfinite-solver-output")], "soft": []}
            continue
        ncalls[n] = calls
        jl.append("%s robustmax=%d pre=%s V=%s lam=%s Y=%s nancols=%s" % (
            line, 16 if ctx.tier == "quick" else 32, f["pre"], f["V"], f["lam"], ytxt,
            ",".join(map(str, sorted(nan_y))) or "-"))
        where.append(n)
    if jl:
        rc, out, err = ctx.run_model("model_c05", jl)
        if rc != 0 or len(out) != len(jl):
            ctx.broken("model-driver", "model_c05", "model driver failed: rc=%s %s" % (rc, err[-300:]))
            out = out + ["driver-failed"] * (len(jl) - len(out))
        for n, mo in zip(where, out):
            v = {"impl": impl[n][:400], "model": mo, "bad": [], "soft": []}
            t = sp.fields(mo)
            if not t:
                v["soft"].append(("driver", mo))
            for key in ("eig", "y", "dist"):
                val = t.get(key, "missing")
                if not (val.startswith("ok") or val == "na"):
                    v["bad"].append((key, val.split(":")[0]))
            for key in ("pre", "post"):
                val = t.get(key, "missing")
                if not (val.startswith("exact") or val.startswith("approx") or val.startswith("nan-columns")):
                    v["soft"].append((key, val.split(":")[0].split("@")[0]))
            if ncalls.get(n) != "1":
                # exactly one eigendecomposition per embed() call reaches the hook
                v["soft"].append(("calls", "eigendecompositions-seen=%s" % ncalls.get(n)))
            if t.get("robust", "skipped") not in ("ok", "ok2", "skipped"):
                # the manifest claims extremality is certified soundly as run (N <= 16 / 32): an inconclusive certificate
                # is a broken obligation of the check (not a failing input)
                v["soft"].append(("robust", t.get("robust")))
            v["cmp"] = t.get("cmp", "")
            v["robust"] = t.get("robust", "")
            verdicts[n] = v
    for c, v in zip(cases, verdicts):
        first = (v["bad"] or v["soft"] or [None])[0]
        v["sig"] = None if first is None else "%s:%s:%s=%s" % (c["method"], c["solver"], first[0], first[1])
    return verdicts


def pre_rank(c):
    """exact rank of the model's matrix for the eigensolver"""
    if c["inp"] == "pts":
        return sp.centred_points_rank(c["rows"])
    if c["inp"] == "dist":
        return sp.centred_matrix_rank([[v * v for v in r] for r in c["rows"]])
    return sp.centred_matrix_rank(c["rows"])


def in_quantifier(c):
    """the randomized solver is claimed only on inputs of rank <= target_dimension"""
    return c["solver"] != "rand" or pre_rank(c) <= c["d"]


def shrink(ctx, binary, c, sig, budget=40):
    def failing(keep):
        if len(keep) < (4 if c["method"] == "isomap" else 2):
            return False
        sub = subcase(c, keep)
        if not in_quantifier(sub):
            return False
        v = judge(ctx, binary, [sub])[0]
        return v["sig"] == sig
    keep = vlib.ddmin(list(range(c["N"])), failing, max_tests=budget)
    s = subcase(c, keep)
    # then the smallest d that still fails
    for d in range(1, s["d"]):
        t = dict(s)
        t["d"] = d
        t.pop("_fullrec", None)
        if in_quantifier(t) and judge(ctx, binary, [t])[0]["sig"] == sig:
            return t
    return s


WHAT = {
    "y": "the returned embedding is not the optimal rank-d factor of the centred matrix",
    "eig": "the eigen-pairs used for the embedding are not a top-d eigensystem of the model's centred matrix",
    "dist": "pairwise distances of rank <= d Euclidean input are not reproduced",
    "impl": "the implementation aborted / threw on a valid input",
    "pre": "the matrix handed to the eigensolver differs from the model (mdsPre / kpcaPre)",
    "post": "embedding != V * diag(sqrt(lambda))",
    "driver": "model driver could not judge the case",
    "robust": "the tolerance-proof extremality certificate (Cert.extremalDeflated) did not close",
}


def report(ctx, binary, c, v, do_shrink=True):
    sig = v["sig"]
    key = sig.split(":", 2)[2].split("=")[0]
    if v["bad"]:
        if sig in ctx._c05_seen:
            ctx._c05_seen[sig] += 1
            return
        ctx._c05_seen[sig] = 1
        small = shrink(ctx, binary, c, sig) if do_shrink else c
        vv = judge(ctx, binary, [small])[0]
        ctx.fail(sig, "%s (%s, %s solver, N=%d d=%d, input %s/%s): %s" % (
            WHAT.get(key, key), c["method"], c["solver"], small["N"], small["d"], small["inp"], c["label"],
            " ".join("%s=%s" % b for b in vv["bad"] or v["bad"])),
            case=case_line(small), detail={"impl": vv["impl"], "model": vv["model"], "shrunk_from_N": c["N"],
                                           "stderr": getattr(ctx, "last_abort_stderr", "")[-1500:] if key == "impl" else ""})
    else:
        if sig in ctx._c05_seen:
            ctx._c05_seen[sig] += 1
            return
        ctx._c05_seen[sig] = 1
        ctx.broken("corr:" + sig, "correspondence c05_mds (%s)" % WHAT.get(key, key),
                   "model and implementation disagree below the property level: %s" % (v["soft"],),
                   case=case_line(c), detail={"impl": v["impl"], "model": v["model"]})


def account(ctx, c, v):
    line_key = case_line(c)
    nontrivial = c["N"] >= 3
    ctx.count(line_key, nontrivial)
    ctx.cov["traces_validated_against_impl"] += 1
    ctx.stat("gen:" + c["label"])
    ctx.stat("method:" + c["method"])
    ctx.stat("solver:" + c["solver"])
    ctx.stat("N<=8" if c["N"] <= 8 else "N<=16" if c["N"] <= 16 else "N<=32" if c["N"] <= 32 else "N<=64")
    ctx.stat("d=1" if c["d"] == 1 else "d=N-1" if c["d"] == c["N"] - 1 else "1<d<N-1")
    if c.get("rank") is not None:
        ctx.stat("rank<d" if c["rank"] < c["d"] else "rank=d" if c["rank"] == c["d"] else "rank>d")
    ctx.stat("mode:exact" if c["exact"] else "mode:approx")
    ctx.stat("id-range:shuffled-subset-with-decoys" if c.get("sel") else "id-range:identity")
    cmp_ = v.get("cmp", "")
    if cmp_:
        for part in cmp_.split(","):
            k, n = part.split(":")
            ctx.stat("comparisons:" + k, int(n))
    if v.get("robust"):
        ctx.stat("tolerance-proof-extremality-certificate:" + v["robust"])
    if v.get("skip"):
        ctx.stat("verdict:" + v["skip"])
    elif v["sig"] is None:
        ctx.stat("verdict:ok")
    elif v["bad"]:
        ctx.stat("verdict:oracle-false")
    else:
        ctx.stat("verdict:disagree-below-property")
    if v["sig"] is None and len(ctx.cov["samples"]) < 5 and c["N"] <= 5:
        ctx.sample({"case": line_key, "impl": v["impl"][:300], "model": v["model"]})


# ----------------------------------------------------------------------------- generators
def pick_ds(r, N, rank, quick):
    ds = {1, N - 1}
    if rank is not None and 1 <= rank < N:
        ds.add(rank)
        if rank + 1 < N:
            ds.add(rank + 1)
        if rank >= 2:
            ds.add(rank - 1)
    if N > 2:
        ds.add(r.range(1, N - 1))
    ds = sorted(ds)
    if quick and len(ds) > 4:
        keep = r.shuffle(ds)[:4]
        if rank is not None and rank in ds and rank not in keep:
            keep[0] = rank
        ds = sorted(set(keep))
    return ds


def gen_cases(ctx, quick):
    r = ctx.rng
    pow2 = [2, 4, 8, 16, 32] if quick else [2, 4, 8, 16, 32, 64]
    nmax = 32 if quick else 64
    rounds = 7 if quick else 30
    cases = []

    def add(label, method, solver, inp, rows, N, D, d, exact, rank):
        euclid = inp == "pts" and method != "kpca"
        cases.append({"label": label, "method": method, "solver": solver, "inp": inp, "rows": rows, "N": N, "D": D,
                      "d": d, "seed": r.range(1, 10 ** 6), "exact": exact, "rank": rank,
                      "lowrank": bool(euclid and rank is not None and rank <= d)})
        # about half of the cases: the library is handed a NON-IDENTITY id range (shuffled subset of a larger id space with
        # decoy samples in between); the callbacks are defined on ids, the model sees the selected samples in range order
        if r.chance(1, 2):
            c = cases[-1]
            c["all"], c["sel"] = (sp.with_decoys_points if inp == "pts" else sp.with_decoys_matrix)(r, rows)

    def big_or_small(lo):
        return r.range(lo, 12) if r.chance(3, 4) else r.range(lo, nmax)

    for rnd in range(rounds):
        # 1. exact: random symmetric integer "distances" (not a metric, not Euclidean), N = 2^m
        N = r.choice(pow2 if rnd else [4])
        rows = sp.sym_dist_matrix(r, N, "int")
        for d in pick_ds(r, N, None, quick):
            add("dist-int-pow2", "mds", "dense", "dist", rows, N, 0, d, True, None)
        # 2. approx: random symmetric dyadic distances, any N
        N = big_or_small(2)
        rows = sp.sym_dist_matrix(r, N, "dyadic")
        for d in pick_ds(r, N, None, quick):
            add("dist-dyadic", "mds", "dense", "dist", rows, N, 0, d, sp.is_pow2(N), None)
        # 3. exact: L1 metric of integer points (a metric with integer values): MDS and Isomap(k=N-1) see the same matrix
        N = r.choice([n for n in pow2 if n >= 4])
        pts = sp.rand_int_matrix(r, N, r.range(1, 3), -6, 6)
        rows = sp.l1_metric(pts)
        for d in pick_ds(r, N, None, quick)[:2]:
            add("l1-metric-pow2", "mds", "dense", "dist", rows, N, 0, d, True, None)
            add("l1-metric-pow2", "isomap", "dense", "dist", rows, N, 0, d, True, None)
        # 4. Euclidean points of every rank, dense; randomized on rank <= d; Isomap with k = N-1
        N = big_or_small(4)
        D = r.range(1, 6)
        rank = r.range(1, min(D, N - 1))
        pts = [[Fraction(v) for v in row] for row in sp.low_rank_points(r, N, D, rank)]
        for d in pick_ds(r, N, rank, quick):
            add("euclid-pts", "mds", "dense", "pts", pts, N, D, d, D == 1 and sp.is_pow2(N), rank)
            if rank <= d:
                add("euclid-pts", "mds", "rand", "pts", pts, N, D, d, False, rank)
            if r.chance(1, 2):
                add("euclid-pts", "isomap", "dense", "pts", pts, N, D, d, False, rank)
        # 4b. the same kind of data at other magnitudes (power-of-two scale factors: the data stay dyadic and the whole
        #     computation is exactly scale-equivariant): the code must not carry absolute thresholds.  Every round has one
        #     tiny, one small and one large unit.
        for sc_exp in (r.choice([-40, -30, -24, -20]), r.choice([-14, -12, -10, -9, -8, -7, -6]), r.choice([8, 20, 30])):
            N = r.range(4, 10)
            D = r.range(1, 4)
            rank = r.range(1, min(D, N - 1))
            sc = Fraction(2) ** sc_exp
            pts = [[Fraction(v) * sc for v in row] for row in sp.low_rank_points(r, N, D, rank)]
            for d in sorted({rank, min(rank + 1, N - 1)}):
                add("euclid-pts-scaled", "mds", "dense", "pts", pts, N, D, d, D == 1 and sp.is_pow2(N), rank)
                add("euclid-pts-scaled", "mds", "rand", "pts", pts, N, D, d, False, rank)
                add("euclid-pts-scaled", "kpca", "dense", "pts", pts, N, D, d, sp.is_pow2(N), rank)
                add("euclid-pts-scaled", "kpca", "rand", "pts", pts, N, D, d, False, rank)
            add("euclid-pts-scaled", "isomap", "dense", "pts", pts, N, D, rank, False, rank)
        # 4c. anisotropic exact-rank data (strips / slabs): rank <= d, retained eigenvalues differing by 10^2 … 10^7
        #     (axis extents shrunk by powers of two, data stay exact): both solvers must find ALL retained directions,
        #     judged by the certificate against the model's matrix and by distance reproduction
        N = r.range(6, 14)
        rank = r.range(2, 3)
        D = r.range(rank, 4)
        steps = [r.range(4, 12) for _ in range(rank)]
        if rank == 3:
            steps = [r.range(3, 6), r.range(3, 6)]
        pts = sp.anisotropic_points(r, N, D, rank, steps)
        for d in sorted({rank, min(rank + 1, N - 1)}):
            for solver in ("rand", "dense"):
                if solver == "rand" and sum(steps) > 10:
                    # eigenvalue ratio 4^sum(steps) times the spread ratio of the axes (up to ~10): beyond 4^10 the retained
                    # eigenvalues can differ by more than the 10^7 the Randomized solver resolves (its relative 1e-9
                    # dependence threshold; clean-tree alarm at VERIF_SEED=3 after the stream shifted: ratio 3.2e7, distances
                    # off by 2^-17 relative) - that is the conditioning of the eigenproblem, not a property violation
                    continue
                add("anisotropic-exact-rank", "mds", solver, "pts", pts, N, D, d, False, rank)
                add("anisotropic-exact-rank", "kpca", solver, "pts", pts, N, D, d, False, rank)
        add("anisotropic-exact-rank", "isomap", "dense", "pts", pts, N, D, rank, False, rank)
        # 4d. WIDE anisotropy, Dense solver only (the Randomized solver's own relative 1e-9 dependence threshold ends at ratios
        #     ~10^7): rank-2 strips whose two retained eigenvalues differ by up to 2^-44 (second axis shrunk by 2^-14 … 2^-22;
        #     coordinates stay exact dyadics of <= 27 bits).  Every retained column is judged RELATIVE to its own eigenvalue.
        N = r.range(5, 12)
        D = r.range(2, 3)
        pts = sp.anisotropic_points(r, N, D, 2, [r.choice([14, 18, 20, 21, 22])])
        for d in (2, 3):
            add("anisotropic-wide-dense", "mds", "dense", "pts", pts, N, D, min(d, N - 1), False, 2)
            add("anisotropic-wide-dense", "kpca", "dense", "pts", pts, N, D, min(d, N - 1), False, 2)
        add("anisotropic-wide-dense", "isomap", "dense", "pts", pts, N, D, 2, False, 2)
        # 4e. values with MORE THAN 24 significant bits (a `float` anywhere on the path loses 2^-24 relative, far above the
        #     2^-30 tolerances): precomputed distances a + j·2^-26 (29-30 bits), PSD kernels F·Fᵀ with 20-bit factors (entries
        #     of ~43 bits, exactly representable), points with coordinates up to 2^20 plus 2^-8 fractions (28 bits)
        N = r.choice([4, 8]) if r.chance(1, 2) else r.range(3, 10)
        rows = [[Fraction(0)] * N for _ in range(N)]
        for i in range(N):
            for j in range(i + 1, N):
                rows[i][j] = rows[j][i] = Fraction(r.range(1, 8)) + Fraction(2 * r.range(0, 2 ** 25) + 1, 2 ** 26)
        for d in pick_ds(r, N, None, quick)[:2]:
            add("dist-wide-mantissa", "mds", "dense", "dist", rows, N, 0, d, False, None)
        N = r.choice([4, 8]) if r.chance(1, 2) else r.range(3, 10)
        rk = r.range(1, min(3, N - 1))
        F = [[r.range(-2 ** 19, 2 ** 19) * 2 + 1 for _ in range(rk)] for _ in range(N)]
        rows = [[Fraction(sum(F[i][k] * F[j][k] for k in range(rk))) for j in range(N)] for i in range(N)]
        for d in sorted({rk, min(rk + 1, N - 1)}):
            add("kern-wide-mantissa", "kpca", "dense", "kern", rows, N, 0, d, False, None)
            add("kern-wide-mantissa", "kpca", "rand", "kern", rows, N, 0, d, False, None)
        N = r.range(4, 10)
        D = r.range(1, 3)
        pts = [[Fraction(r.range(-2 ** 20, 2 ** 20)) + Fraction(r.range(0, 255), 256) for _ in range(D)] for _ in range(N)]
        d = min(D, N - 1)
        for solver in ("dense", "rand"):
            add("pts-wide-mantissa", "mds", solver, "pts", pts, N, D, d, False, D)
            add("pts-wide-mantissa", "kpca", solver, "pts", pts, N, D, d, False, D)
        # 5. PSD kernels of every rank (precomputed), N = 2^m exact, other N approx
        N = r.choice(pow2) if r.chance(1, 2) else big_or_small(2)
        rank = r.range(1, N)
        rows = sp.psd_kernel(r, N, rank)
        crank = min(rank, N - 1)           # centring removes at most one dimension
        for d in pick_ds(r, N, crank, quick):
            add("kern-psd", "kpca", "dense", "kern", rows, N, 0, d, sp.is_pow2(N), None)
            if rank <= d:
                add("kern-psd", "kpca", "rand", "kern", rows, N, 0, d, False, None)
        # 6. linear kernel of points
        N = big_or_small(3)
        D = r.range(1, 5)
        rank = r.range(1, min(D, N - 1))
        pts = [[Fraction(v) for v in row] for row in sp.low_rank_points(r, N, D, rank)]
        for d in pick_ds(r, N, rank, quick):
            add("linear-kernel-pts", "kpca", "dense", "pts", pts, N, D, d, sp.is_pow2(N), rank)
            if rank <= d:
                add("linear-kernel-pts", "kpca", "rand", "pts", pts, N, D, d, False, rank)
        # 7. degenerate ranks (seeded change C05-v3 needed this family): RANK 0 — all samples coincide (points), the
        #    all-zero distance matrix, a constant kernel — and two coincident clusters (rank 1 after centring).  The centred
        #    matrix of a rank-0 input is identically zero: the optimal factor is the zero embedding, every distance (0) is
        #    reproduced; the Dense solver must return it (the Randomized solver's documented eigendecomposition_error on a
        #    numerically zero matrix is accepted in judge()).
        N = r.choice([2, 3, 4, 5, 8])
        D = r.range(1, 3)
        p0 = [Fraction(r.range(-9, 9)) for _ in range(D)]
        for d in sorted({1, N - 1}):
            add("rank0-coincident", "mds", "dense", "pts", [list(p0) for _ in range(N)], N, D, d, D == 1 and sp.is_pow2(N), 0)
            add("rank0-coincident", "kpca", "dense", "pts", [list(p0) for _ in range(N)], N, D, d, sp.is_pow2(N), 0)
            add("rank0-coincident", "mds", "dense", "dist", [[Fraction(0)] * N for _ in range(N)], N, 0, d, True, None)
            kc = Fraction(r.range(0, 7))
            add("rank0-coincident", "kpca", "dense", "kern", [[kc] * N for _ in range(N)], N, 0, d, sp.is_pow2(N), None)
        if N >= 3:
            p1 = [p0[0] + r.range(1, 5)] + p0[1:]
            split = r.range(1, N - 1)
            pts = [list(p0) if i < split else list(p1) for i in range(N)]
            for d in sorted({1, 2 if N > 2 else 1}):
                add("two-clusters-rank1", "mds", "dense", "pts", pts, N, D, d, D == 1 and sp.is_pow2(N), 1)
                add("two-clusters-rank1", "kpca", "dense", "pts", pts, N, D, d, sp.is_pow2(N), 1)
                add("two-clusters-rank1", "mds", "rand", "pts", pts, N, D, d, False, 1)
    return cases


# ----------------------------------------------------------------------------- entry points
def build(ctx):
    binary, log = ctx.build_harness("c05_mds.cpp", name=sp.harness_name("c05_mds"), flags=sp.FLAGS, extra=sp.header_flag())
    if not binary:
        ctx.broken("harness-build", "harness c05_mds.cpp", "harness does not compile against /repo: " + log[-800:])
    return binary


def run_all(ctx, binary, cases, do_shrink=True):
    ctx._c05_seen = getattr(ctx, "_c05_seen", {})
    kept = [c for c in cases if in_quantifier(c)]
    if len(kept) != len(cases):
        ctx.stat("skipped:randomized-solver-on-rank>d(outside the property)", len(cases) - len(kept))
    cases = kept
    for i in range(0, len(cases), 40):
        chunk = cases[i:i + 40]
        vs = judge(ctx, binary, chunk)
        for c, v in zip(chunk, vs):
            account(ctx, c, v)
            if v["sig"] is not None:
                report(ctx, binary, c, v, do_shrink)


def correspond(ctx):
    binary = build(ctx)
    if not binary:
        return
    quick = ctx.tier == "quick"
    corpus = [parse_case(l) for l in sp.load_corpus("C05", "mds")]
    for c in corpus:
        c["label"] = "corpus"
    run_all(ctx, binary, corpus, do_shrink=False)
    cases = gen_cases(ctx, quick)
    ctx.log("%d generated cases" % len(cases))
    run_all(ctx, binary, cases)
    ctx.extra["failure_signature_counts"] = dict(ctx._c05_seen)
    ctx.cov["rule"] = ("public-API runs of MDS / Kernel PCA / Isomap(k=N-1) on 12 labelled input families (random symmetric integer and "
                       "dyadic distance matrices, integer L1 metrics, Euclidean integer points of every rank, the same at "
                       "magnitudes 2^-40 .. 2^30, anisotropic exact-rank strips / slabs with retained eigenvalue ratios 10^2 .. 10^7 (both solvers) and down to 2^-44 (Dense), "
                       "values with more than 24 significant bits (distances, kernels, points), PSD kernels of every rank, linear kernels), N <= %d, d in {1, rank, rank+1, N-1, random}, dense solver everywhere and the "
                       "randomized solver on inputs of rank <= d; in about half of the cases the library is handed a shuffled subset of a "
                       "larger id space (decoy samples in between) instead of the identity range; each run = one trace (hook matrix + solver output + embedding) "
                       "judged in exact rational arithmetic by model_c05; non-trivial = N >= 3; distinct by case text"
                       % (32 if quick else 64))
    ctx.assumptions += [
        "the eigen-certificate of the Randomized solver's (V, lambda) uses the relative tolerance 2^-20 instead of 2^-30: its "
        "single Gram-Schmidt pass loses (lambda_max/lambda_min)*2^-53 of orthogonality, up to 2^-28 on the anisotropic "
        "exact-rank families (retained eigenvalue ratios up to 2^25); embedding-level checks stay at 2^-30 / 2^-40",
        "harness compiled at -O0 -g1 (ASan+UBSan on) instead of -O1 -g: the all-methods translation unit needs 2-3 min and "
        "several GB otherwise",
        "eigensolver (Eigen SelfAdjointEigenSolver / randomized range finder) enters the theorems as a contract "
        "(IsTopEig); its outputs are certificate-checked per run in exact rationals: residual, orthonormality <= 2^-30 "
        "relative, extremality by exact LDL^T inertia of B - (lambda_min +- 2^-30 scale) I (sound at zero tolerance: "
        "certificate_sound) and, for N <= 16 (thorough 32), by the deflated PSD certificate that is sound for approximate "
        "eigenvectors (certificate_sound_robust); counts in distribution['tolerance-proof-extremality-certificate:*']",
        "sqrt enters as a contract s >= 0, s^2 = lambda, checked per run to 2^-40 relative",
        "IEEE rounding: exact-mode cases (N a power of two, integer inputs) demand equality of the hook matrix with the "
        "model; all other comparisons are within 2^-30 of the largest magnitude and are counted separately",
    ]


def replay_case(ctx, body):
    binary = build(ctx)
    if not binary:
        return
    c = parse_case(body["case"])
    ctx._c05_seen = {}
    run_all(ctx, binary, [c], do_shrink=False)
