"""C09 — Laplacian Eigenmaps and Diffusion Map solve their stated spectral problems.
Model: lean/TapkeeVerif/Model/Laplacian.lean, Diffusion.lean; theorems: Props/C09.lean;
harness: harness/c09_lap.cpp (compute_laplacian, compute_diffusion_matrix, public API with the eigen-observer hook)."""
import os
from fractions import Fraction

import vlib
from checks import _ll

PROPERTY = "C09"
LEAN_MODULES = ["TapkeeVerif.Props.C09", "TapkeeVerif.Props.C09Compose"]
LEAN_EXES = ["model_c09"]
REQUIRED_THEOREMS = [     # every theorem of the Props module (all MANIFEST-named ones included): deleting one fails the audit
    "TapkeeVerif.C09.heat_argument",
    "TapkeeVerif.C09.heats_eq",
    "TapkeeVerif.C09.laplacian_eq",
    "TapkeeVerif.C09.degrees_eq",
    "TapkeeVerif.C09.laplacianLD_get",
    "TapkeeVerif.C09.degreesD_get",
    "TapkeeVerif.C09.computeLaplacian_eq",
    "TapkeeVerif.C09.laplacian_symm",
    "TapkeeVerif.C09.laplacian_mulVec_one",
    "TapkeeVerif.C09.laplacian_quadratic_form",
    "TapkeeVerif.C09.laplacian_psd",
    "TapkeeVerif.C09.degrees_pos",
    "TapkeeVerif.C09.diffusion_abbreviations",
    "TapkeeVerif.C09.diffusion_is_normalised_operator",
    "TapkeeVerif.C09.diffusion_entry",
    "TapkeeVerif.C09.sqrtQD_get",
    "TapkeeVerif.C09.kernel0_symm",
    "TapkeeVerif.C09.kernel0_upper_only",
    "TapkeeVerif.C09.diffusionMatrix_symm",
    "TapkeeVerif.C09.diffusion_top_eigenpair",
    "TapkeeVerif.C09.diffusion_markov",
    "TapkeeVerif.C09.diffusion_conjugate",
    "TapkeeVerif.C09.npowK_eq_pow",
    "TapkeeVerif.C09.dm_coordinates",
    "TapkeeVerif.C09.dm_timesteps_only_exponent",
    "TapkeeVerif.C09.dm_coordinates_trivial",
    "TapkeeVerif.C09.le_solution",
    "TapkeeVerif.C09.skipped_eigenvector_is_constant",
    "TapkeeVerif.C09.belowCount_sound",
    "TapkeeVerif.C09.belowCount_bounds_eigenvalues",
    "TapkeeVerif.C09.bottom_certified",
    "TapkeeVerif.C09.dm_solution",
    "TapkeeVerif.C09.dm_solution_indices",
    # Props/C09Compose.lean: the stage models composed (C02 search, C03 k doubling, compute_laplacian / compute_diffusion_matrix,
    # solver contract, returned coordinates)
    "TapkeeVerif.LeCompose.laplacian_eigenmaps_end_to_end",
    "TapkeeVerif.LeCompose.diffusion_map_end_to_end",
    "TapkeeVerif.LeCompose.laplacian_kernel_constant",
    "TapkeeVerif.LeCompose.le_zero_eigenvalue_simple",
    "TapkeeVerif.LeCompose.laplacian_eigenmaps_connected_kernel",
]
EXE = "model_c09"

KINDS = ["cloud", "roll", "lattice", "curve", "flat2", "grid"]



def median(xs):
    xs = sorted(xs)
    return xs[len(xs) // 2]


def make_spec(r, op, method, quick, force=None):
    force = force or {}
    kind = force.get("kind") or (r.choice(KINDS) if not (op == "embed" and method == "le" and r.chance(1, 6)) else "twoclusters")
    D = force.get("D") or (r.choice([1, 2, 3, 3, 5]) if kind not in ("roll", "curve") else 3)
    if kind in ("grid", "flat2"):
        D = max(D, 2)
    d = force.get("d") or r.choice([1, 2, 2, 3, 4, 5])
    Nmax = 40 if quick else 64
    lo = max(d + 3, 6)
    N = force.get("N") or r.range(lo, max(lo, r.choice([10, 20, Nmax])))
    unit = _ll.pick_unit(r)
    pts = _ll.gen_points(r, kind, N, D, unit)
    c = r.choice([0, 1, 2])
    k = 3 if c == 0 else (N - 1 if c == 1 else r.range(3, N - 1))
    k = force.get("k") or min(max(k, 3 if op == "embed" else 1), N - 1)
    spec = {
        "unit": unit,
        "op": op, "method": method, "kind": kind, "D": D, "d": d, "pts": pts, "k": k,
        "metric": r.choice(["l2", "l2", "l1"]),
        "decade": r.range(-2, 10),            # width = median^2 * 10^(decade/2): six decades in half-decade steps
        "t": r.range(1, 10),
        "nm": r.choice(["brute", "vptree", "covertree"]),
        "cc": r.choice(["0", "1", "1"]),
        "seed": str(r.below(1 << 30)),
        "lists": "knn" if r.chance(3, 4) else "random",
        "lseed": r.below(1 << 60),
        # half of the cases hand the library a NON-identity range (shuffled subset of the samples the callback knows)
        "dseed": r.below(1 << 60) if r.chance(1, 2) else None,
        # routine level only: an ASYMMETRIC callback (d(i,j) != d(j,i)) exercises the argument order the model transcribes
        "asym": op in ("lap", "dm") and r.chance(1, 4),
    }
    if kind == "twoclusters":
        spec["cc"] = "1"
        spec["k"] = 3
    if force.get("nonmetric"):
        # general (non-metric, indefinite) dissimilarities: the Gaussian kernel of such a matrix is not positive
        # semidefinite, so with d + 1 >= N - 2 the SELECTED eigenvalues of the diffusion operator include negative ones
        spec["nonmetric"] = r.below(1 << 60)
        spec["dseed"] = None
        spec["decade"] = r.range(0, 5)
    return spec


def build_line(spec):
    pts = spec["pts"]
    N = len(pts)
    if spec.get("nonmetric") is not None:
        rr = vlib.SplitMix64(spec["nonmetric"])
        u = Fraction(spec.get("unit", 1))
        Dm = [[Fraction(0)] * N for _ in range(N)]
        for i in range(N):
            for j in range(i + 1, N):
                Dm[i][j] = Dm[j][i] = Fraction(rr.range(1, 96), 16) * u
    else:
        Dm = _ll.distance_matrix(pts, spec["metric"])
    if spec.get("asym"):
        Dm = [[Dm[i][j] if i <= j else _ll.as_double(Dm[i][j] * Fraction(9, 8)) for j in range(N)] for i in range(N)]
    sel = None
    Dall = Dm
    if spec.get("dseed") is not None and not spec.get("asym"):
        dim = len(pts[0])
        allp, sel = _ll.with_decoys(pts, spec["dseed"], lambda rr: [Fraction(rr.range(-1024, 1024), 128) * spec.get("unit", 1) for _ in range(dim)])
        Dall = _ll.distance_matrix(allp, spec["metric"])
    k = min(spec["k"], N - 1)
    if spec["op"] == "dm" or spec["method"] == "dm":
        ref = median([Dm[i][j] for i in range(N) for j in range(i + 1, N)])
    else:
        ref = median([sorted(Dm[i][j] for j in range(N) if j != i)[min(k, N - 1) - 1] for i in range(N)])
    if ref == 0:
        ref = Fraction(1)
    width = _ll.as_double(Fraction(ref) * Fraction(ref) * Fraction(10) ** (Fraction(spec["decade"]) / 2) if spec["decade"] % 2 == 0
                          else Fraction(ref) * Fraction(ref) * Fraction(10) ** ((spec["decade"] - 1) // 2) * Fraction(3162, 1000))
    head = "op=%s N=%d k=%d d=%d t=%d width=%s" % (spec["op"], N, k, spec["d"], spec["t"], _ll.fmt(width))
    if spec["op"] == "embed":
        head += " method=%s nm=%s cc=%s seed=%s" % (spec["method"], spec["nm"], spec["cc"], spec["seed"])
    elif spec["op"] == "lap":
        if spec["lists"] == "knn":
            nb = _ll.knn_from_sq(Dm, k)
        else:
            nb = _ll.random_lists(vlib.SplitMix64(spec["lseed"]), N, k)
        head += " nb=" + _ll.fmt_lists(nb)
    if sel is not None:
        head += " sel=" + ",".join(str(i) for i in sel)
    return head + " dist=" + _ll.fmt_matrix(Dall)


def label(spec):
    return "%s/%s%s" % (spec["op"], spec["method"], "/nonmetric" if spec.get("nonmetric") is not None else "")


def stat_fn(ctx, spec, line, io, v):
    if v.get("negsel", "0") not in ("0", ""):
        ctx.stat("selected-eigenvalue-negative")
        ctx.stat("selected-eigenvalue-negative:t-%s" % ("odd" if int(spec["t"]) % 2 else "even"))


def what_text(spec, text):
    where = {"lap": "routine compute_laplacian", "dm": "routine compute_diffusion_matrix"}.get(spec["op"]) or (
        "public API " + {"le": "Laplacian Eigenmaps", "dm": "Diffusion Map"}.get(spec["method"], spec["method"]))
    return "%s, N=%d k=%d d=%d t=%s metric=%s data=%s width-decade=%s: %s" % (
        where, len(spec["pts"]), min(spec["k"], len(spec["pts"]) - 1), spec["d"], spec.get("t"), spec.get("metric"),
        spec["kind"], spec.get("decade"), text)


def replay_case(ctx, replay):
    """check.py replay <file>: re-run exactly the recorded case on the implementation and the model"""
    ctx.replay = replay
    correspond(ctx)


def correspond(ctx):
    _ll.generic_correspond(ctx, "c09_lap.cpp", EXE, "C09", plan_fn, build_line, label, what_text, min_points=lambda s: s["d"] + 3,
                           stat_fn=stat_fn)
    ctx.cov["rule"] = ("routine level: compute_laplacian on true k-NN and arbitrary neighbour lists, compute_diffusion_matrix, distances "
                       "L2 (rounded) / L1 (exact) over 6 data families, widths over six decades (half-decade steps) relative to the "
                       "median neighbour distance, entrywise vs the model (2^-30), exact sparsity/symmetry/row-sum structure; public API: "
                       "Laplacian Eigenmaps (brute/VP-tree/cover-tree, k in [3,N), d 1..5) certified against the model's (L, D): residual, "
                       "Y^T D Y = I, Y^T D 1 = 0, inertia brackets; Diffusion Map (t 1..10): solver input vs model, top-(d+1) eigensystem, "
                       "trivial pair (1, sqrt q), coordinates recomputed from the observed (V, lambda); non-trivial = N>=6 and a verdict; distinct by case text")
    ctx.assumptions += [
        "exp: the implementation's mirrored values are cross-checked (2^-36 relative) against the driver's own evaluation (Fix.exp: halving + 48 Taylor terms + squaring at 2^-192); sqrt: integer square root at 2^-192",
        "approx-mode stages are evaluated by the same polymorphic model at K := Fix and compared within 2^-30 relative to the largest summand magnitude",
        "inertia counts behind every spectral verdict: the exact rational LDL^T of Model/Cert.lean (Cert.inertiaPos, sound by Proofs/Inertia.inertiaPos_sound; belowCount_sound / belowCount_bounds_eigenvalues in Props) on sigma*B - A rounded to 64 significant bits after a power-of-two congruence scaling",
    ]


def plan_fn(ctx, r, quick):
    plan = []
    reps = 4 if quick else 40
    for _ in range(reps):
        plan += [("lap", "lap")] * 24 + [("dm", "dm")] * 20 + [("embed", "le")] * 30 + [("embed", "dm")] * 30
    specs = [make_spec(r.fork(), op, m, quick) for op, m in plan]
    rr = r.fork()
    # directed: the d = N-1 corner of the generalised solver, d = 5, every neighbour method
    s = make_spec(rr.fork(), "embed", "le", quick, force={"N": 8, "D": 3, "kind": "cloud", "k": 7})
    s["d"] = 7
    specs.append(s)
    s = make_spec(rr.fork(), "embed", "dm", quick, force={"N": 7, "D": 3, "kind": "cloud", "k": 6})
    s["d"] = 6          # Diffusion Map corner d + 1 = N
    specs.append(s)
    for i in range(12 if quick else 120):
        n = rr.range(5, 9)
        s = make_spec(rr.fork(), "embed", "dm", quick, force={"N": n, "D": 2, "kind": "cloud", "k": n - 1, "nonmetric": True})
        s["d"] = n - 1 - (i % 2)        # d + 1 = N or N - 1
        s["t"] = 1 + (i // 2) % 6       # odd and even exponents
        specs.append(s)
    for nm in ("brute", "vptree", "covertree"):
        s = make_spec(rr.fork(), "embed", "le", quick, force={"d": 5, "kind": "cloud", "D": 3})
        s["nm"] = nm
        specs.append(s)
    return specs
