"""C12 — embeddings are equivariant to sample order, rigid motion, scale, and independent of call history.

Implementation side (oracle = the property): metamorphic PAIRS of public-API embed calls
(harness/c12_meta.cpp, one call per line, ASan+UBSan) on exactly representable transformed data:
  perm    random re-orderings of the samples        => rows permuted           (distance matrices of the embeddings,
                                                                                 matrices handed to the eigensolver)
  rigid   signed coordinate permutations, 3-4-5 Givens rotations, dyadic translations
                                                     => all embedded distances unchanged (bit-identical results where the
                                                        callbacks return bit-identical values)
  scale   powers of two                              => MDS, Isomap, linear KPCA, PCA embeddings scale by c
  history 1..6 other embed calls before the observed call in ONE process vs a FRESH process => bit-identical
Model side: lean/TapkeeVerif/Model/Equivariance.lean evaluated at Rat by lean/Driver/C12.lean (model_c12) on both
members of a pair (the relation the theorems of Props/C12.lean state), the observed pre-matrices against the model's,
and all approximate comparisons (exact rational arithmetic on the dyadic outputs, declared tolerance).
Translator: tools/translate_statics.py -> Gen/Statics.lean (every object of static storage duration of include/tapkee,
include/stichwort, src/cli/*.hpp with type / const / run-time-initialiser / returned flags; `no_hidden_state`,
`statics_constant_or_accepted` against the hand-kept `acceptedStatics` of Props/C12.lean).  An object that is neither
a constant nor accepted is reported by name (broken obligation) and chased by parameter histories on the methods that
include its header: same method twice with one numeric keyword changed vs a fresh process."""
import os
import re
import threading
from fractions import Fraction

import vlib

PROPERTY = "C12"
# Props/C12b.lean: corollaries that transport OTHER properties' theorems (C02, C04, Spectral) along a permutation;
# a separate module so that a temporarily broken upstream file cannot break the main module
LEAN_MODULES = ["TapkeeVerif.Props.C12", "TapkeeVerif.Props.C12b", "TapkeeVerif.Props.C12Compose"]
LEAN_EXES = ["model_c12"]
REQUIRED_THEOREMS = [
    "TapkeeVerif.C12.sqDist_perm",
    "TapkeeVerif.C12.center_perm",
    "TapkeeVerif.C12.center_translation",
    "TapkeeVerif.C12.mdsPre_scale",
    "TapkeeVerif.C12.topEig_perm",
    "TapkeeVerif.C12.topEig_scale",
    "TapkeeVerif.C12.fromTriplets_perm",
    "TapkeeVerif.C12.stronglyConnected_perm",
    "TapkeeVerif.C12.connectivityDecision_perm",
    "TapkeeVerif.C12.no_hidden_state",
    "TapkeeVerif.C12.statics_constant_or_accepted",
    "TapkeeVerif.C12.acceptedStatics_all_present",
    "TapkeeVerif.C12.kernelDistance_translation",
    "TapkeeVerif.C12.lleLocalGram_translation",
    "TapkeeVerif.C12.localCenteredGram_translation",
    "TapkeeVerif.C12b.dijkstra_perm",
    "TapkeeVerif.C12b.dijkstra_scale",
    "TapkeeVerif.C12b.isomapPre_perm",
    "TapkeeVerif.C12b.isomapPre_scale",
    "TapkeeVerif.C12b.pcaPre_c06_scale",
    "TapkeeVerif.C12b.pcaPre_c06_translation",
    "TapkeeVerif.C12b.spectralTopEig_perm",
    "TapkeeVerif.C12b.isTopEig_of_spectral",
    # Props/C12Compose.lean: end-to-end equivariance of the composed Isomap model (Props/C04Compose.lean)
    "TapkeeVerif.EquivCompose.isomap_permutation_equivariant",
    "TapkeeVerif.EquivCompose.isomap_scale_equivariant",
    "TapkeeVerif.EquivCompose.laplacian_eigenmaps_scale_invariant",
    "TapkeeVerif.EquivCompose.laplacian_eigenmaps_permutation_equivariant",
]

# the thread count is C15's subject: every run here is single-threaded so that a difference between two runs is
# a difference of inputs / history, never of schedule
ENV = {"OMP_NUM_THREADS": "1"}
# compile the (2 min at -O1 -g) all-methods translation unit at -O0 -g1: 3x faster to build, still ASan+UBSan
FLAGS = [f for f in vlib.HARNESS_FLAGS if f not in ("-O1", "-g")] + ["-O0", "-g1"]

# declared tolerances (all comparisons are made in exact rational arithmetic on the printed dyadics)
EPS_DIST = 22     # embedded squared distances agree within 2^-22 of the largest one
EPS_PRE = 26      # matrices handed to the eigensolver agree within 2^-26 of their largest entry
GAP_MIN = Fraction(1, 2 ** 8)   # relative eigengap below which eigenvectors are not determined well enough

KNN = ["klle", "npe", "kltsa", "lltsa", "hlle", "le", "lpp", "isomap"]
DET = ["klle", "npe", "kltsa", "lltsa", "hlle", "le", "lpp", "dm", "isomap", "mds", "kpca", "pca", "passthru"]
RANDOMISED = ["lmds", "lisomap", "spe", "rp", "fa", "tsne", "ms"]
FEATURE_SPACE = ["pca", "npe", "lpp", "lltsa"]            # eigenproblem lives in feature space (D x D)
CALLBACK_ONLY = ["mds", "isomap", "le", "dm", "kpca", "klle", "kltsa", "hlle"]   # see the data through callbacks only
LOCAL_EIG = ["kltsa", "hlle", "lltsa"]                    # local eigenproblems whose gaps are not observable
SCALE = ["mds", "isomap", "kpca", "pca"]
NO_TRANSLATION = ["npe", "lpp"]
NMS = ["brute", "vptree", "covertree"]
GAUSS = ["le", "lpp", "dm"]


# ----------------------------------------------------------------------------- numbers
def tok2frac(t):
    """exact value of a harness token (`m:e`, integer); None for nan/inf/dblmax"""
    if ":" in t:
        m, e = t.split(":")
        m, e = int(m), int(e)
        return Fraction(m) * (Fraction(2) ** e)
    try:
        return Fraction(int(t))
    except ValueError:
        return None


def finite_tok(t):
    return t not in ("nan", "inf", "-inf", "dblmax", "-dblmax")


# ----------------------------------------------------------------------------- data (integer coordinates, multiples of 25)
def d_generic(r, n, D):
    return [tuple(25 * r.range(-40, 40) for _ in range(D)) for _ in range(n)]


def d_lattice(r, n, D):
    """distinct points of a small integer grid: many equal distances"""
    side = 2
    while side ** D < n:
        side += 1
    cells = []
    def rec(pfx):
        if len(pfx) == D:
            cells.append(tuple(pfx))
            return
        for v in range(side):
            rec(pfx + [v])
    rec([])
    step = 25 * r.choice([1, 2, 4])
    pick = r.shuffle(cells)[:n]
    return [tuple(step * v for v in p) for p in pick]


def d_clusters(r, n, D):
    """a dense cluster, a sparse cluster and far outliers; the outlier(s) come LAST (perm moves them)"""
    nout = 1 if n < 24 else r.range(1, 2)
    na = (n - nout) * 5 // 8
    nb = n - nout - na
    pts = []
    for _ in range(na):
        pts.append(tuple(25 * r.range(-40, 40) for _ in range(D)))
    off = [25 * 600] + [0] * (D - 1)
    for _ in range(nb):
        pts.append(tuple(off[c] + 25 * r.range(-140, 140) for c in range(D)))
    for o in range(nout):
        far = [25 * 4000 * (o + 1) * (1 if r.chance(1, 2) else -1)] + [25 * r.range(3000, 5000) for _ in range(D - 1)]
        pts.append(tuple(far))
    return pts


def d_dups(r, n, D):
    """generic points, several of them repeated"""
    base = d_generic(r, max(2, n // 2), D)
    pts = list(base)
    while len(pts) < n:
        pts.append(r.choice(base[: max(1, len(base) // 3)]))
    return r.shuffle(pts)[:n]


DATA = {"generic": d_generic, "lattice": d_lattice, "clusters": d_clusters, "dups": d_dups}


def sq_dists(X):
    return [[sum((a - b) ** 2 for a, b in zip(p, q)) for q in X] for p in X]


def knn_boundary_tie(X, k, doubling=True, S=None):
    """some sample has its k-th and (k+1)-th nearest other samples at equal distance, for k or (when the connectivity
    check may double it) any doubling of it"""
    n = len(X)
    S = S or sq_dists(X)
    ks = []
    kk = min(k, n - 1)
    while True:
        ks.append(kk)
        if kk >= n - 1 or not doubling:
            break
        kk = min(2 * kk, n - 1)
    for i in range(n):
        row = sorted(S[i][j] for j in range(n) if j != i)
        for kk in ks:
            if kk < len(row) and row[kk - 1] == row[kk]:
                return True
    return False


# ----------------------------------------------------------------------------- transformations (exact on integers)
def apply_perm(X, perm):
    return [X[p] for p in perm]


def givens345(X, a, b, flip):
    out = []
    for p in X:
        p = list(p)
        x, y = p[a], p[b]
        if flip:
            nx, ny = (3 * x + 4 * y), (-4 * x + 3 * y)
        else:
            nx, ny = (3 * x - 4 * y), (4 * x + 3 * y)
        assert nx % 5 == 0 and ny % 5 == 0
        p[a], p[b] = nx // 5, ny // 5
        out.append(tuple(p))
    return out


def signed_perm(X, order, signs):
    return [tuple(signs[c] * p[order[c]] for c in range(len(order))) for p in X]


def gen_rigid(r, X, translate):
    """returns (X', description, translation vector or None)"""
    D = len(X[0])
    desc = []
    Y = X
    ng = 0
    for _ in range(r.range(1, 3)):
        c = r.below(3)
        if c == 0 or D < 2:
            order = r.shuffle(list(range(D)))
            signs = [r.choice([1, -1]) for _ in range(D)]
            Y = signed_perm(Y, order, signs)
            desc.append("sp%s%s" % ("".join(map(str, order)), "".join("+" if s > 0 else "-" for s in signs)))
        elif ng < 2:
            a, b = r.shuffle(list(range(D)))[:2]
            fl = r.chance(1, 2)
            Y = givens345(Y, a, b, fl)
            ng += 1
            desc.append("g%d%d%s" % (a, b, "f" if fl else ""))
    t = None
    if translate:
        t = [25 * r.range(-80, 80) + r.range(0, 24) for _ in range(D)]
        Y = [tuple(p[c] + t[c] for c in range(D)) for p in Y]
        desc.append("t" + "/".join(map(str, t)))
    return Y, "+".join(desc), t


# ----------------------------------------------------------------------------- calls
def pts_text(X):
    return ";".join(",".join(str(v) for v in p) for p in X)


def emb_line(c):
    keys = ["m", "nm", "em", "k", "d", "conn", "w", "ts", "ratio", "metric", "sh", "it", "seed", "log", "obs"]
    return "emb " + " ".join("%s=%s" % (k, c[k]) for k in keys if k in c and c[k] is not None) + " X=" + pts_text(c["X"])


def width_for(X, sh):
    """a power of two near the mean squared distance (exactly representable gaussian width)"""
    S = sq_dists(X)
    n = len(X)
    tot = sum(sum(row) for row in S)
    mean = max(1, tot // max(1, n * (n - 1)))
    e = mean.bit_length() - 2 * sh
    return "1:%d" % e


def k_lower(m, d):
    lo = 3
    # one more neighbour than the local basis has columns: with equality the local projector is the identity and
    # the alignment matrix is the rounding residue of I - I (ill-conditioned by construction)
    if m == "hlle":
        lo = 2 + d + d * (d + 1) // 2
    if m in ("kltsa", "lltsa"):
        lo = max(lo, d + 2)
    return lo


def make_tie_free(r, c):
    """choose num_neighbors (and, if need be, switch the k-doubling connectivity loop off) so that no sample has a tie
    between its k-th and (k+1)-th neighbour distance: the k-NN graph is then determined by the distances alone"""
    X, n = c["X"], len(c["X"])
    S = sq_dists(X)
    lo = k_lower(c["m"], c["d"])
    ks = r.shuffle([k for k in range(lo, min(n - 1, max(lo, 10)) + 1)])
    for conn in ([c["conn"]] if c["conn"] == 0 else [1, 0]):
        for k in ks:
            if not knn_boundary_tie(X, k, doubling=bool(conn), S=S):
                c["k"], c["conn"] = k, conn
                return True
    return False


def gen_call(r, m, X, sh, dclass):
    n, D = len(X), len(X[0])
    c = {"m": m, "em": "dense", "metric": "euclid", "sh": sh, "X": X, "conn": 1}
    d = r.range(1, min(3, D))
    if m == "hlle":
        d = min(d, 2)
    if m in LOCAL_EIG:
        # d = D makes every local tangent space the whole feature space: the alignment matrix annihilates the data and
        # what reaches the eigensolver is the rounding residue of a cancellation (ill-conditioned by construction)
        d = max(1, min(d, D - 1))
    c["d"] = d
    if m in KNN:
        c["nm"] = r.choice(NMS)
        lo = k_lower(m, d)
        c["k"] = min(n - 1, r.range(lo, max(lo, 8)))
        c["conn"] = 1 if (dclass == "clusters" or r.chance(3, 4)) else 0
    if m in GAUSS:
        c["w"] = width_for(X, sh)
    if m == "dm":
        c["ts"] = r.range(1, 3)
    return c


def parse_out(line):
    """-> dict(status, Y rows of tokens, pre rows, rhs rows, ev tokens, sel tokens, skip, gen)"""
    o = {"raw": line}
    if line.startswith("ok "):
        o["status"] = "ok"
        f = dict(t.split("=", 1) for t in line.split()[1:] if "=" in t)
        o["Y"] = [row.split(",") for row in f.get("Y", "-").split(";")] if f.get("Y", "-") != "-" else []
        o["Ytext"] = f.get("Y", "-")
        o["pre"] = f.get("pre", "-")
        o["rhs"] = f.get("rhs", "-")
        o["ev"] = f.get("ev", "-").split(",") if f.get("ev", "-") != "-" else []
        o["skip"] = int(f.get("skip", "0"))
        o["gen"] = f.get("gen", "0") == "1"
    elif line.startswith("exc:") or line.startswith("abort:"):
        o["status"] = line.split()[0]
    else:
        o["status"] = "harness:" + line[:60]
    return o


def rel_gap(m, d, ev):
    """smallest relative gap of the observed spectrum at the cuts that decide which eigenvectors are returned;
    None when no spectrum was observed / it is not finite"""
    if not ev or not all(finite_tok(t) for t in ev):
        return None
    lam = [tok2frac(t) for t in ev]
    n = len(lam)
    scale = max(abs(x) for x in lam)
    if scale == 0:
        return Fraction(0)
    cuts = []
    if m in ("mds", "isomap", "kpca", "pca", "lmds", "lisomap"):
        q = d
        if q < n:
            cuts.append((n - q - 1, n - q))
    elif m == "dm":
        q = d + 1
        if q < n:
            cuts.append((n - q - 1, n - q))
        if n >= 2:
            cuts.append((n - 2, n - 1))
    else:
        s = 0 if m in ("npe", "lpp", "lltsa") else 1
        if s > 0 and s < n:
            cuts.append((s - 1, s))
        if s + d < n:
            cuts.append((s + d - 1, s + d))
    if not cuts:
        return Fraction(1)
    return min((lam[hi] - lam[lo]) / scale for lo, hi in cuts)


# ----------------------------------------------------------------------------- pairs
class Pair:
    """two embed calls related by a transformation"""

    def __init__(self, kind, a, b, dclass, perm=None, cexp=0, desc="", t=None):
        self.kind, self.a, self.b, self.dclass = kind, a, b, dclass
        self.perm = perm            # sample i of b is sample perm[i] of a
        self.cexp = cexp            # b = 2^cexp * a
        self.desc = desc
        self.t = t
        self.eps = None             # (dist, pre) tolerance exponents overriding EPS_DIST / EPS_PRE (large-offset pairs)
        self.bigt = None            # log2 of the translation magnitude of a large-offset pair

    def label(self):
        m = self.a["m"]
        return m + ("/" + self.a["nm"] if "nm" in self.a else "")

    def case_text(self):
        extra = ""
        if self.perm is not None:
            extra = " perm=" + ",".join(map(str, self.perm))
        if self.cexp:
            extra += " scale=2^%d" % self.cexp
        if self.desc:
            extra += " motion=" + self.desc
        return "pair kind=%s%s\n  A: %s\n  B: %s" % (self.kind, extra, emb_line(self.a), emb_line(self.b))

    def exact_expected(self):
        """the callbacks return bit-identical values for both members and the sample order is the same, so a
        method that sees the data through its callbacks only must return bit-identical results"""
        if self.kind != "rigid" or self.a["m"] not in CALLBACK_ONLY:
            return False
        if self.t is not None and self.a["m"] in ("kpca", "klle", "kltsa", "hlle"):
            return False     # kernel values change under translation; centring removes it (up to rounding)
        return True


SCALE_EXPONENTS = [-40, -30, -20, -10, -3, -1, 1, 2, 5, 10, 20, 30]


def gen_pair(r, kind, m, dclass, n, D, quick):
    sh = r.choice([0, 0, 1, 3, 6])
    for attempt in range(8):
        X = DATA[dclass](r, n, D)
        a = gen_call(r, m, X, sh, dclass)
        if not (kind == "perm" and m in KNN):
            break
        # the permutation relation of a k-NN method is only decidable when the k-NN graph is determined by the
        # distances: pick k (or data) without a tie at the list boundary
        if make_tie_free(r, a):
            break
        if attempt >= 3:
            dclass = "generic"
    # both members start from the same std::rand / shuffle-generator state (the VP-tree draws its vantage points
    # from std::rand): a pair relates two calls with the same call history; history effects are section 4's subject
    a["seed"] = 1 + r.below(1000)
    b = dict(a)
    if kind == "perm":
        perm = r.shuffle(list(range(n)))
        if dclass == "clusters" and r.chance(1, 2):
            # move the (last) outlier to the front: sample 0 must not be special
            perm = [n - 1] + [p for p in perm if p != n - 1]
        b["X"] = apply_perm(X, perm)
        return Pair("perm", a, b, dclass, perm=perm)
    if kind == "rigid":
        translate = (m not in NO_TRANSLATION) and r.chance(1, 2)
        Y, desc, t = gen_rigid(r, X, translate)
        b["X"] = Y
        return Pair("rigid", a, b, dclass, desc=desc, t=t)
    if kind == "scale":
        # powers of two from 2^-40 to 2^30 (exact in double): an absolute threshold anywhere in the pipeline shows
        e = r.choice(SCALE_EXPONENTS)
        b["sh"] = sh - e          # coordinates are integer * 2^-sh; a negative sh multiplies
        return Pair("scale", a, b, dclass, cexp=e)
    raise ValueError(kind)


# large-offset translations (offset / spread up to 2^16): translation invariance is claimed for these methods; compared in
# approx mode with a tolerance declared per method and offset = worst deviation measured on the clean tree * 2^10 or
# more (cancellation grows like (offset/spread)^2 for the kernel formulation, like offset/spread for two-pass PCA);
# MDS and Isomap see bit-identical distances (integer coordinates) and must return bit-identical results
BIG_T = {          # method -> {log2 offset: (dist exponent, pre exponent)}
    # measured on the clean tree over 6 seeds (worst log2 relative deviation): pca -47 (dist) / -51 (pre) at 2^20 and 2^30;
    # kpca -33 / -30 at 2^20; lltsa -26 (dist) at 2^20; mds, isomap bit-identical
    "mds": {20: (EPS_DIST, EPS_PRE), 30: (EPS_DIST, EPS_PRE)},
    "isomap": {20: (EPS_DIST, EPS_PRE), 30: (EPS_DIST, EPS_PRE)},
    "pca": {20: (30, 30), 30: (30, 30)},
    "kpca": {20: (22, 20)},
    "lltsa": {20: (16, 16)},
}


def gen_bigt_pair(r, m, e, n, D):
    dclass = r.choice(["generic", "generic", "clusters"])
    X = DATA[dclass](r, n, D)
    a = gen_call(r, m, X, 0, dclass)
    a["seed"] = 1 + r.below(1000)
    b = dict(a)
    t = [(1 if r.chance(1, 2) else -1) * (2 ** e) + r.range(-999, 999) for _ in range(D)]
    b["X"] = [tuple(p[c] + t[c] for c in range(D)) for p in X]
    p = Pair("rigid", a, b, dclass, desc="T2^%d:%s" % (e, "/".join(map(str, t))), t=t)
    p.bigt = e
    p.eps = BIG_T[m][e]
    return p


def judge_pairs(ctx, binary, pairs, shrink=True):
    """runs both members of every pair (one process per batch), decides the relation; returns list of verdict dicts"""
    lines = []
    for p in pairs:
        lines += [emb_line(p.a), emb_line(p.b)]
    outs = ctx.run_impl_cases(binary, lines, env=ENV)
    verdicts = []
    rel_lines, rel_owner = [], []
    for i, p in enumerate(pairs):
        oa, ob = parse_out(outs[2 * i]), parse_out(outs[2 * i + 1])
        v = {"pair": p, "oa": oa, "ob": ob, "fail": None, "trivial": None, "checks": []}
        verdicts.append(v)
        m = p.a["m"]
        sa, sb = oa["status"], ob["status"]
        tie = p.kind == "perm" and m in KNN and knn_boundary_tie(p.a["X"], p.a["k"], doubling=bool(p.a.get("conn", 1)))
        if shrink and p.kind == "perm" and m in KNN:
            ctx.c12_knn_perm[0] += 1
            ctx.c12_knn_perm[1] += 1 if tie else 0
        if tie and not (sa.startswith(("harness", "abort")) or sb.startswith(("harness", "abort"))):
            # equidistant candidates for the last neighbour slot: WHICH of them is listed depends on the sample
            # order, legitimately; the two graphs (hence connectivity, geodesics, weights) need not correspond
            v["trivial"] = "knn-boundary-tie"
            continue
        if m in FEATURE_SPACE and len(set(p.a["X"])) < len(p.a["X"][0]) + 2:
            # fewer distinct samples than feature dimensions + 2: the D x D problem is rank deficient, its extreme
            # eigenvectors may be orthogonal to the data and the embedding is rounding noise around zero
            v["trivial"] = "feature-problem-rank-deficient"
            continue
        if sa != "ok" or sb != "ok":
            if sa.startswith("harness") or sb.startswith("harness"):
                v["fail"] = ("harness", "harness error: %s / %s" % (sa, sb))
            elif sa == sb and not sa.startswith("abort"):
                v["trivial"] = "both-" + sa.split(":")[0] + ":" + sa.split(":", 1)[-1].split("@")[0]
            elif sa.startswith("abort") and sb.startswith("abort"):
                v["trivial"] = "both-abort"
            else:
                v["fail"] = ("status", "one member returns %s, the transformed member returns %s" % (sa, sb))
            continue
        fa = all(finite_tok(t) for row in oa["Y"] for t in row)
        fb = all(finite_tok(t) for row in ob["Y"] for t in row)
        if not fa or not fb:
            if fa != fb:
                v["fail"] = ("nonfinite", "one member returns a finite embedding, the other one NaN/inf entries")
            else:
                v["trivial"] = "both-nonfinite"
            continue
        if p.exact_expected():
            if oa["Ytext"] == ob["Ytext"]:
                v["checks"].append("bits-identical")
            else:
                v["fail"] = ("bits", "the callbacks return bit-identical values for both members but the embeddings differ")
                # still compared approximately below (the detail then tells how far apart they are)
        # --- embedded distances
        ed, ep = p.eps if p.eps else (EPS_DIST, EPS_PRE)
        n = len(oa["Y"])
        perm = p.perm if p.perm is not None else list(range(n))
        ga, gb = rel_gap(m, p.a["d"], oa["ev"]), rel_gap(m, p.b["d"], ob["ev"])
        small_gap = m != "passthru" and (ga is None or gb is None or ga < GAP_MIN or gb < GAP_MIN)
        v["gap"] = (ga, gb)
        local_degenerate = m in LOCAL_EIG and p.dclass != "generic" and not p.exact_expected()
        if tie:
            v["trivial"] = "knn-boundary-tie"
        elif local_degenerate:
            # symmetric neighbourhoods (lattices, duplicates) have repeated local eigenvalues: the local tangent
            # bases are not determined by the data; only bit-identical inputs (exact_expected) are comparable
            v["trivial"] = "local-eigenproblem-degenerate"
        else:
            if small_gap:
                v["trivial"] = "small-eigengap"
            else:
                rel_lines.append("rel kind=dist perm=%s c2=%s eps=%d Ya=%s Yb=%s" % (
                    ",".join(map(str, perm)), c2_text(p.cexp), ed, oa["Ytext"], ob["Ytext"]))
                rel_owner.append((i, "dist"))
            # --- matrices handed to the eigensolver (independent of the eigengap)
            if oa["pre"] != "-" and ob["pre"] != "-":
                if m in FEATURE_SPACE:
                    if p.kind == "perm":
                        rel_lines.append("rel kind=same eps=%d A=%s B=%s" % (ep, oa["pre"], ob["pre"]))
                        rel_owner.append((i, "pre"))
                    elif p.bigt is not None and m == "pca":
                        rel_lines.append("rel kind=same eps=%d A=%s B=%s" % (ep, oa["pre"], ob["pre"]))
                        rel_owner.append((i, "pre"))
                    elif p.kind == "scale" and m == "pca":
                        rel_lines.append("rel kind=same c2=%s eps=%d A=%s B=%s" % (c2_text(p.cexp), EPS_PRE, oa["pre"], ob["pre"]))
                        rel_owner.append((i, "pre"))
                elif p.kind in ("perm", "scale") or (p.kind == "rigid" and m in CALLBACK_ONLY):
                    rel_lines.append("rel kind=mat perm=%s c2=%s eps=%d A=%s B=%s" % (
                        ",".join(map(str, perm)), c2_text(p.cexp), ep, oa["pre"], ob["pre"]))
                    rel_owner.append((i, "pre"))
                    if oa["rhs"] != "-" and ob["rhs"] != "-":
                        rel_lines.append("rel kind=mat perm=%s c2=1 eps=%d A=%s B=%s" % (
                            ",".join(map(str, perm)), EPS_PRE, oa["rhs"], ob["rhs"]))
                        rel_owner.append((i, "pre"))
    if rel_lines:
        rc, ans, err = ctx.run_model("model_c12", rel_lines)
        if rc != 0 or len(ans) != len(rel_lines):
            ctx.broken("model-driver", "model_c12", "model driver failed on rel lines: rc=%s %s" % (rc, err[-300:]))
            return verdicts
        for (i, what), a, l in zip(rel_owner, ans, rel_lines):
            v = verdicts[i]
            if a.startswith("ok exact"):
                v["checks"].append(what + "-exact")
                ctx.stat("cmp-exact:" + what)
            elif a.startswith("ok approx"):
                v["checks"].append(what + "-approx")
                ctx.stat("cmp-approx:" + what)
                mm = re.search(r"lg=(-?\d+)", a)
                if mm and v["pair"].bigt is not None:
                    key = "%s:%s:2^%d" % (what, v["pair"].a["m"], v["pair"].bigt)
                    worst = ctx.extra.setdefault("large_offset_translation_worst_log2_deviation", {})
                    worst[key] = max(worst.get(key, -999), int(mm.group(1)))
                if mm:
                    ctx.stat("approx-dev-log2:%s:%d" % (what, 10 * (int(mm.group(1)) // 10)))
            elif a.startswith("viol"):
                if v["fail"] is None or v["fail"][0] == "bits":
                    v["fail"] = (what, "%s differ beyond 2^-%d of their scale (%s)" % (
                        "embedded distances" if what == "dist" else "matrices handed to the eigensolver",
                        (v["pair"].eps or (EPS_DIST, EPS_PRE))[0 if what == "dist" else 1], a))
            else:
                v["fail"] = ("driver", "driver answered %r" % a)
    return verdicts


def c2_text(cexp):
    e = 2 * cexp
    return "1:%d" % e


WHAT = {
    "perm": "permuting the samples does not permute the rows of the result",
    "rigid": "a rigid motion of the feature vectors changes the distances between embedded points",
    "scale": "scaling the data by a power of two does not scale the embedding by the same factor",
}


def account(ctx, binary, verdicts, label):
    for v in verdicts:
        p = v["pair"]
        key = p.case_text()
        nontrivial = v["fail"] is not None or (v["trivial"] is None and bool(v["checks"]))
        if "pre-exact" in v["checks"] or "pre-approx" in v["checks"]:
            nontrivial = True
        ctx.count(key, nontrivial)
        ctx.cov["traces_validated_against_impl"] += 2
        ctx.stat("pairs:%s:%s" % (p.kind, p.a["m"]))
        ctx.stat("data:" + p.dclass)
        if v["trivial"]:
            ctx.stat("trivial:" + v["trivial"].split("@")[0])
        if v["fail"]:
            symptom, text = v["fail"]
            sig = "%s:%s:%s" % (p.kind, p.label(), symptom)
            ctx.stat("violations-seen:" + sig)
            if sig in ctx.c12_reported:
                continue
            ctx.c12_reported.add(sig)
            small = shrink_pair(ctx, binary, p, symptom)
            if small is not p:
                vs = judge_pairs(ctx, binary, [small], shrink=False)
                if vs and vs[0]["fail"] is not None and vs[0]["fail"][0] == symptom:
                    v = vs[0]
                    text = v["fail"][1]
                else:
                    small = p
            ctx.fail(sig, "%s — %s [%s, %s data, N=%d]: %s" % (
                WHAT[p.kind], p.label(), p.desc or p.kind, p.dclass, len(small.a["X"]), text),
                case=small.case_text(),
                detail={"A": v["oa"]["raw"][:3000], "B": v["ob"]["raw"][:3000], "gap": [str(g) for g in v.get("gap", [])],
                        "original_case": key if len(key) < 6000 else key[:6000]})
        elif nontrivial and len(ctx.cov["samples"]) < 6 and len(key) < 1500:
            ctx.sample({"case": key, "checks": v["checks"], "relative_eigengap": [str(g) for g in v.get("gap", [])]})


def shrink_pair(ctx, binary, p, symptom):
    """remove samples (from both members consistently) while the same symptom persists"""
    n = len(p.a["X"])
    if n <= 5:
        return p
    inv = None
    if p.perm is not None:
        inv = [0] * n
        for new, old in enumerate(p.perm):
            inv[old] = new

    def build(keep):
        keep = sorted(keep)
        a = dict(p.a)
        b = dict(p.b)
        a["X"] = [p.a["X"][i] for i in keep]
        if p.perm is not None:
            newpos = sorted(inv[i] for i in keep)
            b["X"] = [p.b["X"][j] for j in newpos]
            rank = {old: r_ for r_, old in enumerate(keep)}
            perm = [rank[p.perm[j]] for j in newpos]
        else:
            b["X"] = [p.b["X"][i] for i in keep]
            perm = None
        for c in (a, b):
            if "k" in c:
                c["k"] = min(c["k"], len(keep) - 1)
        q = Pair(p.kind, a, b, p.dclass, perm=perm, cexp=p.cexp, desc=p.desc, t=p.t)
        q.eps, q.bigt = p.eps, p.bigt
        return q

    def failing(keep):
        if len(keep) < 5:
            return False
        q = build(keep)
        if "k" in q.a and q.a["k"] < 3:
            return False
        vs = judge_pairs(ctx, binary, [q], shrink=False)
        return bool(vs) and vs[0]["fail"] is not None and vs[0]["fail"][0] == symptom

    keep = vlib.ddmin(list(range(n)), failing, max_tests=60 if ctx.tier == "quick" else 200)
    return build(keep) if failing(keep) else p


# ----------------------------------------------------------------------------- model-level lines
def model_checks(ctx, binary, r, quick):
    """exact-mode cases: the matrix the implementation hands to the eigensolver equals the model's EXACTLY
    (integer data, N a power of two, L1 metric for MDS so that no sqrt is involved), the model stages satisfy the
    relations of the theorems on the concrete data, and implementation pre-matrices of a permuted pair are
    bit-identical up to relabelling"""
    cases = []
    for i in range(24 if quick else 200):
        n = r.choice([4, 8, 16, 32] if quick else [4, 8, 16, 32, 64])
        D = r.range(1, 4)
        dclass = r.choice(["generic", "lattice", "dups", "clusters"])
        X = DATA[dclass](r, n, D)
        stage = "mds" if i % 2 == 0 else "kpca"
        metric = "l1" if stage == "mds" else "euclid"
        c = {"m": stage, "em": "dense", "metric": metric, "sh": 0, "X": X, "d": 1}
        perm = r.shuffle(list(range(n)))
        t = [r.range(-3000, 3000) for _ in range(D)]
        cases.append((stage, metric, c, perm, t, r.choice([-2, -1, 1, 2, 3]), dclass))
    lines = []
    for stage, metric, c, perm, t, e, dclass in cases:
        cb = dict(c)
        cb["X"] = apply_perm(c["X"], perm)
        lines += [emb_line(c), emb_line(cb)]
    outs = ctx.run_impl_cases(binary, lines, env=ENV)
    mlines, owner = [], []
    for i, (stage, metric, c, perm, t, e, dclass) in enumerate(cases):
        oa, ob = parse_out(outs[2 * i]), parse_out(outs[2 * i + 1])
        ctx.cov["traces_validated_against_impl"] += 2
        if oa["status"] != "ok" or ob["status"] != "ok":
            ctx.stat("exact-mode:not-ok")
            continue
        cs = "%d" % (2 ** e) if e >= 0 else "1/%d" % (2 ** -e)
        base = "model stage=%s metric=%s sh=0 X=%s" % (stage, metric, pts_text(c["X"]))
        mlines.append(base + " eps=0 obs=" + oa["pre"])
        owner.append((i, "obs"))
        mlines.append(base + " perm=%s c=%s t=%s" % (",".join(map(str, perm)), cs, ",".join(map(str, t))))
        owner.append((i, "thm"))
        mlines.append("rel kind=mat perm=%s c2=1 eps=0 A=%s B=%s" % (",".join(map(str, perm)), oa["pre"], ob["pre"]))
        owner.append((i, "permexact"))
    rc, ans, err = ctx.run_model("model_c12", mlines)
    if rc != 0 or len(ans) != len(mlines):
        ctx.broken("model-driver", "model_c12", "model driver failed on model lines: rc=%s %s" % (rc, err[-300:]))
        return
    for (i, what), a, l in zip(owner, ans, mlines):
        stage, metric, c, perm, t, e, dclass = cases[i]
        ctx.count(l[:4000], True)
        if what == "obs":
            if "pre=exact" in a:
                ctx.stat("cmp-exact:model-pre")
            else:
                ctx.stat("model-pre-mismatch")
                ctx.broken("corr:pre:" + stage, "correspondence c12_meta (%s pre-matrix vs Model/Equivariance)" % stage,
                           "the matrix handed to the eigensolver by %s differs from the model's on exact-mode data: %s" % (stage, a),
                           case=emb_line(c), detail={"driver": a, "line": l[:3000]})
        elif what == "thm":
            if a.startswith("thm=ok"):
                ctx.stat("model-relation-instances-ok")
            else:
                ctx.broken("model-relation:" + stage, "Props/C12 equivariance of %sPre (instance at Rat)" % stage,
                           "the model stage does not satisfy the stated relation on a concrete input: %s" % a, case=l[:3000])
        else:
            if a.startswith("ok exact"):
                ctx.stat("cmp-exact:pre-perm")
            else:
                sig = "perm:%s:pre-exact" % stage
                if sig not in ctx.c12_reported:
                    ctx.c12_reported.add(sig)
                    cb = dict(c)
                    cb["X"] = apply_perm(c["X"], perm)
                    ctx.fail(sig, "permuting the samples changes the matrix %s hands to the eigensolver beyond relabelling, "
                             "on data where every intermediate value is exact (%s)" % (stage, a),
                             case=Pair("perm", c, cb, dclass, perm=perm).case_text(), detail={"driver": a})


def relabel_graph(g, perm):
    """new sample i is old sample perm[i]"""
    inv = [0] * len(perm)
    for new, old in enumerate(perm):
        inv[old] = new
    return [[inv[w] for w in g[old]] for old in perm]


def conn_line(g):
    return "conn nb=" + ";".join(",".join(map(str, l)) for l in g)


def g_random(r, n, k):
    return [r.shuffle([w for w in range(n) if w != u])[:k] for u in range(n)]


def g_outlier(r, n, k):
    """a strongly connected core plus one vertex that lists core vertices and is listed by nobody"""
    core = list(range(1, n))
    k = max(1, min(k, n - 2))          # uniform list length (is_connected reads neighbors[0].size() entries of every list)
    g = [r.shuffle(core)[:k]]
    for u in core:
        others = [w for w in core if w != u]
        l = [core[(core.index(u) + 1) % len(core)]] + r.shuffle([w for w in others if w != core[(core.index(u) + 1) % len(core)]])
        g.append(l[:k])
    return g


def judge_conn_pairs(ctx, binary, graphs, label):
    """`is_connected` on a graph and on a relabelling of it: the decision must be the same (oracle), and both must
    agree with the model's `connectedCode`"""
    hl = []
    for g, perm in graphs:
        hl += [conn_line(g), conn_line(relabel_graph(g, perm))]
    outs = ctx.run_impl_cases(binary, hl, env=ENV)
    rc, ans, err = ctx.run_model("model_c12", hl)
    if rc != 0 or len(ans) != len(hl):
        ctx.broken("model-driver", "model_c12", "model driver failed on conn lines: rc=%s %s" % (rc, err[-300:]))
        return
    for i, (g, perm) in enumerate(graphs):
        la, lb = hl[2 * i], hl[2 * i + 1]
        oa, ob = outs[2 * i], outs[2 * i + 1]
        ma, mb = ans[2 * i], ans[2 * i + 1]
        ctx.count(la + "|" + lb, True)
        ctx.cov["traces_validated_against_impl"] += 2
        ctx.stat("stage-conn:" + label)
        if oa != ob:
            ctx.stat("stage-conn:order-dependent")
            sig = "perm:is_connected:decision"
            if sig not in ctx.c12_reported:
                ctx.c12_reported.add(sig)
                ctx.fail(sig, "the connectivity decision depends on the sample order: is_connected returns %s for a neighbour "
                         "graph and %s for the same graph with the samples re-ordered (model: %s / %s)" % (oa, ob, ma, mb),
                         case="connpair perm=%s\n  %s" % (",".join(map(str, perm)), la),
                         detail={"relabelled": lb, "impl": [oa, ob], "model": [ma, mb]})
            continue
        for l, o, a in ((la, oa, ma), (lb, ob, mb)):
            if a.split()[0] == o:
                ctx.stat("cmp-exact:stage")
            else:
                ctx.stat("stage-conn:DISAGREE")
                ctx.broken("corr:stage:conn", "correspondence c12_meta (is_connected vs Model/Equivariance.connectedCode)",
                           "is_connected and its transcription in the model disagree: impl %s, model %s" % (o, a), case=l)


def stage_checks(ctx, binary, r, quick):
    """internal stages against the model's transcription: is_connected (+ invariance of its decision under
    relabelling), centerMatrix, sparse_matrix_from_triplets; all exact"""
    graphs = []
    for i in range(80 if quick else 1500):
        n = r.range(3, 9)
        k = r.range(1, min(3, n - 1))
        g = g_outlier(r, n, k) if i % 2 else g_random(r, n, k)
        perm = r.shuffle(list(range(n)))
        if i % 4 == 1:
            perm = [n - 1] + perm_without(perm, n - 1)
        graphs.append((g, perm))
    judge_conn_pairs(ctx, binary, graphs, "generated")
    hl, kinds = [], []
    for _ in range(40 if quick else 400):
        n = r.choice([2, 4, 8, 16])
        A = [[r.range(-500, 500) for _ in range(n)] for _ in range(n)]
        if r.chance(1, 2):
            A = [[A[min(i, j)][max(i, j)] for j in range(n)] for i in range(n)]
        hl.append("center sh=%d A=%s" % (r.choice([0, 2]), ";".join(",".join(map(str, row)) for row in A)))
        kinds.append("center")
    for _ in range(40 if quick else 400):
        n = r.range(2, 7)
        ts = ["%d:%d:%d" % (r.below(n), r.below(n), r.range(-9, 9)) for _ in range(r.range(1, 30))]
        hl.append("trip n=%d T=%s" % (n, ",".join(ts)))
        kinds.append("trip")
    outs = ctx.run_impl_cases(binary, hl, env=ENV)
    ml = [l + " obs=" + o for l, o in zip(hl, outs)]
    rc, ans, err = ctx.run_model("model_c12", ml)
    if rc != 0 or len(ans) != len(ml):
        ctx.broken("model-driver", "model_c12", "model driver failed on stage lines: rc=%s %s" % (rc, err[-300:]))
        return
    for l, o, a, kd in zip(hl, outs, ans, kinds):
        ctx.count(l, True)
        ctx.cov["traces_validated_against_impl"] += 1
        good = a == "exact"
        ctx.stat("stage-%s:%s" % (kd, "agree" if good else "DISAGREE"))
        if good:
            ctx.stat("cmp-exact:stage")
        else:
            ctx.broken("corr:stage:" + kd, "correspondence c12_meta (%s vs Model/Equivariance)" % kd,
                       "internal stage and its transcription in the model disagree: impl %s, model %s" % (o[:200], a[:200]), case=l)


def perm_without(perm, x):
    return [p for p in perm if p != x]


# ----------------------------------------------------------------------------- neighbour search on larger clouds
def knn_line(nm, k, sh, X, us=0):
    return "knn nm=%s k=%d sh=%d us=%d metric=euclid seed=7 X=%s" % (nm, k, sh, us, pts_text(X))


def knn_variants(r, X, sh):
    """(kind, X', sh', perm, e, description) for the relations checked on the neighbour search"""
    n = len(X)
    perm = r.shuffle(list(range(n)))
    e = r.choice([-3, -1, 1, 2, 4])
    nsh = sh - e
    Xs = X
    if nsh < 0:
        Xs = [tuple(v * (2 ** (-nsh)) for v in p) for p in X]
        nsh = 0
    Xr, desc, _ = gen_rigid(r, X, True)
    return [("perm", apply_perm(X, perm), sh, perm, 0, "perm"),
            ("scale", Xs, nsh, None, e, "scale=2^%d" % e),
            ("rigid", Xr, sh, None, 0, desc)]


def knn_prepare(r, count):
    """clouds of the size real data has (N = 100..300) and the harness lines for: the search under test, brute
    force, and the transformed clouds"""
    clouds, lines = [], []
    for _ in range(count):
        n = r.range(100, 300)
        D = r.choice([2, 2, 3])
        k = r.range(5, 20)
        sh = r.choice([0, 2])
        shape = r.choice([0, 0, 0, 0, 1, 2, 3])
        if shape == 3:        # heavy repetition: more coinciding samples than neighbours are asked for
            base = [tuple(25 * r.range(-400, 400) for _ in range(D)) for _ in range(max(4, n // 12))]
            X = [r.choice(base) for _ in range(n)]
        elif shape == 0:
            X = [tuple(25 * r.range(-400, 400) for _ in range(D)) for _ in range(n)]
        elif shape == 1:      # anisotropic box
            X = [tuple(25 * (r.range(-400, 400) // (1 + 3 * c)) for c in range(D)) for _ in range(n)]
        else:                 # a few blobs of different density
            cs = [tuple(25 * r.range(-300, 300) for _ in range(D)) for _ in range(r.range(2, 5))]
            X = []
            for i in range(n):
                c = cs[i % len(cs)]
                rad = 10 * (1 + (i % len(cs)) * 6)
                X.append(tuple(c[t] + 25 * r.range(-rad, rad) for t in range(D)))
        nm = "vptree" if r.chance(1, 10) else "covertree"
        vs = knn_variants(r, X, sh)
        if not r.chance(1, 4):
            vs = vs[:2]       # the rigid-motion variant for every fourth cloud only (time)
        first = len(lines)
        lines.append(knn_line(nm, k, sh, X))
        lines.append(knn_line("brute", k, sh, X))
        for kind, Xv, shv, perm, e, desc in vs:
            lines.append(knn_line(nm, k, shv, Xv, us=e))
        clouds.append((X, sh, k, nm, vs, first))
    return clouds, lines


class KnnJob(threading.Thread):
    """builds the small k-NN harness (standard flags) and runs the prepared lines while the main thread works on
    the embed pairs; judged afterwards in the main thread"""

    def __init__(self, ctx, lines):
        threading.Thread.__init__(self)
        self.ctx, self.lines = ctx, lines
        self.binary, self.log, self.outs, self.error = None, "", None, None

    def run(self):
        try:
            self.binary, self.log = self.ctx.build_harness("c12_knn.cpp")
            if self.binary:
                self.outs = self.ctx.run_impl_cases(self.binary, self.lines, env=ENV)
        except Exception as ex:          # reported by the main thread
            self.error = repr(ex)


def knn_judge(ctx, job, clouds, meta_binary):
    """the sorted neighbour-distance lists are a function of the pairwise distances alone: permuted by a
    permutation, unchanged by a rigid motion, scaled by a scale, identical for the three search methods; compared
    exactly (per-sample hash of the bit patterns of the sorted, exactly un-scaled distances)"""
    if job.error or not job.binary or job.outs is None or len(job.outs) != len(job.lines):
        ctx.broken("harness-build:knn", "harness c12_knn.cpp", "k-NN harness unavailable: %s %s" % (job.error, (job.log or "")[-800:]))
        return
    lines, outs = job.lines, job.outs
    for X, sh, k, nm, vs, first in clouds:
        base, brute = outs[first], outs[first + 1]
        ctx.cov["traces_validated_against_impl"] += 2 + len(vs)
        ctx.stat("knn-clouds:" + nm)
        ctx.count(lines[first], True)
        if base.startswith(("abort", "harness")) or brute.startswith(("abort", "harness")):
            ctx.stat("trivial:knn-abort")
            continue
        n = len(X)
        rows = base.split(";")
        checks = [("method", "brute force", brute.split(";"), None, lines[first + 1])]
        for t, (kind, Xv, shv, perm, e, desc) in enumerate(vs):
            vo = outs[first + 2 + t]
            if vo.startswith(("abort", "harness")):
                ctx.stat("trivial:knn-abort")
                continue
            checks.append((kind, desc, vo.split(";"), perm, lines[first + 2 + t]))
        for kind, desc, vrows, perm, vl in checks:
            ctx.stat("cmp-exact:knn-" + kind)
            bad = None
            if len(vrows) != len(rows):
                bad = 0
            else:
                for i in range(n):
                    if vrows[i] != (rows[perm[i]] if perm is not None else rows[i]):
                        bad = i
                        break
            if bad is None:
                continue
            sig = "%s:knn/%s:neighbour-distances" % (kind, nm)
            ctx.stat("violations-seen:" + sig)
            if sig in ctx.c12_reported:
                continue
            ctx.c12_reported.add(sig)
            what = {"perm": "permuting the samples does not permute the neighbour lists",
                    "scale": "scaling the data by a power of two does not scale the neighbour distances",
                    "rigid": "a rigid motion of the data changes the neighbour distances",
                    "method": "the neighbour distances differ from those of the brute-force search"}[kind]
            # the actual distances of the offending sample, from the verbose mode of the main harness
            full = ctx.run_impl_cases(meta_binary, [lines[first], vl], env=ENV)
            ia = perm[bad] if perm is not None else bad
            da = full[0].split(";")[ia] if len(full) > 0 and ";" in full[0] else "?"
            db = full[1].split(";")[bad] if len(full) > 1 and ";" in full[1] else "?"
            ctx.fail(sig, "the k-NN lists are not a function of the pairwise distances — %s (%s search, N=%d, k=%d, %s): "
                     "sample %d of the first run / %d of the second" % (what, nm, n, k, desc, ia, bad),
                     case="knnpair kind=%s%s\n  A: %s\n  B: %s" % (
                         kind, (" perm=" + ",".join(map(str, perm))) if perm is not None else "", lines[first], vl),
                     detail={"sorted neighbour distances, first run": da[:1500],
                             "sorted neighbour distances, second run (scaled data: multiply by 2^-us)": db[:1500]})


# ----------------------------------------------------------------------------- histories
def gen_any_call(r, quick, observed=False, method=None):
    m = r.choice(DET + RANDOMISED) if not observed else (r.choice(DET) if r.chance(4, 5) else r.choice(["lmds", "lisomap", "spe", "rp"]))
    if method is not None:
        m = method
    n = r.choice([8, 12, 16, 24] if quick else [8, 12, 16, 24, 32, 48])
    if m in ("tsne", "ms"):
        n = r.choice([8, 12])
    D = r.range(2, 4)
    dclass = r.choice(["generic", "generic", "lattice", "clusters", "dups"])
    if m in ("ms", "tsne") and dclass == "dups":
        dclass = "generic"      # manifold sculpting does not terminate on coincident points (not C12's subject)
    X = DATA[dclass](r, n, D)
    sh = r.choice([0, 2, 5])
    c = gen_call(r, m, X, sh, dclass)
    if m in ("lisomap", "spe", "ms", "tsne") and "k" not in c:
        c["nm"] = r.choice(NMS)
        c["k"] = min(n - 1, r.range(3, 6))
    if m in ("lmds", "lisomap"):
        c["ratio"] = r.choice(["1", "1/2", "3/4"])
    if m in RANDOMISED:
        c["it"] = r.range(3, 12)
        c["d"] = min(c["d"], 2)
    if m in RANDOMISED or (not observed and r.chance(1, 6)):
        if observed or r.chance(1, 2):
            c["seed"] = r.range(1, 10 ** 6)
    if not observed:
        if r.chance(1, 5):
            c["em"] = "randomized"
        if r.chance(1, 3):
            c["log"] = r.below(16)
        if r.chance(1, 8):
            c["k"] = r.choice([0, 1, 2, n, n + 3])       # invalid parameters: the call throws
        if r.chance(1, 10):
            c["d"] = r.choice([0, n + 1])
    return c


METHOD_HEADER = {
    "klle": "kernel_locally_linear_embedding", "npe": "neighborhood_preserving_embedding",
    "kltsa": "kernel_local_tangent_space_alignment", "lltsa": "linear_local_tangent_space_alignment",
    "hlle": "hessian_locally_linear_embedding", "le": "laplacian_eigenmaps", "lpp": "locality_preserving_projections",
    "dm": "diffusion_map", "isomap": "isomap", "lisomap": "landmark_isomap", "mds": "multidimensional_scaling",
    "lmds": "landmark_multidimensional_scaling", "spe": "stochastic_proximity_embedding", "kpca": "kernel_pca",
    "pca": "pca", "rp": "random_projection", "fa": "factor_analysis", "tsne": "tsne", "ms": "manifold_sculpting",
}
NUMERIC_KEYWORDS = ["k", "d", "w", "ts", "ratio", "it"]      # num_neighbors, target_dimension, gaussian_kernel_width,
#                                     diffusion_map_timesteps, landmark_ratio, max_iteration (as the harness spells them)


def vary_keyword(c, kw):
    """the same call with ONE numeric keyword set to a different VALID value (None if the call does not carry the
    keyword or has no second valid value)"""
    if kw not in c or c[kw] is None:
        return None
    m, n, D = c["m"], len(c["X"]), len(c["X"][0])
    v = dict(c)
    if kw == "k":
        lo = k_lower(m, c["d"])
        alt = c["k"] + 1 if c["k"] + 1 <= n - 1 else c["k"] - 1
        if alt < lo or alt == c["k"]:
            return None
        v["k"] = alt
    elif kw == "d":
        hi = min(3, D)
        if m == "hlle":
            hi = min(hi, 2)
        if m in LOCAL_EIG:
            hi = max(1, min(hi, D - 1))
        if m in RANDOMISED:
            hi = min(hi, 2)
        alt = c["d"] + 1 if c["d"] + 1 <= hi else c["d"] - 1
        if alt < 1 or (m in KNN and c.get("k", 99) < k_lower(m, alt)):
            return None
        v["d"] = alt
    elif kw == "w":
        mant, e = c["w"].split(":")
        v["w"] = "%s:%d" % (mant, int(e) + 2)
    elif kw == "ts":
        v["ts"] = c["ts"] + 1
    elif kw == "ratio":
        v["ratio"] = "3/4" if c["ratio"] != "3/4" else "1/2"
    elif kw == "it":
        v["it"] = c["it"] + 2
    return v


def owners_of_header(rel):
    """the methods whose implementation header (methods/<m>.hpp) reaches `rel` (a path relative to include/tapkee)
    through #include <tapkee/...>; every method if none does or the header is not tapkee's (a shared utility)"""
    mod = _load_tool("translate_statics")
    scans = mod.scan_repo(vlib.REPO)
    owners = [m for m, h in METHOD_HEADER.items()
              if rel in mod.include_closure(scans, ["methods/%s.hpp" % h])]
    if not owners or len(owners) == len(METHOD_HEADER):
        return sorted(METHOD_HEADER), False
    return owners, True


def parameter_histories(ctx, binary, r, methods, reps, quick, why, cross=False):
    """targeted history search: the observed call of method m is preceded by ONE call of the same method (with
    `cross`: of every method in `methods`) on the same data in which one numeric keyword has a different valid value;
    the observed result must be bit-identical to the same call in a fresh process.  A value of the first call frozen
    in a static (`static const T x = f(parameter)`), a cache keyed too coarsely, a "last parameters" global show here.
    returns the number of history-dependent results found"""
    found = 0
    for m in methods:
        for rep in range(reps):
            rr = r.fork()
            obs = None
            for _ in range(20):
                c = gen_any_call(rr, quick, observed=True, method=m)
                if c["m"] == m:
                    obs = c
                    break
            if obs is None:
                continue
            ol = emb_line(obs)
            rc2, out2, _ = run_history(ctx, binary, [ol])
            ctx.cov["traces_validated_against_impl"] += 1
            if rc2 != 0 or len(out2) != 1:
                ctx.stat("trivial:param-history-observed-abort")
                continue
            for pm in (methods if cross else [m]):
                for kw in NUMERIC_KEYWORDS:
                    pre = vary_keyword(obs, kw)
                    if pre is None:
                        continue
                    if pm != m:
                        # the neighbouring method on the same data with the varied keyword (keys it does not know are ignored)
                        pre = dict(pre, m=pm)
                        if pm in RANDOMISED and "seed" not in pre:
                            pre["seed"] = 4711
                    pl = emb_line(pre)
                    rc1, out1, _ = run_history(ctx, binary, [pl, ol])
                    ctx.cov["traces_validated_against_impl"] += 1
                    key = "param-history %s\n%s\n%s" % (kw, pl, ol)
                    ctx.stat("param-history:%s:%s" % (m, kw))
                    if rc1 != 0 or len(out1) != 2:
                        ctx.count(key, False)
                        ctx.stat("trivial:param-history-predecessor-abort")
                        continue
                    ctx.count(key, out2[0].startswith("ok ") and out1[0].startswith("ok "))
                    if out1[-1] == out2[0]:
                        ctx.stat("cmp-exact:param-history")
                        continue
                    found += 1
                    label = m + ("/" + obs["nm"] if "nm" in obs else "")
                    sig = "history:%s:param-%s" % (label, kw)
                    ctx.stat("violations-seen:" + sig)
                    if sig in ctx.c12_reported or ("history-param:" + m) in ctx.c12_reported:
                        continue
                    ctx.c12_reported.add(sig)
                    ctx.c12_reported.add("history-param:" + m)
                    ctx.fail(sig, "the result of an embed call (%s) depends on the %s an EARLIER %s call in the same process "
                             "was given (%s=%s before, %s=%s now): not bit-identical to the same call in a fresh process%s"
                             % (label, kw, pm, kw, pre[kw], kw, obs[kw], why),
                             case="history\n  " + pl + "\n  observed: " + ol,
                             detail={"after_history": out1[-1][:3000], "fresh": out2[0][:3000], "varied_keyword": kw})
    return found


def run_history(ctx, binary, lines):
    rc, out, err = ctx.run_impl(binary, lines, env=ENV, timeout=60)
    return rc, out, err


def histories(ctx, binary, r, count, quick):
    for h in range(count):
        rr = r.fork()
        pre = [gen_any_call(rr, quick) for _ in range(rr.range(1, 6))]
        obs = gen_any_call(rr, quick, observed=True)
        # two histories in three also contain a SIBLING of the observed call: same method, same data, one numeric
        # keyword at a different valid value (a history whose calls differ from the observed one in method only cannot
        # see a value that an earlier call of the same code froze or cached)
        rs = rr.fork()
        if rs.chance(2, 3):
            kws = [kw for kw in NUMERIC_KEYWORDS if vary_keyword(obs, kw) is not None]
            if kws:
                kw = rs.choice(kws)
                pre.insert(rs.below(len(pre) + 1), vary_keyword(obs, kw))
                ctx.stat("history-sibling:" + kw)
        pl = [emb_line(c) for c in pre]
        ol = emb_line(obs)
        rc1, out1, err1 = run_history(ctx, binary, pl + [ol])
        rc2, out2, err2 = run_history(ctx, binary, [ol])
        ctx.cov["traces_validated_against_impl"] += 2
        label = obs["m"] + ("/" + obs["nm"] if "nm" in obs else "")
        ctx.stat("history-observed:" + obs["m"])
        ctx.stat("history-length:%d" % len(pre))
        key = "history\n" + "\n".join(pl + [ol])
        if rc1 != 0 or len(out1) != len(pl) + 1:
            ctx.count(key, False)
            ctx.stat("trivial:history-predecessor-abort")
            continue
        if rc2 != 0 or len(out2) != 1:
            ctx.count(key, False)
            ctx.stat("trivial:history-observed-abort")
            continue
        ctx.count(key, out2[0].startswith("ok "))
        if out1[-1] == out2[0]:
            ctx.stat("cmp-exact:history")
            continue
        # diagnosis: is the C library's generator state the carrier?  (same call, generator re-seeded right before it)
        cause = "bits"
        if "seed" not in obs:
            seeded = emb_line(dict(obs, seed=12345))
            rc3, out3, _ = run_history(ctx, binary, pl + [seeded])
            rc4, out4, _ = run_history(ctx, binary, [seeded])
            if rc3 == 0 and rc4 == 0 and out3 and out4 and out3[-1] == out4[0]:
                cause = "std-rand-state"
        sig = "history:%s:%s" % (label, cause)
        ctx.stat("violations-seen:" + sig)
        if sig in ctx.c12_reported:
            continue
        ctx.c12_reported.add(sig)

        def failing(sub):
            rc, out, _ = run_history(ctx, binary, sub + [ol])
            return rc == 0 and len(out) == len(sub) + 1 and out[-1] != out2[0]
        small = vlib.ddmin(pl, failing, max_tests=40) if len(pl) > 1 else pl
        why = (" (carrier: the std::rand state the VP-tree draws its vantage points from — re-seeding right before the "
               "observed call removes the difference)" if cause == "std-rand-state" else "")
        ctx.fail(sig, "the result of an embed call (%s) depends on the calls made before it in the same process "
                 "(%d preceding call(s) suffice): not bit-identical to the same call in a fresh process%s" % (label, len(small), why),
                 case="history\n  " + "\n  ".join(small) + "\n  observed: " + ol,
                 detail={"after_history": out1[-1][:3000], "fresh": out2[0][:3000], "cause": cause})


# ----------------------------------------------------------------------------- translator
def _load_tool(name):
    import importlib.util
    spec = importlib.util.spec_from_file_location(name, os.path.join(vlib.ROOT, "tools", name + ".py"))
    mod = importlib.util.module_from_spec(spec)
    spec.loader.exec_module(mod)
    return mod


def read_accepted_statics():
    """the hand-kept list `acceptedStatics` of Props/C12.lean, read from its source text (between the two markers)"""
    src = open(os.path.join(vlib.LEAN_DIR, "TapkeeVerif", "Props", "C12.lean")).read()
    a, b = src.index("-- BEGIN accepted"), src.index("-- END accepted")
    return [tuple(m) for m in re.findall(r'\(\s*"([^"]*)"\s*,\s*"([^"]*)"\s*,\s*"([^"]*)"\s*\)', src[a:b])]


def translate(ctx):
    mod = _load_tool("translate_statics")
    table = mod.generate(vlib.REPO, os.path.join(vlib.LEAN_DIR, "TapkeeVerif", "Gen", "Statics.lean"))
    ctx.extra["statics"] = {"objects": len(table), "mutable": len([o for o in table if o["mutable"]]),
                            "unknown": [o["name"] + "@" + o["file"] for o in table if o["role"] == "unknown"]}
    # the obligation `statics_constant_or_accepted`, mirrored here so that its failure NAMES the object (the Lean build
    # only says that `decide` failed) and the history leg knows which methods to aim at
    classes = {}
    for o in table:
        if o["object"]:
            classes[mod.cls_of(o)] = classes.get(mod.cls_of(o), 0) + 1
    accepted = read_accepted_statics()
    suspects = [o for o in table if o["object"] and mod.cls_of(o) != "constant" and mod.key_of(o) not in accepted]
    suspects += [o for o in table if not mod.accounted(o) and o not in suspects]
    stale = [k for k in accepted if not any(o["object"] and mod.key_of(o) == k for o in table)]
    ctx.extra["statics"].update({"classes": classes, "accepted": len(accepted), "stale_accepted": ["%s:%s:%s" % k for k in stale],
                                 "unaccepted": ["%s@%s:%d [%s]" % (o["name"], o["file"], o["line"], o["scope"]) for o in suspects]})
    ctx.c12_suspects = suspects
    for o in suspects:
        kind = ("`const`, but its initialiser is a run-time value: the FIRST call that reaches the declaration fixes it for the "
                "whole process" if o["rtinit"] and not o["mutable"] else
                "a use of hidden generator state on a deterministic path" if not o["object"] else
                "mutable state that outlives a call" + (" (handed out by its function: a singleton)" if o["returned"] else ""))
        ctx.broken("statics:%s:%s:%s" % (o["file"], o["scope"], o["name"]),
                   "TapkeeVerif.C12.statics_constant_or_accepted / no_hidden_state",
                   "object of static storage duration `%s` (%s:%d, in %s; declared `%s`) is neither a constant nor in the accepted "
                   "list of Props/C12.lean — %s.  An embed result may depend on the calls made before it"
                   % (o["name"], o["file"], o["line"], o["scope"] or "namespace/class scope", o["decl"][:120], kind),
                   detail={"object": {k: o[k] for k in ("name", "file", "line", "scope", "decl", "type", "const", "rtinit",
                                                        "returned", "role", "det")}})
    for k in stale:
        ctx.broken("statics-stale:%s:%s:%s" % k, "TapkeeVerif.C12.acceptedStatics_all_present",
                   "accepted static object %s:%s:%s is no longer in the source: remove it from acceptedStatics (Props/C12.lean)" % k)
    # the scanner's own regression snippets (thread_local, lambda-local statics, class-template members, mutable
    # members of const statics, inline variables, rand() in a deterministic stage; harmless constants)
    wrong = mod.selftest(vlib.REPO)
    ctx.extra["statics"]["selftest"] = {"snippets": len(mod.SELFTEST), "wrong": wrong}
    if wrong:
        ctx.broken("translator-selftest", "tools/translate_statics.py self-test",
                   "the static-object scanner misjudges its regression snippets on this tree: " + "; ".join(wrong)[:1500])
    # Props/C12b states isomapPre_perm / isomapPre_scale over Gen/IsomapSteps.lean, which C04's translator owns:
    # regenerate it here as well so that a C12 run on a changed tree sees the current statement list
    try:
        c04 = _load_tool("translate_c04")
        text = c04.generate(vlib.REPO)
        if vlib.write_if_changed(os.path.join(vlib.LEAN_DIR, "TapkeeVerif", "Gen", "IsomapSteps.lean"), text):
            ctx.log("Gen/IsomapSteps.lean regenerated (C04's translator)")
    except FileNotFoundError:
        ctx.log("tools/translate_c04.py not present: Gen/IsomapSteps.lean left as it is")


# ----------------------------------------------------------------------------- main
def correspond(ctx):
    ctx.c12_reported = set()
    ctx.c12_knn_perm = [0, 0]          # permutation pairs of k-NN methods: generated, trivialised by a boundary tie
    # the neighbour-search stage has its own small harness: built and run in the background
    knn_clouds, knn_lines = knn_prepare(ctx.rng.fork(), 130 if ctx.tier == "quick" else 1500)
    knn_job = KnnJob(ctx, knn_lines)
    knn_job.start()
    binary, log = ctx.build_harness("c12_meta.cpp", flags=FLAGS)
    if not binary:
        ctx.broken("harness-build", "harness c12_meta.cpp", "harness does not compile against the repository: " + log[-1500:])
        knn_job.join()
        return
    ctx.log("harness ready")
    r = ctx.rng
    quick = ctx.tier == "quick"

    # 0. replay of a stored case / corpus
    corpus_dir = os.path.join(vlib.ROOT, "corpus", "C12")
    corpus = []
    if os.path.isdir(corpus_dir):
        for f in sorted(os.listdir(corpus_dir)):
            corpus.append(open(os.path.join(corpus_dir, f)).read())
    rp = getattr(ctx, "replay", None)
    if rp and rp.get("case"):
        corpus.insert(0, rp["case"])
    for text in corpus:
        run_corpus_case(ctx, binary, text)

    # 1. the generated table of static objects as the driver sees it
    rc, ans, _ = ctx.run_model("model_c12", ["statics"])
    ctx.extra.setdefault("statics", {})["driver"] = ans[0] if ans else "?"
    if ans and "unaccounted=0" not in ans[0]:
        ctx.stat("statics-unaccounted")
        ctx.log("static objects not accounted for:", ans[0])

    # 2. internal stages and exact-mode pre-matrices against the model
    stage_checks(ctx, binary, r.fork(), quick)
    model_checks(ctx, binary, r.fork(), quick)
    ctx.log("stage / exact-mode model checks done")

    # 3. metamorphic pairs
    rounds = 9 if quick else 150
    sizes = [8, 16, 16, 32] if quick else [8, 12, 16, 20, 32, 32, 48]
    for rnd in range(rounds):
        pairs = []
        for m in DET:
            for kind in ("perm", "rigid", "scale"):
                if kind == "scale" and m not in SCALE:
                    continue
                reps = 2 if kind == "perm" else 1
                for _ in range(reps):
                    n = r.choice(sizes)
                    D = r.range(2, 4) if m not in LOCAL_EIG + ["klle", "npe"] else r.range(2, 3)
                    if m in LOCAL_EIG and kind == "perm":
                        dclass = "generic"
                    else:
                        dclass = r.choice(["generic", "generic", "lattice", "clusters", "dups"])
                    pairs.append(gen_pair(r.fork(), kind, m, dclass, n, D, quick))
        # translations far larger than the spread of the data
        for m in sorted(BIG_T):
            e = r.choice(sorted(BIG_T[m]))
            pairs.append(gen_bigt_pair(r.fork(), m, e, r.choice([8, 12, 16, 20, 24, 32]), r.range(2, 4) if m != "lltsa" else 3))
        # connectivity decision must not depend on which sample comes first
        for m in ("isomap", "le", "klle"):
            pairs.append(gen_pair(r.fork(), "perm", m, "clusters", r.choice([12, 16, 24]), 2, quick))
        verdicts = judge_pairs(ctx, binary, pairs)
        account(ctx, binary, verdicts, "round%d" % rnd)
        ctx.log("pairs round %d: %d pairs" % (rnd, len(pairs)))

    tot, tied = ctx.c12_knn_perm
    ctx.extra["knn_perm_pairs"] = {"generated": tot, "trivialised_by_boundary_tie": tied, "declared_max_fraction": "1/5"}
    if tot and 5 * tied > tot:
        ctx.broken("coverage:knn-perm-ties", "generator of permutation pairs for k-NN methods",
                   "%d of %d permutation pairs of k-NN methods were trivialised by a k-th/(k+1)-th distance tie (declared "
                   "maximum: 20 %%): the permutation clause is not being judged" % (tied, tot))

    # 3b. the neighbour search alone on larger clouds (ran in the background)
    knn_job.join()
    knn_judge(ctx, knn_job, knn_clouds, binary)
    ctx.log("k-NN relations done")

    # 4. histories
    histories(ctx, binary, r.fork(), 90 if quick else 2500, quick)
    ctx.log("histories done")

    # 4b. parameter histories: the same method called twice with ONE numeric keyword changed, vs a fresh process
    rp_ = r.fork()
    parameter_histories(ctx, binary, rp_.fork(), sorted(METHOD_HEADER), 1 if quick else 12, quick, "")
    # … and, when the static-object obligation broke, aimed at the methods that include the touched header: more
    # repetitions, and every owner also as the PRECEDING method (a static in a shared routine is shared by its callers)
    done = set()
    for o in getattr(ctx, "c12_suspects", []):
        if o["file"] in done:
            continue
        done.add(o["file"])
        owners, narrowed = owners_of_header(o["file"])
        ctx.log("static object %s@%s not accepted: targeted history search on %s" % (o["name"], o["file"], ",".join(owners)))
        nfound = parameter_histories(
            ctx, binary, rp_.fork(), owners, (3 if quick else 12) if narrowed else 1, quick,
            " (search directed by the unaccepted static object `%s` at %s:%d)" % (o["name"], o["file"], o["line"]),
            cross=narrowed and len(owners) <= 4)
        ctx.extra.setdefault("statics", {}).setdefault("targeted_search", []).append(
            {"object": o["name"] + "@" + o["file"], "methods": owners, "history_dependent_results": nfound})
    ctx.log("parameter histories done")

    ctx.cov["rule"] = (
        "metamorphic pairs of public-API embed calls for the 13 deterministic methods x {perm, rigid(+translation), "
        "scale(MDS/Isomap/KPCA/PCA)} x 3 neighbour searches on 4 data classes (generic dyadic, lattice with ties, "
        "unequal clusters + outliers with check_connectivity, duplicates), N in %s; histories of 1..6 preceding calls "
        "(all 20 methods, invalid parameters, logger toggles, randomized solver; two in three with a sibling of the "
        "observed call = same method and data, one numeric keyword changed) vs a fresh process; parameter histories (each "
        "of the 19 parameterised methods after itself with each of k/d/w/ts/ratio/it changed, vs a fresh process); exact-mode "
        "pre-matrix cases (N a power of two, integer data); internal stages is_connected / centerMatrix / "
        "sparse_matrix_from_triplets vs the model.  non-trivial = at least one comparison at distance or pre-matrix "
        "level was decided (not both-exception, not knn-boundary-tie, not relative eigengap < 2^-8); distinct by case text"
        % (sizes,))
    ctx.extra["large_offset_translation_tolerances"] = {m: {"2^%d" % e: "dist 2^-%d, pre 2^-%d" % t for e, t in d.items()}
                                                        for m, d in BIG_T.items()}
    ctx.extra["tolerances"] = {"embedded squared distances": "2^-%d relative to the largest" % EPS_DIST,
                               "pre-matrices": "2^-%d relative to the largest entry (exact in exact-mode cases)" % EPS_PRE,
                               "eigengap threshold": "relative 2^-8 at the cuts selecting the returned eigenvectors"}
    ctx.assumptions += [
        "callbacks are symmetric functions of the two samples (linear kernel, Euclidean / L1 distance are)",
        "OMP_NUM_THREADS=1 for every run (schedule effects are C15's subject)",
        "harness compiled at -O0 -g1 (ASan+UBSan on) instead of -O1 -g: the all-methods translation unit needs 2 min otherwise",
        "repeated eigenvalues at the cut make the returned eigenvectors non-unique: such pairs (relative gap < 2^-8) are "
        "compared at pre-matrix level only and counted as trivial at distance level",
        "a tie between the k-th and (k+1)-th neighbour distance makes the k-NN graph itself order dependent: such "
        "permutation pairs are counted as trivial (rigid-motion pairs keep the sample order and stay bit-identical)",
        "randomised methods are observed only under the seeding hooks (std::srand, verif_shuffle_generator) and only in "
        "the history differential; deterministic methods are never reseeded",
    ]


def run_corpus_case(ctx, binary, text):
    """`pair ...` / `history ...` cases as written by case_text(); re-judged from the stored lines"""
    lines = [l.strip() for l in text.strip().split("\n")]
    if not lines:
        return
    if lines[0].startswith("pair"):
        f = dict(t.split("=", 1) for t in lines[0].split()[1:] if "=" in t)
        la = [l for l in lines if l.startswith("A: ")]
        lb = [l for l in lines if l.startswith("B: ")]
        if not la or not lb:
            return
        a, b = parse_emb(la[0][3:]), parse_emb(lb[0][3:])
        perm = [int(x) for x in f["perm"].split(",")] if "perm" in f else None
        cexp = int(f["scale"].split("^")[1]) if "scale" in f else 0
        desc = f.get("motion", "")
        t = [0] if "+t" in desc or desc.startswith("t") else None
        p = Pair(f.get("kind", "perm"), a, b, "corpus", perm=perm, cexp=cexp, desc=desc, t=t)
        account(ctx, binary, judge_pairs(ctx, binary, [p]), "corpus")
    elif lines[0].startswith("knnpair"):
        f = dict(t.split("=", 1) for t in lines[0].split()[1:] if "=" in t)
        la = [l[3:] for l in lines if l.startswith("A: ")]
        lb = [l[3:] for l in lines if l.startswith("B: ")]
        kb, _ = ctx.build_harness("c12_knn.cpp")
        if la and lb and kb:
            outs = ctx.run_impl_cases(kb, [la[0], lb[0]], env=ENV)
            ctx.count(text, True)
            perm = [int(x) for x in f["perm"].split(",")] if "perm" in f else None
            ra, rb = outs[0].split(";"), outs[1].split(";")
            good = len(ra) == len(rb) and all((ra[perm[i]] if perm else ra[i]) == rb[i] for i in range(len(rb)))
            if not good:
                sig = "%s:knn/corpus:neighbour-distances" % f.get("kind", "perm")
                if sig not in ctx.c12_reported:
                    ctx.c12_reported.add(sig)
                    ctx.fail(sig, "the k-NN lists are not a function of the pairwise distances (stored case)", case=text)
    elif lines[0].startswith("connpair"):
        f = dict(t.split("=", 1) for t in lines[0].split()[1:] if "=" in t)
        perm = [int(x) for x in f["perm"].split(",")]
        for l in lines[1:]:
            if l.startswith("conn "):
                g = [[int(x) for x in row.split(",")] for row in l.split("nb=", 1)[1].split(";")]
                judge_conn_pairs(ctx, binary, [(g, perm)], "corpus")
    elif lines[0].startswith("history"):
        body = [l for l in lines[1:] if l.startswith("emb ")]
        obs = [l[len("observed: "):] for l in lines if l.startswith("observed: ")]
        if not obs:
            return
        rc1, out1, _ = run_history(ctx, binary, body + obs)
        rc2, out2, _ = run_history(ctx, binary, obs)
        ctx.count(text, True)
        if rc1 == 0 and rc2 == 0 and out1 and out2 and out1[-1] != out2[0]:
            m = dict(t.split("=", 1) for t in obs[0].split()[1:] if "=" in t)
            label = m.get("m", "?") + ("/" + m["nm"] if "nm" in m else "")
            sig = "history:%s:bits" % label
            if sig not in ctx.c12_reported:
                ctx.c12_reported.add(sig)
                ctx.fail(sig, "the result of an embed call (%s) depends on the calls made before it in the same process" % label,
                         case=text, detail={"after_history": out1[-1][:3000], "fresh": out2[0][:3000]})


def parse_emb(line):
    f = dict(t.split("=", 1) for t in line.split()[1:] if "=" in t)
    c = {}
    for k, v in f.items():
        if k == "X":
            c["X"] = [tuple(int(x) for x in p.split(",")) for p in v.split(";")]
        elif k in ("k", "d", "conn", "sh", "ts", "it", "seed", "log", "obs"):
            c[k] = int(v)
        else:
            c[k] = v
    return c
