"""C01 — every embed call returns N x target_dimension finite rows or a documented error; never reads or writes
outside its buffers, never hangs, never terminates the process.

Model   : lean/TapkeeVerif/Model/Pipeline.lean (configuration-level: validated / prediction set / finiteness claim)
Gen     : lean/TapkeeVerif/Gen/IndexExprs.lean  (tools/translate_index.py: index / size / loop-bound expressions,
          validation bounds, catch->rethrow map, foreign throws, exit() sites — regenerated from /repo every run)
          lean/TapkeeVerif/Gen/IndexSites.lean  (tools/translate_sites.py: EVERY slice / coefficient / subscript site of
          routines/, methods/, neighbors/, utils/, external/barnes_hut_sne with its coverage class thm / loopvar / sweepOnly)
Theorems: lean/TapkeeVerif/Props/C01.lean (+ Proofs/InBounds.lean); lean/TapkeeVerif/Props/C01Sites.lean (the hand-kept
          list of accepted sweep-only sites, `sweep_only_sites_accepted` by decide, `loopvar_sites_in_range`)
Harness : harness/c01_sweep.cpp (public API, ASan+UBSan+_GLIBCXX_ASSERTIONS; second build with -DTAPKEE_DEBUG)
"""
import concurrent.futures
import hashlib
import importlib.util
import json
import os
import re
import time

import vlib

PROPERTY = "C01"
LEAN_MODULES = ["TapkeeVerif.Props.C01", "TapkeeVerif.Props.C01Sites"]
LEAN_EXES = ["model_c01"]
REQUIRED_THEOREMS = ["TapkeeVerif.C01." + t for t in [
    # §1 model sanity
    "prediction_shape", "prediction_errors_documented", "unvalidated_only_throws", "validated_plain_method_must_succeed",
    "general_position_must_succeed", "predictionOn_errors_documented",
    # §2 index sites (those of SITE_THEOREMS below are required in full OR as refuted + partial)
    "validated_d", "validated_k", "inb_nth_element", "neighbor_lists_have_length_k", "inb_neighbor_lists",
    "inb_neighbor_lists_needs_uniform", "inb_neighbors_outer", "inb_cover_sets", "inb_cover_sets_all", "inb_cover_leaf_and_node_scale",
    "inb_hlle_col_after_fix", "inb_hlle_blocks", "hlle_dp_nonneg", "inb_ltsa_g", "inb_dense_largest_N", "inb_dm",
    "inb_landmark_erase", "inb_triangulate", "inb_dense_smallest_cols", "inb_gen_le_cols", "inb_randomized", "inb_spe_ind1",
    "spe_floor_term", "inb_spe_indices", "inb_tsne_y", "inb_tsne_posf_partial", "inb_tsne_exact_error_partial", "inb_tsne_knn",
    # §3 exception / exit / allocation tables
    "foreign_throws_listed", "no_foreign_throw_reachable", "never_exits_unless_alloc_fails", "alloc_sizes_computed_wide",
    "assert_sites_listed", "largest_strategies_skip_zero",
    # §4 termination
    "kSeq_reaches_complete_graph", "findNeighbors_terminates", "perplexity_bisection_bounded", "iteration_counts_bounded",
    "spe_default_iterations"]] + ["TapkeeVerif.C01Sites." + t for t in [
    # §5 the index-site inventory (Gen/IndexSites.lean) and its pin (Props/C01Sites.lean)
    "covered_sound", "sweep_only_sites_accepted", "every_sweep_only_site_is_accepted", "loop_index_in_range",
    "loopvar_bounds_are_extents", "loopvar_sites_in_range"]]
# sites whose full statement may currently be refuted: either `<name>` or (`<name>_refuted` and `<name>_partial`)
SITE_THEOREMS = ["inb_hlle_col", "inb_hlle_eigvec_rightCols", "inb_ltsa_eigvec_rightCols", "inb_pca_rightCols",
                 "inb_landmark_rightCols", "inb_dense_segment", "inb_gen_segment", "inb_gen_linear_cols", "inb_tsne_posf",
                 "inb_tsne_exact_error", "inb_ms_rows", "front_end_errors_documented"]

JOBS = 16
DOCUMENTED = ["wrong_parameter_error", "missed_parameter_error", "multiple_parameter_error",
              "unsupported_method_error", "not_enough_memory_error", "cancelled_exception",
              "eigendecomposition_error", "no_data_error"]   # re-read from Gen at run time (see documented())

METHODS = ["klle", "kltsa", "dm", "mds", "lmds", "isomap", "lisomap", "npe", "lltsa", "hlle", "le", "lpp", "pca",
           "kpca", "rp", "spe", "passthru", "fa", "tsne", "ms"]
USES_NEIGHBORS = {"klle", "kltsa", "isomap", "lisomap", "npe", "lltsa", "hlle", "le", "lpp", "ms"}   # + spe (local)
USES_EIGEN = {"klle", "kltsa", "dm", "mds", "lmds", "isomap", "lisomap", "npe", "lltsa", "hlle", "le", "lpp", "pca",
              "kpca"}
NMS = ["brute", "vptree", "covertree"]
EMS = ["dense", "randomized"]
DATA = ["generic", "dup", "lattice", "collinear", "constant", "widerange"]
NS = [1, 2, 3, 4, 5, 8, 17, 40]
DS = [1, 2, 3, 10]
D_CLASSES = ["1", "2", "3", "N-2", "N-1"]
K_CLASSES = ["3", "4", "N/5", "N-1"]


def d_of(cls, N):
    return {"1": 1, "2": 2, "3": 3, "N-2": N - 2, "N-1": N - 1, "0": 0, "N": N, "N+1": N + 1}[cls]


def k_of(cls, N):
    return {"3": 3, "4": 4, "N/5": N // 5, "N-1": N - 1, "2": 2, "N": N, "N+3": N + 3}[cls]


# ----------------------------------------------------------------------------- translator hook
def translate(ctx):
    spec = importlib.util.spec_from_file_location("translate_index", os.path.join(vlib.ROOT, "tools", "translate_index.py"))
    mod = importlib.util.module_from_spec(spec)
    spec.loader.exec_module(mod)
    changed = mod.generate(vlib.REPO, os.path.join(vlib.LEAN_DIR, "TapkeeVerif", "Gen", "IndexExprs.lean"))
    ctx.log("Gen/IndexExprs.lean %s" % ("regenerated (changed)" if changed else "unchanged"))
    translate_site_inventory(ctx)


ACCEPTED_ROW = re.compile(r'^\s*\("((?:[^"\\]|\\.)*)", "((?:[^"\\]|\\.)*)", "((?:[^"\\]|\\.)*)", (\d+)\),?', re.M)


def accepted_sites():
    """the hand-kept list `accepted` of Props/C01Sites.lean: {(file, function, normal form): accepted occurrences}"""
    src = open(os.path.join(vlib.LEAN_DIR, "TapkeeVerif", "Props", "C01Sites.lean")).read()
    i = src.index("def accepted : List Key := [")
    j = src.index("\n]", i)
    un = lambda t: t.replace('\\"', '"').replace("\\\\", "\\")
    return {(un(m.group(1)), un(m.group(2)), un(m.group(3))): int(m.group(4)) for m in ACCEPTED_ROW.finditer(src[i:j])}


def translate_site_inventory(ctx):
    """Gen/IndexSites.lean: EVERY slice / coefficient / subscript site of the library with its coverage class
    (tools/translate_sites.py).  The pin itself is a Lean theorem (Props/C01Sites.sweep_only_sites_accepted); the same
    comparison is made here so that the report NAMES the site that is new, or no longer covered by a loop bound."""
    spec = importlib.util.spec_from_file_location("translate_sites", os.path.join(vlib.ROOT, "tools", "translate_sites.py"))
    mod = importlib.util.module_from_spec(spec)
    spec.loader.exec_module(mod)
    changed, files, sites, mg = mod.generate(vlib.REPO, os.path.join(vlib.LEAN_DIR, "TapkeeVerif", "Gen", "IndexSites.lean"))
    ctx.log("Gen/IndexSites.lean %s" % ("regenerated (changed)" if changed else "unchanged"))
    summ = mod.summary(sites)
    summ["files_scanned"] = len(files)
    summ["theorems_referenced"] = sorted({t for s in sites if s.cov == "theorem" for t in s.why.split("|")})
    acc = accepted_sites()
    cur = mod.sweep_only_keys(mg)
    summ["accepted_sweep_only_rows"] = len(acc)
    summ["sweep_only_rows"] = len(cur)
    summ["accepted_rows_no_longer_in_the_source"] = sorted("%s:%s:%s" % k for k in acc if k not in cur)[:40]
    ctx.c01_site_summary = summ
    ctx.c01_site_theorems = summ["theorems_referenced"]
    bad = []
    for k in sorted(cur):
        if cur[k] > acc.get(k, 0):
            ss = [s for s in sites if s.cov == "sweep-only" and (s.rel.replace("tapkee/", ""), s.fn, s.norm) == k]
            raws = sorted({s.raw for s in ss})
            whys = sorted({s.why for s in ss if s.why})
            bad.append(k)
            ctx.broken("sites:unaccepted:%s:%s:%s" % k, "Props/C01Sites.sweep_only_sites_accepted (%s, %s)" % (k[0], k[1]),
                       "index site `%s` in %s of %s (normal form `%s`) occurs %d time(s) in the sweep-only class, %d accepted: "
                       "it is new, or it is no longer covered by its loop bound / theorem [%s] — no in-bounds argument "
                       "is on file for it" % (" | ".join(raws)[:200], k[1], k[0], k[2], cur[k], acc.get(k, 0), "; ".join(whys)[:300]),
                       detail={"site": list(k), "spellings": raws, "why_not_loopvar": whys, "occurrences": cur[k],
                               "accepted": acc.get(k, 0)})
    summ["unaccepted_sweep_only_sites"] = ["%s:%s:%s" % k for k in bad]


# ----------------------------------------------------------------------------- case lines
def case_line(c):
    """c: dict -> canonical case line (same text goes to harness and model)"""
    order = ["id", "method", "nm", "em", "N", "D", "d", "k", "data", "seed", "ratio", "perp", "theta", "width",
             "timesteps", "squish", "maxit", "spe_global", "spe_tol", "spe_upd", "fa_eps", "nullshift", "klleshift",
             "check_conn", "api", "idx", "wrongtype", "dupkw", "limit"]
    return "sweep " + " ".join("%s=%s" % (k, c[k]) for k in order if k in c and c[k] is not None)


def parse_line(line):
    return dict(t.split("=", 1) for t in line.split()[1:])


def base_case(r, method, N, D, dcls, kcls, data, nm=None, em=None):
    c = {"method": method, "N": N, "D": D, "d": d_of(dcls, N), "data": data, "seed": r.range(1, 999)}
    if data == "collinear" and D > 1 and r.chance(1, 3):
        c["data"] = "collinear_last"
    if method in USES_NEIGHBORS or method == "spe":
        c["k"] = k_of(kcls, N)
        c["nm"] = nm or r.choice(NMS)
    if method in USES_EIGEN:
        c["em"] = em or r.choice(EMS)
    if method == "spe":
        c["spe_global"] = r.choice([0, 1])
        c["maxit"] = r.choice([20, 60])
    if method == "tsne":
        # perplexity must lie in [0, (N-1)/3]; default 30 would be rejected for every N of the sweep
        hi = max(N - 1, 0)
        c["perp"] = r.choice(["%d/3" % hi, "%d/6" % hi, "1", "%d/4" % hi]) if hi else "0"
        c["theta"] = r.choice(["0", "1/2", "1/2", "1/4"])
    if method in ("lmds", "lisomap"):
        c["ratio"] = r.choice(["1/2", "1", "3/%d" % max(N, 1), "3/4", "1/4"])
    if method in ("dm", "le", "lpp"):
        # a kernel width commensurate with the data (coordinates in (-4, 4)): with the default width 1 the heat /
        # diffusion matrices are numerically diagonal and finiteness becomes a matter of float underflow
        c["width"] = r.choice(["64", "16", "256"])
    if method == "ms":
        c["maxit"] = r.choice([3, 10])
    if method == "fa":
        c["maxit"] = r.choice([5, 30])
    return c


def boundary_cases(r, n):
    """other keywords on both sides of their bounds, N = 0, d in {0, N, N+1}, k in {2, N, N+3}, both API entry points"""
    out = []
    for _ in range(n):
        N = r.choice([4, 5, 8, 17])
        D = r.choice(DS)
        kind = r.below(16)
        if kind == 0:
            m = r.choice(METHODS)
            c = base_case(r, m, N, D, r.choice(["0", "N", "N+1"]), r.choice(K_CLASSES), r.choice(DATA))
        elif kind == 1:
            m = r.choice(sorted(USES_NEIGHBORS))
            c = base_case(r, m, N, D, "1", r.choice(["2", "N", "N+3"]), r.choice(DATA))
        elif kind == 2:
            m = r.choice(["lmds", "lisomap"])
            c = base_case(r, m, N, D, r.choice(["1", "2", "3"]), "3", r.choice(DATA))
            c["ratio"] = r.choice(["2/%d" % N, "3/%d" % N, "4/%d" % N, "1", "9/8", "0", "-1/2", "1/2"])
        elif kind == 3:
            c = base_case(r, "tsne", N, D, r.choice(["1", "2", "3"]), "3", r.choice(DATA))
            c["perp"] = r.choice(["0", "%d/3" % (N - 1), "%d/3" % N, "-1", "1/2", "1"])
            c["theta"] = r.choice(["0", "-1/2", "1/2", "2"])
        elif kind == 4:
            m = r.choice(["le", "lpp", "dm"])
            c = base_case(r, m, N, D, r.choice(["1", "2"]), "3", r.choice(DATA))
            c["width"] = r.choice(["0", "-1", "1/1024", "1", "1000000"])
            if m == "dm":
                c["timesteps"] = r.choice([0, -1, 1, 3, 50])
        elif kind == 5:
            c = base_case(r, "ms", N, D, r.choice(["1", "2"]), r.choice(["3", "4"]), r.choice(DATA))
            c["squish"] = r.choice(["0", "1", "-1/2", "1/2", "99/100", "3/2"])
        elif kind == 6:
            c = base_case(r, "spe", N, D, r.choice(["1", "2", "3"]), r.choice(["3", "4", "N-1"]), r.choice(DATA))
            c["spe_tol"] = r.choice(["0", "-1", "1/1000000", "1"])
            c["spe_upd"] = r.choice([0, -1, 1, N // 2, N, 10 * N])
        elif kind == 7:
            c = base_case(r, "fa", N, D, r.choice(["1", "2", "3"]), "3", r.choice(DATA))
            c["fa_eps"] = r.choice(["0", "-1", "1/1000000", "1"])
            c["maxit"] = r.choice([0, 1, 5, 40])
        elif kind == 8:
            m = r.choice(METHODS)
            c = base_case(r, m, 0, D, "1", "3", "generic")
        elif kind == 9:
            m = r.choice(sorted(USES_NEIGHBORS))
            c = base_case(r, m, N, D, r.choice(["1", "2"]), r.choice(["3", "4"]), r.choice(DATA))
            c["check_conn"] = r.choice([0, 1])
        elif kind == 10:
            m = r.choice(METHODS)
            c = base_case(r, m, N, D, r.choice(D_CLASSES), r.choice(K_CLASSES), r.choice(DATA))
            c["api"] = "embed"
            c["idx"] = r.choice(["identity", "perm", "sparse", "sparse"])
        elif kind == 12:
            # the regularisers of the local problems (no validation in the code: every value passes)
            m = r.choice(["klle", "npe", "kltsa", "lltsa"])
            c = base_case(r, m, N, D, r.choice(["1", "2"]), r.choice(["3", "4"]), r.choice(DATA))
            c["nullshift"] = r.choice(["0", "-1", "1/1000000000", "1/1000", "1", "1000000"])
            if m in ("klle", "npe"):
                c["klleshift"] = r.choice(["0", "-1", "1/1000", "1/2", "1000000"])
        elif kind == 13:
            # SPE with max_iteration = 0: the default iteration count 2000 + floor(0.04 N^2) (x3 for the local strategy)
            c = base_case(r, "spe", r.choice([4, 5, 8]), D, r.choice(["1", "2"]), "3", r.choice(DATA))
            c["maxit"] = 0
        elif kind == 14:
            # the parameter set itself: a keyword of the wrong C++ type / a keyword given twice
            m = r.choice([x for x in METHODS if x not in ("dm", "le", "lpp")])
            c = base_case(r, m, r.choice([0, N, N]), D, r.choice(["1", "2"]), "3", r.choice(DATA))
            if r.chance(1, 2):
                c["wrongtype"] = 1
            else:
                c["dupkw"] = 1
        elif kind == 15:
            m = r.choice(["dm"])
            c = base_case(r, m, N, D, r.choice(["1", "2"]), "3", "generic")
            c["timesteps"] = r.choice([1, 2, 5])
        else:
            m = r.choice(METHODS)
            c = base_case(r, m, N, D, "1", "3", r.choice(DATA))
            c.pop("d")        # documented defaults: target_dimension = 2, num_neighbors = 5
            c.pop("k", None)
        out.append(c)
    return out


def general_position_cases(r):
    """per-method floor for the finiteness clause: every method x every neighbour search x every solver it supports,
    generic data, target_dimension within the rank of the method's problem, parameters strictly inside their ranges"""
    out = []
    for m in METHODS:
        nms = NMS if (m in USES_NEIGHBORS or m == "spe") else [None]
        ems = EMS if m in USES_EIGEN and m not in ("le", "lpp", "npe", "lltsa") else (["dense"] if m in USES_EIGEN else [None])
        for nm in nms:
            for em in ems:
                for dcls in ("1", "2") * (3 if nm is None else 1):
                    N = r.choice([8, 17, 17, 40])
                    D = r.choice([3, 10])
                    c = {"method": m, "N": N, "D": D, "d": int(dcls), "data": "generic", "seed": r.range(1, 999)}
                    if nm:
                        c["nm"] = nm
                        c["k"] = r.choice([6, 7]) if N > 8 else 6
                    if em:
                        c["em"] = em
                    if m in ("dm", "le", "lpp"):
                        c["width"] = "64"
                    if m == "spe":
                        c["spe_global"] = r.choice([0, 1])
                        c["maxit"] = 40
                    if m == "tsne":
                        c["d"] = 2 if dcls == "2" else r.choice([2, 3])
                        c["perp"] = "2"
                        c["theta"] = "1/2" if c["d"] == 2 and dcls == "2" else "0"
                    if m in ("lmds", "lisomap"):
                        c["ratio"] = r.choice(["1/2", "3/4"])
                    if m == "ms":
                        c["maxit"] = 5
                    if m == "fa":
                        c["maxit"] = 20
                    if m in ("klle", "npe", "kltsa", "lltsa") and r.chance(1, 2):
                        c["nullshift"] = r.choice(["1/1000000000", "1/1000000", "1/1000"])
                        if m in ("klle", "npe"):
                            c["klleshift"] = r.choice(["1/1000", "1/100", "1/10"])
                    if m == "spe" and N <= 17 and r.chance(1, 3):
                        c["maxit"] = 0
                    if r.chance(1, 2):
                        c["api"] = "embed"
                        c["idx"] = r.choice(["perm", "sparse", "sparse"])
                    out.append(c)
    return out


def product_cases(r, tier):
    """thorough: a covering design of the product (A: every method x back-ends x d-class x k-class x data class with
    N, D rotating; B: every method x N x D x data class with the rest sampled; C: boundary cases).
    quick: ~600 draws from the same space."""
    cases = []
    if tier == "quick":
        for i in range(470):
            m = METHODS[i % len(METHODS)]
            # tiny N (every call must throw) keeps a tenth of the sample; generic data a quarter
            N = r.choice([1, 2, 3]) if r.chance(1, 10) else r.choice([4, 5, 8, 8, 17, 17, 40])
            data = r.choice(DATA + ["generic"])
            c = base_case(r, m, N, r.choice(DS), r.choice(D_CLASSES), r.choice(K_CLASSES), data)
            if estimated_seconds(c) > 2.0:      # HLLE with d ~ N = 40 takes half a minute: thorough tier only
                c = base_case(r, m, 17, int(c["D"]), r.choice(D_CLASSES), r.choice(K_CLASSES), data)
            cases.append(c)
        cases += boundary_cases(r, 110)
        cases += general_position_cases(r)
        return cases
    rot = 0
    for m in METHODS:
        nms = NMS if (m in USES_NEIGHBORS or m == "spe") else [None]
        ems = EMS if m in USES_EIGEN else [None]
        kcs = K_CLASSES if (m in USES_NEIGHBORS or m == "spe") else ["3"]
        for nm in nms:
            for em in ems:
                for dc in D_CLASSES:
                    for kc in kcs:
                        for data in DATA:
                            N = [4, 5, 8, 17, 40, 8, 17, 5][rot % 8]
                            D = DS[(rot // 8) % 4]
                            rot += 1
                            cases.append(base_case(r, m, N, D, dc, kc, data, nm, em))
    for m in METHODS:
        for N in NS:
            for D in DS:
                for data in DATA:
                    cases.append(base_case(r, m, N, D, r.choice(D_CLASSES), r.choice(K_CLASSES), data))
    cases += boundary_cases(r, 1000)
    for _ in range(6):
        cases += general_position_cases(r)
    return cases


# the Lean-refuted witnesses (Props/C01.lean, `*_refuted`) replayed on the real code, and the corpus
WITNESSES = [
    # F-HLLE-CT   inb_hlle_col_refuted      d = 3 (k large enough that the other HLLE sites are in range)
    {"method": "hlle", "nm": "brute", "em": "dense", "N": 17, "D": 3, "d": 3, "k": 12, "data": "generic", "seed": 5},
    # F-EIG-SEGMENT inb_dense_segment_refuted  skip = 1, d = N-1
    {"method": "klle", "nm": "brute", "em": "dense", "N": 5, "D": 3, "d": 4, "k": 3, "data": "generic", "seed": 5},
    {"method": "le", "nm": "brute", "em": "dense", "N": 5, "D": 3, "d": 4, "k": 3, "data": "generic", "seed": 5},
    # F-DIM-RANK  inb_pca_rightCols_refuted   d > D
    {"method": "pca", "em": "dense", "N": 8, "D": 3, "d": 5, "data": "generic", "seed": 5},
    {"method": "npe", "nm": "brute", "em": "dense", "N": 8, "D": 2, "d": 5, "k": 3, "data": "generic", "seed": 5},
    {"method": "lpp", "nm": "brute", "em": "dense", "N": 8, "D": 2, "d": 5, "k": 3, "data": "generic", "seed": 5},
    {"method": "lltsa", "nm": "brute", "em": "dense", "N": 8, "D": 2, "d": 2, "k": 3, "data": "generic", "seed": 5},
    # F-LANDMARK-DIM inb_landmark_rightCols_refuted   d > floor(N*ratio)
    {"method": "lmds", "em": "dense", "N": 8, "D": 3, "d": 5, "data": "generic", "seed": 5, "ratio": "1/2"},
    {"method": "lisomap", "nm": "brute", "em": "dense", "N": 8, "D": 3, "d": 5, "k": 3, "data": "generic", "seed": 5,
     "ratio": "1/2"},
    # KLTSA d > k : inb_ltsa_rightCols_refuted
    {"method": "kltsa", "nm": "brute", "em": "dense", "N": 8, "D": 3, "d": 5, "k": 3, "data": "generic", "seed": 5},
    # HLLE 1+d+dp > k / d > k : inb_hlle_eigvec_rightCols_refuted
    {"method": "hlle", "nm": "brute", "em": "dense", "N": 8, "D": 3, "d": 5, "k": 3, "data": "generic", "seed": 5},
    # F-TSNE-DIMS inb_tsne_posf_refuted   no_dims = 1, theta > 0
    {"method": "tsne", "N": 8, "D": 3, "d": 1, "data": "generic", "seed": 5, "perp": "2", "theta": "1/2"},
    # F-COVER-SCALE inb_cover_sets_refuted   dynamic range 1e12
    {"method": "isomap", "nm": "covertree", "em": "dense", "N": 40, "D": 1, "d": 1, "k": 3, "data": "widerange",
     "seed": 5},
    # F-KNN-DUP: >= k+2 coincident samples, consumers index every list with the length of list 0
    {"method": "klle", "nm": "brute", "em": "dense", "N": 8, "D": 2, "d": 1, "k": 3, "data": "dup", "seed": 5},
    # manifold sculpting: d > D
    {"method": "ms", "nm": "brute", "N": 8, "D": 2, "d": 3, "k": 3, "data": "generic", "seed": 5, "maxit": 3},
]


# ----------------------------------------------------------------------------- running the implementation
def strip_templates(s):
    out, depth = [], 0
    for ch in s:
        if ch == "<":
            depth += 1
        elif ch == ">":
            depth = max(0, depth - 1)
        elif depth == 0:
            out.append(ch)
    return "".join(out)


FRAME = re.compile(r"#\d+ 0x[0-9a-f]+ in (.+?) (/\S+?):(\d+)")


def tapkee_site(stderr, outermost_routine=False):
    """first stack frame inside the library: `file:function` (templates and arguments stripped).
    outermost_routine: the LAST frame below methods/*.hpp instead (for a timeout the innermost frame is wherever the
    timer happened to fire inside the loop; the routine that contains the loop is stable)"""
    frames = list(FRAME.finditer(stderr))
    if outermost_routine:
        inner = [fm for fm in frames if "/include/tapkee/" in fm.group(2) and "/include/tapkee/methods" not in fm.group(2)
                 and not fm.group(2).endswith(("/embed.hpp", "/chain_interface.hpp"))]
        frames = inner[-1:] if inner else frames
    for fm in frames:
        path = fm.group(2)
        if "/include/tapkee/" in path or "/include/stichwort/" in path:
            fn = strip_templates(re.sub(r"\[with .*", "", fm.group(1)))
            fn = re.sub(r"\(.*", "", fn).strip()
            fn = fn.split(" ")[-1].split("::")[-1] or "?"
            if fn.startswith("_omp_fn") or fn.startswith("._omp_fn"):
                fn = "omp"
            fn = re.sub(r"\._omp_fn.*| \[clone.*", "", fn)
            return "%s:%s" % (os.path.basename(path), fn)
    return ""


def abort_summary(rc, stderr):
    """canonical observation for a case that ended the process without an answer"""
    if "VERIF-TIMEOUT" in stderr or rc == -999:
        site = tapkee_site(stderr, outermost_routine=True)
        return "timeout" + (("@" + site) if site else "")
    site = tapkee_site(stderr)
    at = ("@" + site) if site else ""
    m = re.search(r"ERROR: AddressSanitizer: ([\w-]+)", stderr)
    if m:
        return "abort:asan:" + m.group(1) + at
    m = re.search(r"runtime error: ([^\n]+)", stderr)
    if m:
        return "abort:ubsan:" + re.sub(r"[^A-Za-z]+", "-", re.sub(r"0x[0-9a-f]+|\d+", "", m.group(1)))[:48].strip("-") + at
    m = re.search(r"terminate called after throwing an instance of '([^']+)'", stderr)
    if m:
        return "abort:terminate:" + m.group(1).replace(" ", "_") + at
    m = re.search(r"([\w./+-]+):(\d+): ([^\n]*?): Assertion [`']([^\n]*?)' failed", stderr)
    if m:
        fn = strip_templates(re.sub(r"\[with .*", "", m.group(3)))
        fn = re.sub(r"\(.*", "", fn).strip().split(" ")[-1].split("::")[-1]
        return "abort:assert:%s:%s%s" % (os.path.basename(m.group(1)), fn, at)
    if "Assertion" in stderr:
        return "abort:assert" + at
    if "VERIF-ABORT" in stderr:
        return "abort:abort()" + at
    return "abort:crash:rc=%s%s" % (rc, at)


def run_chunk(ctx, binary, lines):
    """like Ctx.run_impl_cases, but keeps the stderr of every abort: returns [(observation, stderr_tail)]"""
    outs = []
    todo = list(lines)
    env = {"OMP_NUM_THREADS": "2",
           "ASAN_OPTIONS": "detect_leaks=0:abort_on_error=0:exitcode=97:allocator_may_return_null=0:handle_abort=0",
           "UBSAN_OPTIONS": "print_stacktrace=1:exitcode=97"}
    while todo:
        limit = sum(int(parse_line(l).get("limit", 20)) for l in todo) + 60
        rc, out, err = ctx.run_impl(binary, todo, env=env, timeout=limit)
        if rc == 0 and len(out) == len(todo):
            outs += [(o, "") for o in out]
            break
        n = min(len(out), len(todo))
        outs += [(o, "") for o in out[:n]]
        if n == len(todo):
            break
        # stderr of the failing case = everything after its `case ...` marker
        marker = err.rfind("\ncase sweep ")
        tail = err[marker + 1:] if marker >= 0 else err
        outs.append((abort_summary(rc, tail), tail[-6000:]))
        todo = todo[n + 1:]
    return outs


def run_parallel(ctx, binary, lines, jobs=JOBS):
    """cases are dealt round-robin to `jobs` processes; each case is isolated (process restart after an abort)"""
    if not lines:
        return []
    jobs = max(1, min(jobs, len(lines)))
    chunks = [lines[i::jobs] for i in range(jobs)]
    with concurrent.futures.ThreadPoolExecutor(jobs) as ex:
        res = list(ex.map(lambda ch: run_chunk(ctx, binary, ch), chunks))
    out = [None] * len(lines)
    for j, rs in enumerate(res):
        for i, rr in enumerate(rs):
            out[j + i * jobs] = rr
    return out


# ----------------------------------------------------------------------------- oracle
def documented(ctx):
    return ctx.c01_documented


def oracle(ctx, c, obs, pred):
    """the property on one implementation observation.  Returns (ok, signature, what)"""
    N, D = int(c["N"]), int(c["D"])
    d = int(c.get("d", 2))
    if obs.startswith("ok "):
        t = obs.split()
        rows, cols = int(t[1]), int(t[2])
        fin = t[3] == "finite=1"
        want_cols = D if c["method"] == "passthru" else d
        if rows != N or cols != want_cols:
            return False, "wrong-shape:%s" % c["method"], "returned %dx%d instead of %dx%d" % (rows, cols, N, want_cols)
        if c["method"] == "passthru" and "same=0" in t:
            return False, "passthru-changed", "PassThru did not return the features unchanged"
        if pred.get("finite") == "1" and not fin:
            return False, "nonfinite:%s" % c["method"], "non-finite entries although the configuration is in general position"
        return True, None, None
    if obs.startswith("throw "):
        cls = obs.split()[1]
        if cls in documented(ctx):
            if pred.get("finite") == "1":
                # a documented error is the answer to degenerate data; samples in general position with parameters
                # strictly inside their ranges must be embedded (a solver that always throws is a dead library)
                return False, "throw-in-general-position:%s:%s" % (c["method"], cls), \
                    "throws %s although the configuration is in general position (valid input, interior parameters)" % cls
            return True, None, None
        return False, "foreign-throw:%s@%s" % (cls, c["method"]), "throws %s, which is not a documented tapkee exception" % cls
    sites = pred.get("sites", "-")
    tag = "#" + (sites.replace(",", "+") if sites not in ("-", "") else "unpredicted")
    if obs.startswith("timeout"):
        return False, obs + tag, "does not return within the wall-clock limit (%s)" % obs
    why = ("; the model evaluates the generated index expressions of this configuration out of range at: " + sites
           if tag != "#unpredicted" else "; no generated index site is out of range for this configuration")
    return False, obs + tag, "process ends abnormally (%s)%s" % (obs, why)


def permitted(obs, pred):
    """observation in the model's prediction set?"""
    if obs.startswith("ok "):
        t = obs.split()
        return pred.get("ok") == "%sx%s" % (t[1], t[2])
    if obs.startswith("throw "):
        return obs.split()[1] in pred.get("throws", "").split(",")
    return False


def parse_pred(line):
    return dict(t.split("=", 1) for t in line.split() if "=" in t)


# ----------------------------------------------------------------------------- shrinking
def finding_key(sig):
    """failures are grouped by their cause: the first out-of-range index site the model predicts for the
    configuration, otherwise (unpredicted) the observation itself without the build-specific abort kind"""
    if "#" in sig and not sig.endswith("#unpredicted"):
        return "site:" + sig.split("#", 1)[1].split("+")[0]
    return "obs:" + sig


def shrink(ctx, binary, c, key):
    """smaller N, d, k, D with the same cause (greedy descent, re-running the real code and the model)"""
    best = dict(c)
    is_timeout = key.startswith("obs:timeout")
    budget = [8 if is_timeout else 24]
    if is_timeout:
        best["limit"] = 5

    def key_of(cand):
        cand = dict(cand)
        cand["id"] = 0
        line = case_line(cand)
        o, _ = run_chunk(ctx, binary, [line])[0]
        rcm, mo, _ = ctx.run_model("model_c01", [line])
        okk, s, _ = oracle(ctx, cand, o, parse_pred(mo[0]) if mo else {})
        return None if okk else finding_key(s)

    changed = True
    while changed and budget[0] > 0:
        changed = False
        for field, lo in (("N", 1), ("d", 1), ("k", 3), ("D", 1)):
            if field not in best:
                continue
            v = int(best[field])
            for nv in sorted({lo, v // 2, v - 1}):
                if nv < lo or nv >= v or budget[0] <= 0:
                    continue
                cand = dict(best)
                cand[field] = nv
                if field == "N":      # keep the relation of d / k to N when N shrinks
                    for kk in ("d", "k"):
                        if kk in cand and int(c[kk]) >= int(c["N"]) - 2:
                            cand[kk] = max(1, nv - (int(c["N"]) - int(c[kk])))
                budget[0] -= 1
                if key_of(cand) == key:
                    best = cand
                    changed = True
                    break
    return best


# ----------------------------------------------------------------------------- correspondence
def estimated_seconds(c):
    """rough cost of the legitimately expensive configurations on the -O0 sanitizer builds (HLLE's Gram-Schmidt over
    1 + d + d(d+1)/2 columns per neighbourhood; t-SNE's 1000 gradient steps)"""
    N, d, k = int(c["N"]), int(c.get("d", 2)), int(c.get("k", 5))
    if c["method"] == "hlle" and 1 <= d < N and 3 <= k < N:
        w = 1 + d + d * (d + 1) // 2
        return N * max(k, min(N - 1, d)) * w * w / 3.0e7
    if c["method"] == "tsne" and d >= 1:
        return N * N * max(d, 2) / 1.5e4
    return 0.0


def judge(ctx, plan, label):
    """plan: [(build name, binary, [case dict])].  All (build, case) pairs share one pool of JOBS processes.
    Failures are collected in ctx.c01_failures and reported by report_failures()."""
    limit = 12 if ctx.tier == "quick" else 30
    work = []
    for bname, binary, cases in plan:
        for i, c in enumerate(cases):
            c["id"] = i
            c.setdefault("limit", int(max(limit, 4 * estimated_seconds(c) + 5)))
        lines = [case_line(c) for c in cases]
        if not lines:
            continue
        rc, model, err = ctx.run_model("model_c01", lines)
        if rc != 0 or len(model) != len(lines):
            ctx.broken("model-driver", "model_c01", "model driver failed: rc=%s %s" % (rc, err[-300:]))
            return
        work.append((bname, binary, cases, lines, [parse_pred(m) for m in model]))
    t0 = time.time()
    total = sum(len(w[3]) for w in work)
    chunks = []
    for wi, w in enumerate(work):
        jobs = max(1, min(len(w[3]), round(JOBS * len(w[3]) / max(total, 1)) or 1))
        for j in range(jobs):
            chunks.append((wi, j, jobs, w[3][j::jobs]))
    with concurrent.futures.ThreadPoolExecutor(JOBS) as ex:
        res = list(ex.map(lambda ch: run_chunk(ctx, work[ch[0]][1], ch[3]), chunks))
    results = [[None] * len(w[3]) for w in work]
    for (wi, j, jobs, _), rs in zip(chunks, res):
        for i, rr in enumerate(rs):
            results[wi][j + i * jobs] = rr
    ctx.log("%s: %d runs (%s) in %.1fs" % (label, total, ", ".join("%d on %s" % (len(w[3]), w[0]) for w in work), time.time() - t0))
    # a watchdog hit is confirmed by running the case ALONE once more (twice the limit) before it is reported: on a
    # loaded machine 16 processes x 2 threads can starve a healthy case
    retry = [(wi, i) for wi, rs in enumerate(results) for i, (obs, _) in enumerate(rs) if obs.startswith("timeout")]
    for wi, i in retry[:24]:
        c2 = dict(work[wi][2][i])
        c2["limit"] = 2 * int(c2.get("limit", limit))
        again = run_chunk(ctx, work[wi][1], [case_line(c2)])[0]
        ctx.stat("timeout-retried-alone")
        if not again[0].startswith("timeout"):
            ctx.stat("timeout-not-confirmed")
            results[wi][i] = again
    for (bname, binary, cases, lines, preds), rs in zip(work, results):
        for c, line, (obs, errtail), pred in zip(cases, lines, rs, preds):
            nontrivial = pred.get("validated") == "1"
            ctx.count(bname + line, nontrivial)
            ctx.cov["traces_validated_against_impl"] += 1
            ctx.stat("method:" + c["method"])
            ctx.stat("data:" + str(c.get("data", "generic")))
            ctx.stat("N:%s" % c["N"])
            ctx.stat("build:" + bname)
            if obs.startswith("throw"):
                ctx.stat("obs:throw:" + obs.split()[1])
            elif obs.startswith("ok"):
                ctx.stat("obs:ok" + (":nonfinite" if "finite=0" in obs else ""))
            else:
                ctx.stat("obs:" + obs.split(":")[0].split("@")[0])
            if pred.get("finite") == "1":
                ctx.stat("general-position-cases")
                if obs.startswith("ok ") and "finite=1" in obs:
                    # the floor counts what was OBSERVED: an embedding with finite entries
                    ctx.stat("general-position-ok-finite")
                    ctx.c01_judged[c["method"]] = ctx.c01_judged.get(c["method"], 0) + 1
            if c.get("api") == "embed":
                ctx.stat("api:embed:idx=" + str(c.get("idx", "identity")))
            ok, sig, what = oracle(ctx, c, obs, pred)
            if not ok:
                ctx.c01_failures.append({"sig": sig, "case": c, "obs": obs, "stderr": errtail, "pred": pred,
                                         "what": what, "build": bname, "binary": binary})
                continue
            if pred.get("sites", "-") != "-" and pred.get("validated") == "1":
                # the model says an access is out of range, the run did not abort (silent, or k was enlarged)
                ctx.stat("predicted-site-not-observed:" + bname)
            if not permitted(obs, pred):
                ctx.stat("prediction-mismatch")
                ctx.broken("corr:prediction:%s:%s" % (c["method"], "_".join(obs.split()[:2]) if obs.startswith("throw") else "ok"),
                           "correspondence c01_sweep (observation outside the model's prediction set)",
                           "the implementation answers `%s` where Model/Pipeline.lean predicts %s" % (obs, pred),
                           case=line, detail={"impl": obs, "model": pred, "build": bname})
            elif len(ctx.cov["samples"]) < 6 and nontrivial and c.get("data") == "generic":
                ctx.sample({"case": line, "impl": obs, "model": " ".join("%s=%s" % kv for kv in pred.items())})


def report_failures(ctx):
    """one report per cause, on the smallest configuration; the signature is the observation of the plain ASan
    build when that build saw the failure (witnesses run on both builds), else of the Eigen-assertion build"""
    groups = {}
    for f in ctx.c01_failures:
        groups.setdefault(finding_key(f["sig"]), []).append(f)

    def size(f):
        c = f["case"]
        return (0 if f["build"] == "asan" else 1, int(c["N"]), int(c.get("d", 2)), int(c.get("k", 0)), int(c["D"]))

    def one(item):
        key, fs = item
        fs.sort(key=size)
        f = fs[0]
        small = shrink(ctx, f["binary"], f["case"], key) if ctx.tier != "replay" else dict(f["case"])
        small = dict(small)
        small.pop("id", None)
        return key, fs, f, small

    t0 = time.time()
    with concurrent.futures.ThreadPoolExecutor(8) as ex:
        done = list(ex.map(one, sorted(groups.items())))
    for key, fs, f, small in done:
        ctx.stat("failing:" + key, len(fs))
        sigs = sorted({x["sig"] for x in fs})
        ctx.fail(f["sig"], "%s embed: %s  [%d run(s) with this cause: methods %s; builds %s]" % (
                 f["case"]["method"], f["what"], len(fs), ",".join(sorted({x["case"]["method"] for x in fs})),
                 ",".join(sorted({x["build"] for x in fs}))),
                 case=case_line(small),
                 detail={"impl": f["obs"], "model": f["pred"], "build": f["build"], "first_case": case_line(f["case"]),
                         "all_signatures": sigs, "others": [case_line(x["case"]) for x in fs[1:6]],
                         "stderr": f["stderr"][-2500:]})
    if done:
        ctx.log("shrunk %d failing causes in %.1fs" % (len(done), time.time() - t0))


def build_flags(debug):
    """-O0 -g1 (line tables are needed to name the library frame of an abort); ASan + UBSan + _GLIBCXX_ASSERTIONS from
    vlib.HARNESS_FLAGS.  UBSan's pointer checks (null / alignment / vptr / object-size) are left out: they make the
    Eigen-heavy translation unit a third slower to compile and what they would report here (a dereference outside an
    object) is ASan's subject anyway; integer overflow, shifts, float casts, bounds, returns … stay on."""
    f = [x for x in vlib.HARNESS_FLAGS if x not in ("-O1", "-g")] + ["-O0", "-g1", "-pipe"]
    f += ["-fno-sanitize=null,alignment,vptr,object-size,nonnull-attribute,returns-nonnull-attribute"]
    if debug:
        f += ["-DTAPKEE_DEBUG"]
    return f


def build_both(ctx):
    with concurrent.futures.ThreadPoolExecutor(2) as ex:
        fa = ex.submit(ctx.build_harness, "c01_sweep.cpp", "c01_sweep", (), build_flags(False))
        fb = ex.submit(ctx.build_harness, "c01_sweep.cpp", "c01_sweep_dbg", (), build_flags(True))
        a, la = fa.result()
        b, lb = fb.result()
    return a, la, b, lb


def load_documented(ctx):
    """the documented list is the one the translator extracted from embed.hpp's @throw block (+ no_data_error)"""
    p = os.path.join(vlib.LEAN_DIR, "TapkeeVerif", "Gen", "IndexExprs.lean")
    doc = list(DOCUMENTED)
    try:
        src = open(p).read()
        m = re.search(r"def documentedThrows : List String :=\s*\[([^\]]*)\]", src)
        if m:
            doc = [s.strip().strip('"') for s in m.group(1).split(",") if s.strip()] + ["no_data_error"]
    except OSError:
        pass
    ctx.c01_documented = doc


def site_status(ctx):
    """every listed site has its full theorem, or the Lean-checked refutation together with the partial statement"""
    try:
        names = {n.split(".")[-1] for n in ctx.theorems_in(LEAN_MODULES[0])}
    except OSError:
        return
    status = {}
    for sname in SITE_THEOREMS:
        if sname in names:
            status[sname] = "full"
        elif sname + "_refuted" in names and sname + "_partial" in names:
            status[sname] = "refuted (witness replayed by the sweep) + partial"
        else:
            status[sname] = "MISSING"
            ctx.broken("props:site:" + sname, "Props/C01.lean " + sname,
                       "neither the full theorem %s nor its refutation + partial form is present" % sname)
    ctx.extra["index_sites"] = status
    for t in getattr(ctx, "c01_site_theorems", []):
        if t not in names and not (t + "_refuted" in names and t + "_partial" in names):
            ctx.broken("sites:theorem-missing:" + t, "Gen/IndexSites.lean coverage tag `thm %s`" % t,
                       "the site inventory tags sites as covered by the theorem %s, which Props/C01.lean does not contain" % t)
    if hasattr(ctx, "c01_site_summary"):
        ctx.extra["index_site_inventory"] = ctx.c01_site_summary
        ctx.stat("sites:total", ctx.c01_site_summary["sites"])
        ctx.stat("sites:theorem", ctx.c01_site_summary["theorem"])
        ctx.stat("sites:loopvar", ctx.c01_site_summary["loopvar"])
        ctx.stat("sites:loopvar-index-obligations", ctx.c01_site_summary["loopvar_index_arguments"])
        ctx.stat("sites:sweep-only", ctx.c01_site_summary["sweep_only"])
    ctx.extra["open_findings_in_props"] = sorted(k for k, v in status.items() if v.startswith("refuted"))


def translator_selftest(ctx):
    """thorough tier: tools/test_translate_robust.py — mechanical behaviour-preserving rewrites of every header must leave
    the generated definitions unchanged (a rewrite that changes them or raises = a formatting-sensitive anchor)"""
    t0 = time.time()
    r = vlib.sh([os.sys.executable, os.path.join(vlib.ROOT, "tools", "test_translate_robust.py")],
                env=dict(os.environ, TAPKEE_REPO=vlib.REPO))
    lines = [l for l in r.stdout.split("\n") if l.strip()]
    bad = [l for l in lines if not l.startswith("same")]
    ctx.extra["translator_selftest"] = {"rewrites": len(lines), "unchanged": len(lines) - len(bad), "wall_s": round(time.time() - t0, 1)}
    if r.returncode != 0 or bad:
        ctx.broken("translator:selftest", "tools/test_translate_robust.py",
                   "a behaviour-preserving rewrite changes the translator's output or makes it raise: " + "; ".join(bad)[:600])


def correspond(ctx):
    load_documented(ctx)
    site_status(ctx)
    if ctx.tier == "thorough":
        translator_selftest(ctx)
    ctx.c01_failures = []
    ctx.c01_judged = {}
    t0 = time.time()
    a, la, b, lb = build_both(ctx)
    ctx.log("harness builds ready in %.1fs" % (time.time() - t0))
    if not a or not b:
        ctx.broken("harness-build", "harness c01_sweep.cpp", "harness does not compile against /repo: " + (la + lb)[-1200:])
        return
    A, B = "asan", "asan+eigen-assert"
    r = ctx.rng
    if getattr(ctx, "replay", None):
        ctx.tier = "replay"
        line = ctx.replay.get("case")
        if line and str(line).startswith("sweep "):
            c = parse_line(line)
            c.pop("id", None)
            judge(ctx, [(A, a, [dict(c)]), (B, b, [dict(c)])], "replay")
        else:
            # a broken obligation / translator tie without failing input: the Lean build above is the replay;
            # the witnesses show whether the real code still behaves
            judge(ctx, [(A, a, [dict(w) for w in WITNESSES]), (B, b, [dict(w) for w in WITNESSES])], "replay(witnesses)")
        report_failures(ctx)
        return
    # Lean witnesses + corpus first, on both builds
    first = [dict(w) for w in WITNESSES]
    cdir = os.path.join(vlib.ROOT, "corpus", "C01")
    if os.path.isdir(cdir):
        for f in sorted(os.listdir(cdir)):
            for l in open(os.path.join(cdir, f)):
                l = l.strip()
                if l.startswith("sweep "):
                    first.append(parse_line(l))
    cases = product_cases(r, ctx.tier)
    ctx.extra["case_counts"] = {"witnesses+corpus": len(first), "generated": len(cases)}
    if ctx.tier == "quick":
        # the generated sample runs once per case, alternating between the two builds
        judge(ctx, [(A, a, first + cases[0::2]), (B, b, [dict(c) for c in first] + cases[1::2])], "witnesses+sample")
    else:
        judge(ctx, [(A, a, first + cases), (B, b, [dict(c) for c in first] + [dict(c) for c in cases[::3]])], "witnesses+product")
    report_failures(ctx)
    ctx.extra["finiteness_judged_per_method"] = {m: ctx.c01_judged.get(m, 0) for m in METHODS}
    for m in METHODS:
        if ctx.c01_judged.get(m, 0) == 0:
            ctx.broken("coverage:finiteness:" + m, "sweep coverage (general-position cases of %s)" % m,
                       "no general-position configuration of %s was observed to return a finite embedding in this run "
                       "(generator or Model/Pipeline.mustBeFinite too narrow, or the method fails on healthy input)" % m)
    ctx.cov["rule"] = ("configurations of the public API drawn from 20 methods x {brute,vptree,covertree} x {dense,randomized} x "
                       "d in {1,2,3,N-2,N-1} x k in {3,4,N/5,N-1} x data in {generic,dup(>=k+2 coincident),lattice,collinear,"
                       "constant,widerange 1e12} x N in {1,2,3,4,5,8,17,40} x D in {1,2,3,10} + keyword-boundary cases "
                       "(N=0, d in {0,N,N+1}, k in {2,N,N+3}, ratio/perplexity/theta/width/timesteps/squishing/SPE/FA bounds, "
                       "defaults, both API entry points); non-trivial = the model says the configuration passes validation; "
                       "distinct by (build, case text)")
    ctx.assumptions += [
        "memory safety / termination of the compiled code is observed (ASan+UBSan+_GLIBCXX_ASSERTIONS, Eigen assertions in the "
        "second build, per-case wall-clock limit); the inb_* theorems are about index expressions extracted from the source",
        "finiteness is checked on the implementation only (float-level), in general position as decided by Model/Pipeline.lean",
        "not_enough_memory_error is outside the model's prediction set at these sizes (N <= 40)",
        "manifold sculpting's data-dependent float loops are observed under the wall-clock limit only",
        "landmark count and t-SNE's K are floors of exact rational products in the model, of double products in the code",
    ]
