"""Shared helpers of the spectral checks C05 / C06 / C07 (case text, exact rational generators, judging)."""
import hashlib
import os
import re
from fractions import Fraction

import vlib

NONFINITE = re.compile(r"(?<![\w.])(-?nan|-?inf|dblmax)(?![\w])")


# the all-methods translation unit (tapkee.hpp) needs 2-3 min under ASan+UBSan at -O1 -g; at -O0 -g1 it builds ~3x faster
# and needs far less memory (matrices are small: run time is irrelevant).  Sanitizers stay on.
FLAGS = [f for f in vlib.HARNESS_FLAGS if f not in ("-O1", "-g")] + ["-O0", "-g1"]


def header_flag():
    """the shared harness header is not part of vlib's cache key: fold its hash into the flags"""
    p = os.path.join(vlib.ROOT, "harness", "vspectral.hpp")
    return ["-DVSPECTRAL_HASH=\"%s\"" % hashlib.sha256(open(p, "rb").read()).hexdigest()[:12]]


def harness_name(base):
    """cache name of a harness binary: runs against a scratch copy (TAPKEE_REPO) get their own name, so that they do
    not evict the binary built from /repo (vlib keeps one binary per name)"""
    if vlib.REPO == "/repo":
        return base
    return "%s_scratch_%s" % (base, hashlib.sha256(vlib.REPO.encode()).hexdigest()[:8])


def fr(x):
    """exact text of a Fraction: integer or a/b"""
    x = Fraction(x)
    return str(x.numerator) if x.denominator == 1 else "%d/%d" % (x.numerator, x.denominator)


def parse_dyadic(t):
    """exact value of a harness number: integer, a/b, or m:e (= m·2^e)"""
    if ":" in t:
        m, e = t.split(":")
        return Fraction(int(m)) * Fraction(2) ** int(e)
    return Fraction(t)


def mat_text(rows):
    return ";".join(",".join(fr(v) for v in r) for r in rows)


def is_pow2(n):
    return n >= 1 and (n & (n - 1)) == 0


def fields(line):
    out = {}
    for tok in line.split(" "):
        if "=" in tok:
            k, v = tok.split("=", 1)
            out[k] = v
    return out


def rand_int_matrix(r, n, m, lo, hi):
    return [[r.range(lo, hi) for _ in range(m)] for _ in range(n)]


def low_rank_points(r, N, D, rank, amp=4):
    """N integer points in D dimensions spanning (at most) `rank` dimensions after centring, non-zero mean"""
    rank = min(rank, D)
    basis = rand_int_matrix(r, rank, D, -amp, amp)
    # make the basis generically independent: add a scaled identity block
    for i in range(rank):
        basis[i][i % D] += amp + 1 + i
    coef = rand_int_matrix(r, N, rank, -amp, amp)
    off = [r.range(-3, 9) for _ in range(D)]
    return [[off[a] + sum(coef[i][k] * basis[k][a] for k in range(rank)) for a in range(D)] for i in range(N)]


def anisotropic_points(r, N, D, rank, steps):
    """N points of exact rank `rank` (<= D) whose principal directions have very different extents: integer coefficients
    in [-8, 8] along `rank` axes, axis k shrunk by the power of two 2^-(steps[0]+…+steps[k-1]) (so the data stay exact
    dyadics and the retained eigenvalues of the Gram / covariance matrix differ by factors ~4^step: strips, slabs);
    the axes are then placed on random coordinates with random signs, and one pair is rotated by the exact scaled
    rotation (x+y, x-y), which keeps all ratios"""
    coef = rand_int_matrix(r, N, rank, -8, 8)
    for k in range(rank):          # every axis has extent: two opposite extreme points
        coef[r.below(N)][k] = 8
        coef[r.below(N)][k] = -8
    scale, e = [], 0
    for k in range(rank):
        scale.append(Fraction(1, 2 ** e))
        e += steps[k] if k < len(steps) else 0
    perm = r.shuffle(list(range(D)))[:rank]
    sign = [r.choice([-1, 1]) for _ in range(rank)]
    off = [Fraction(r.range(-3, 9)) for _ in range(D)]
    pts = []
    for i in range(N):
        row = [Fraction(0)] * D
        for k in range(rank):
            row[perm[k]] = sign[k] * coef[i][k] * scale[k]
        pts.append(row)
    if D >= 2 and r.chance(1, 2):
        a, b = r.shuffle(list(range(D)))[:2]
        pts = [[(row[a] + row[b]) if c == a else (row[a] - row[b]) if c == b else row[c] for c in range(D)] for row in pts]
    return [[v + o for v, o in zip(row, off)] for row in pts]


def sym_dist_matrix(r, N, kind):
    """symmetric, zero diagonal; kind: int (small integers), dyadic (multiples of 1/8)"""
    M = [[Fraction(0)] * N for _ in range(N)]
    for i in range(N):
        for j in range(i + 1, N):
            v = Fraction(r.range(1, 12)) if kind == "int" else Fraction(r.range(1, 96), 8)
            M[i][j] = M[j][i] = v
    return M


def l1_metric(pts):
    N = len(pts)
    return [[Fraction(sum(abs(a - b) for a, b in zip(pts[i], pts[j]))) for j in range(N)] for i in range(N)]


def psd_kernel(r, N, rank, amp=3):
    F = rand_int_matrix(r, N, rank, -amp, amp)
    return [[Fraction(sum(F[i][k] * F[j][k] for k in range(rank))) for j in range(N)] for i in range(N)]


def centred_is_zero(M):
    """is the double-centred square matrix (exact Fractions) identically zero?"""
    n = len(M)
    if n == 0:
        return True
    col = [sum(M[i][j] for i in range(n)) / n for j in range(n)]
    g = sum(col) / n
    return all(M[i][j] + g - col[j] - col[i] == 0 for i in range(n) for j in range(n))


def matrix_rank(M):
    """exact rank of a matrix of Fractions (Gaussian elimination)"""
    A = [list(map(Fraction, r)) for r in M]
    rank, rows, cols = 0, len(A), len(A[0]) if A else 0
    for c in range(cols):
        piv = next((i for i in range(rank, rows) if A[i][c] != 0), None)
        if piv is None:
            continue
        A[rank], A[piv] = A[piv], A[rank]
        for i in range(rank + 1, rows):
            if A[i][c] != 0:
                f = A[i][c] / A[rank][c]
                A[i] = [a - f * b for a, b in zip(A[i], A[rank])]
        rank += 1
        if rank == rows:
            break
    return rank


def centred_points_rank(rows):
    n = len(rows)
    mean = [sum(r[a] for r in rows) / n for a in range(len(rows[0]))]
    return matrix_rank([[v - m for v, m in zip(r, mean)] for r in rows])


def centred_matrix_rank(M):
    n = len(M)
    col = [sum(M[i][j] for i in range(n)) / n for j in range(n)]
    g = sum(col) / n
    return matrix_rank([[M[i][j] + g - col[j] - col[i] for j in range(n)] for i in range(n)])


def rows_identical(rows):
    return all(r == rows[0] for r in rows)


def with_decoys_points(r, rows):
    """the N selected samples placed at shuffled positions of a larger id space, decoy samples in between:
    returns (all_rows, sel) with all_rows[sel[a]] = rows[a].  The library is handed the id range `sel`
    (non-identity, non-contiguous, unordered); callbacks are defined on ids; the model sees `rows` in range order."""
    N = len(rows)
    total = N + r.range(1, max(2, N // 2))
    sel = r.shuffle(list(range(total)))[:N]
    allr = [None] * total
    for a, pos in enumerate(sel):
        allr[pos] = rows[a]
    for i in range(total):
        if allr[i] is None:       # a decoy in the units of the data: sum of two samples plus one coordinate of a third
            a, b, c = rows[r.below(N)], rows[r.below(N)], rows[r.below(N)]
            allr[i] = [x + y - z for x, y, z in zip(a, b, reversed(c))]
    return allr, sel


def with_decoys_matrix(r, M):
    """the same for a precomputed symmetric callback matrix: all_M[sel[a]][sel[b]] = M[a][b], decoy entries are drawn from
    the entries of M (same units), symmetric"""
    N = len(M)
    total = N + r.range(1, max(2, N // 2))
    sel = r.shuffle(list(range(total)))[:N]
    pos = {p: a for a, p in enumerate(sel)}
    A = [[None] * total for _ in range(total)]
    for i in range(total):
        for j in range(i, total):
            if i in pos and j in pos:
                v = M[pos[i]][pos[j]]
            else:
                v = M[r.below(N)][r.below(N)] + M[r.below(N)][r.below(N)]
            A[i][j] = A[j][i] = v
    return A, sel


def decoy_fields(c):
    """extra fields of a case line when the library is handed a non-identity id range"""
    if not c.get("sel"):
        return ""
    return " sel=%s alldata=%s" % (",".join(map(str, c["sel"])), mat_text(c["all"]))


def parse_decoys(f, c):
    if "sel" in f and "alldata" in f:
        c["sel"] = [int(x) for x in f["sel"].split(",")]
        c["all"] = [[Fraction(v) for v in r.split(",")] for r in f["alldata"].split(";")]


def nan_columns(mat_text_value):
    """(set of columns containing a non-finite token, text with those tokens replaced by 0)"""
    cols = set()
    rows = mat_text_value.split(";")
    out = []
    for row in rows:
        ent = row.split(",")
        for j, e in enumerate(ent):
            if NONFINITE.fullmatch(e):
                cols.add(j)
                ent[j] = "0"
        out.append(",".join(ent))
    return cols, ";".join(out)


def has_nonfinite(text):
    return bool(NONFINITE.search(text))


def load_corpus(prop, prefix):
    lines = []
    cdir = os.path.join(vlib.ROOT, "corpus", prop)
    if os.path.isdir(cdir):
        for f in sorted(os.listdir(cdir)):
            for l in open(os.path.join(cdir, f)):
                l = l.strip()
                if l.startswith(prefix + " "):
                    lines.append(l)
    return lines
