"""C17 — t-SNE: calibrated similarities from true neighbours, true KL gradient.
Model: lean/TapkeeVerif/Model/Tsne.lean (+ QuadTree.lean, Gen/TsneOps.lean regenerated from the source);
theorems: Props/C17.lean; driver: Driver/C17.lean (model_c17); harnesses: harness/c17_tsne.cpp (private stages of
tsne::TSNE through the TAPKEE_VERIF friend hook, tsne::VpTree), harness/c17_api.cpp (public API smoke)."""
import importlib.util
import os
import threading
from fractions import Fraction

import vlib

PROPERTY = "C17"
LEAN_MODULES = ["TapkeeVerif.Props.C17"]
LEAN_EXES = ["model_c17"]
REQUIRED_THEOREMS = [
    "TapkeeVerif.Tsne.sqEuclid_correct",
    "TapkeeVerif.Tsne.sqEuclid_operator_matters",
    "TapkeeVerif.Tsne.bisect_bracket",
    "TapkeeVerif.Tsne.bisect_found",
    "TapkeeVerif.Tsne.bisect_converges",
    "TapkeeVerif.Tsne.bisect_converges_real",
    "TapkeeVerif.Tsne.P_dense_sum_one",
    "TapkeeVerif.Tsne.P_dense_symm",
    "TapkeeVerif.Tsne.sqDistance_not_metric",
    "TapkeeVerif.Tsne.bh_neighbours_true",
    "TapkeeVerif.Tsne.vptree_build_inv",
    "TapkeeVerif.Tsne.bh_neighbours_of_build",
    "TapkeeVerif.Tsne.vptree_build_inv_any_nth",
    "TapkeeVerif.Tsne.bh_neighbours_of_build_any_nth",
    "TapkeeVerif.Tsne.vpBuild_is_sortNth",
    "TapkeeVerif.Tsne.bh_neighbours_witness",
    "TapkeeVerif.Tsne.symmetrizeCsr_inbounds",
    "TapkeeVerif.Tsne.symmetrizeCsr_half_sum",
    "TapkeeVerif.Tsne.symmetrizeCsr_symm",
    "TapkeeVerif.Tsne.symmetrizeCsr_wellformed",
    "TapkeeVerif.Tsne.symmetrizeCsr_total",
    "TapkeeVerif.Tsne.run_joint_csr",
    "TapkeeVerif.Tsne.gradient_identity",
    "TapkeeVerif.Tsne.exactGradientSpec_apply",
    "TapkeeVerif.Tsne.bhGradient_inbounds",
    "TapkeeVerif.Tsne.bh_theta0_eq_exact",
    "TapkeeVerif.Tsne.bh_small_theta_eq_theta0",
    "TapkeeVerif.Tsne.bh_theta0_eq_exact_total",
    "TapkeeVerif.Tsne.prune_sound",
    "TapkeeVerif.Tsne.exactGradient_is_grad_KL",
    "TapkeeVerif.Tsne.exactGradient_directional",
    "TapkeeVerif.Tsne.zeroMean_centres",
    "TapkeeVerif.Tsne.run_neighbour_count",
    "TapkeeVerif.Tsne.run_joint_distribution",
    "TapkeeVerif.Tsne.run_exaggeration",
    "TapkeeVerif.Tsne.run_schedule",
    "TapkeeVerif.Tsne.run_update_rule_is_spec",
    "TapkeeVerif.Tsne.run_stage_order",
    "TapkeeVerif.Tsne.run_bisection_tolerance",
    "TapkeeVerif.Tsne.run_quadtree_constants",
    "TapkeeVerif.Tsne.jointDenseAsWritten_eq",
]

TH_1EM6 = "4722366482869645:-72"       # the double nearest to 1e-6
TH_01 = "3602879701896397:-55"         # the double nearest to 0.1


def _load(name):
    spec = importlib.util.spec_from_file_location(name, os.path.join(vlib.ROOT, "tools", name + ".py"))
    mod = importlib.util.module_from_spec(spec)
    spec.loader.exec_module(mod)
    return mod


SOURCE = {"kMult": Fraction(3)}     # what the source says (filled by translate); the SPEC value is 3


def translate(ctx):
    ops = _load("translate_tsne")
    run = _load("translate_tsne_run")
    try:
        vlib.write_if_changed(os.path.join(vlib.LEAN_DIR, "TapkeeVerif", "Gen", "TsneOps.lean"), ops.generate(vlib.REPO))
        text = run.generate(vlib.REPO)
    except (run.UnknownShape, ops.UnknownShape) as ex:
        # the source has a shape the translator does not know: not evidence of a defect, the tie has to be re-established
        ctx.broken("translator:unknown-shape", "tools/translate_tsne*.py (Gen/TsneOps.lean, Gen/TsneRun.lean)",
                   "the t-SNE sources have a shape the translator does not recognise (%s); the generated tables were left as they "
                   "were — teach the translator the new shape" % ex)
        return
    vlib.write_if_changed(os.path.join(vlib.LEAN_DIR, "TapkeeVerif", "Gen", "TsneRun.lean"), text)
    import re
    m = re.search(r"def kMult : Nat × Nat := \((\d+), (\d+)\)", text)
    SOURCE["kMult"] = Fraction(int(m.group(1)), int(m.group(2)))


# ----------------------------------------------------------------------------- numbers
def fmt(q):
    q = Fraction(q)
    if q.denominator == 1:
        return str(q.numerator)
    e = q.denominator.bit_length() - 1
    assert q.denominator == 1 << e, "non-dyadic value"
    return "%d:%d" % (q.numerator, -e)


def fmts(xs):
    return ",".join(fmt(x) for x in xs)


def dy(m, e=0):
    return Fraction(m) * Fraction(2) ** e


def distinct_points(r, n, d, gen):
    pts = []
    seen = set()
    guard = 0
    while len(pts) < n and guard < 1000:
        guard += 1
        p = tuple(gen() for _ in range(d))
        if p not in seen:
            seen.add(p)
            pts.append(p)
    return pts


def flat(pts):
    return [c for p in pts for c in p]


# ----------------------------------------------------------------------------- case generators (-> (topic, line))
def c_sqd(r):
    n, d = r.range(2, 8), r.range(1, 4)
    pts = [tuple(Fraction(r.range(-9, 9)) for _ in range(d)) for _ in range(n)]
    return "sqd N=%d D=%d X=%s" % (n, d, fmts(flat(pts)))


def c_zm(r):
    n, d = r.choice([1, 2, 3, 4, 5, 8, 16]), r.range(1, 3)
    pts = [tuple(dy(r.range(-64, 64), -r.choice([0, 2, 4])) for _ in range(d)) for _ in range(n)]
    return "zm N=%d D=%d X=%s" % (n, d, fmts(flat(pts)))


def min_ties(pts):
    """largest number of other points tied at the minimum distance of some point: the row entropy cannot go below
    log of that number, so a perplexity at or below it is unreachable for every implementation"""
    worst = 1
    for i, p in enumerate(pts):
        ds = sorted(sum((a - b) ** 2 for a, b in zip(p, q)) for j, q in enumerate(pts) if j != i)
        worst = max(worst, ds.count(ds[0]))
    return worst


def tight_clusters(r, d):
    """well-separated clusters whose internal scale is 2^-20 .. 2^-24 of the global scale (all coordinates dyadic, in
    [-1, 1]): the calibrated beta is ~2^40 .. 2^48, i.e. the bisection needs 60-70 of its 200 passes"""
    s = r.choice([20, 22, 24])
    centres = distinct_points(r, r.range(2, 3), d, lambda: dy(r.range(-3, 3), -2))
    pts = []
    for c in centres:
        for k in (0, 1, 3, 7):
            off = [dy(k, -s)] + [dy(r.range(0, 1) * k, -s - 1) for _ in range(d - 1)]
            pts.append(tuple(ci + oi for ci, oi in zip(c, off)))
    return pts


def c_gpd(r):
    if r.chance(1, 4):
        d = r.range(1, 2)
        pts = tight_clusters(r, d)
        return "gpd N=%d D=%d X=%s perp=%s" % (len(pts), d, fmts(flat(pts)), fmt(Fraction(2)))
    while True:
        n, d = r.range(3, 8), r.range(1, 3)
        pts = distinct_points(r, n, d, lambda: dy(r.range(-16, 16), -4))
        if r.chance(1, 4):
            pts = with_copies(r, pts)        # coincident samples
        perps = [p for p in (Fraction(3, 2), Fraction(2), Fraction(5, 2), Fraction(3), Fraction(4), Fraction(5))
                 if min_ties(pts) < p < len(pts) - 1]
        if perps:
            break
    perp = r.choice(perps)
    return "gpd N=%d D=%d X=%s perp=%s" % (len(pts), d, fmts(flat(pts)), fmt(perp))


def with_copies(r, pts):
    """some samples repeated (coincident samples: distance 0, the tree may return a copy before the query itself)"""
    out = list(pts)
    for _ in range(r.range(1, 3)):
        out.append(r.choice(pts))
    return r.shuffle(out)


def c_gpk_special(r):
    """coincident samples, and distance ties exactly at the K-th neighbour (equally spaced samples)"""
    if r.chance(1, 2):
        while True:
            d = r.choice([1, 1, 2])
            pts = with_copies(r, distinct_points(r, r.range(6, 11), d, lambda: dy(r.range(-24, 24), -5)))
            n = len(pts)
            perps = [p for p in (Fraction(3, 2), Fraction(2), Fraction(5, 2), Fraction(3))
                     if 3 * p <= n - 1 and p > min_ties(pts)]
            if perps:
                break
        perp = r.choice(perps)
    else:
        n = r.range(9, 13)
        o = dy(r.range(-8, 8), -4)
        pts = r.shuffle([(o + dy(k, -3),) for k in range(n)])
        d = 1
        perp = r.choice([Fraction(5, 2)] + ([Fraction(3)] if n >= 11 else []))     # K = 7, 9: one of the pair at +-4, +-5
    k = int(SOURCE["kMult"] * perp)
    return "gpk N=%d D=%d X=%s perp=%s K=%d Kspec=%d rnd=%s" % (n, d, fmts(flat(pts)), fmt(perp), k, int(3 * perp),
                                                                ",".join(str(r.below(1 << 20)) for _ in range(8)))


def c_gpk(r):
    if r.chance(1, 4):
        return c_gpk_special(r)
    if r.chance(1, 4):
        d = r.range(1, 2)
        pts = tight_clusters(r, d)
        return "gpk N=%d D=%d X=%s perp=%s K=%d Kspec=%d rnd=%s" % (len(pts), d, fmts(flat(pts)), fmt(Fraction(2)),
                                                                    int(SOURCE["kMult"] * 2), 6,
                                                                    ",".join(str(r.below(1 << 20)) for _ in range(8)))
    while True:
        d = r.choice([1, 1, 2])
        n = r.range(5, 14)
        if r.chance(1, 2):
            # a lattice (many distance ties), scaled into [-1, 1] as TSNE::run does (`X /= X.maxCoeff()`): outside that
            # range exp(-beta*d) underflows below DBL_MIN for the betas small perplexities need
            pts = distinct_points(r, n, d, lambda: dy(r.range(-20, 20), -5))
        else:
            pts = distinct_points(r, n, d, lambda: dy(r.range(-40, 40), -6))
        n = len(pts)
        perps = [p for p in (Fraction(5, 4), Fraction(3, 2), Fraction(2), Fraction(5, 2), Fraction(3), Fraction(4))
                 if 3 * p <= n - 1 and p > min_ties(pts)]
        if perps:
            break
    perp = r.choice(perps)
    # K as TSNE::run computes it — `(int)(kMult * perplexity)` with the multiplier read from the source —, and the K the
    # property demands (floor(3 * perplexity)) for the oracle
    k = int(SOURCE["kMult"] * perp)
    return "gpk N=%d D=%d X=%s perp=%s K=%d Kspec=%d rnd=%s" % (n, d, fmts(flat(pts)), fmt(perp), k, int(3 * perp),
                                                                ",".join(str(r.below(1 << 20)) for _ in range(8)))


def c_vps(r, big=False):
    d = r.choice([1, 1, 2, 3])
    n = r.range(2, 60 if big else 24)
    if r.chance(2, 3):
        pts = [tuple(Fraction(r.range(-30, 30)) for _ in range(d)) for _ in range(n)]   # duplicates allowed
    else:
        pts = [tuple(dy(r.range(-200, 200), -4) for _ in range(d)) for _ in range(n)]
    k = r.range(1, min(n, 8))
    qs = list(range(n)) if n <= 12 else sorted(set(r.below(n) for _ in range(10)))
    return "vps N=%d D=%d X=%s k=%d rnd=%s q=%s" % (n, d, fmts(flat(pts)), k,
                                                    ",".join(str(r.below(1 << 20)) for _ in range(8)), ",".join(map(str, qs)))


def random_csr(r, n, knn=False, diag=False):
    rows, cols, vals = [0], [], []
    k = r.range(1, max(1, n - 1)) if knn else None
    for i in range(n):
        cand = [j for j in range(n) if j != i or diag]
        cand = r.shuffle(cand)
        cnt = min(len(cand), k if knn else r.range(0, len(cand)))
        for j in cand[:cnt]:
            cols.append(j)
            vals.append(dy(r.range(1, 64), -r.choice([3, 6, 8])))
        rows.append(len(cols))
    return rows, cols, vals


def c_sym(r):
    n = r.range(1, 8)
    rows, cols, vals = random_csr(r, n, knn=r.chance(1, 2), diag=r.chance(1, 6))
    return "sym N=%d row=%s col=%s val=%s" % (n, ",".join(map(str, rows)), ",".join(map(str, cols)), fmts(vals))


def c_exg(r, fd):
    n = r.range(2, 4 if fd else 6)
    d = r.choice([1, 2, 2, 3])
    w = [[0] * n for _ in range(n)]
    for i in range(n):
        for j in range(i + 1, n):
            w[i][j] = w[j][i] = r.range(0, 12)
    tot = sum(map(sum, w))
    j = max(4, tot.bit_length())
    w[0][1] += ((1 << j) - tot) // 2
    w[1][0] = w[0][1]
    P = [dy(w[a][b], -j) for a in range(n) for b in range(n)]
    assert sum(P) == 1
    Y = distinct_points(r, n, d, lambda: dy(r.range(-16, 16), -3))
    return "exg N=%d D=%d P=%s Y=%s fd=%d" % (n, d, fmts(P), fmts(flat(Y)), 1 if fd else 0)


def c_bhg(r, d=2):
    n = r.range(2, 10)
    rows, cols, vals = random_csr(r, n, knn=r.chance(1, 2))
    if r.chance(1, 6):
        Y = [tuple(dy(r.range(-8, 8), -2) for _ in range(d)) for _ in range(n)]         # coincident map points possible
    else:
        Y = distinct_points(r, n, d, lambda: dy(r.range(-32, 32), -r.choice([2, 4])))
    th = r.choice(["1:-1", TH_01, TH_1EM6, TH_1EM6])
    return "bhg N=%d D=%d row=%s col=%s val=%s Y=%s theta=%s" % (n, d, ",".join(map(str, rows)), ",".join(map(str, cols)),
                                                                   fmts(vals) if vals else "", fmts(flat(Y)), th)


def c_run(r, bh, theta=None, upto=260):
    """the real TSNE::run on a tiny input, observed through its progress log (error value + map snapshot at the logged
    iterations) and through its per-iteration observer hook (the map after each of the iterations 0..upto: every step,
    including the end of the exaggeration and the momentum switch after iteration 250, is compared with the specified
    update rule); generic dyadic data without distance ties, replayed Gaussian stream"""
    while True:
        n = r.range(7, 9) if bh else r.range(4, 6)
        d = r.range(1, 3)
        pts = distinct_points(r, n, d, lambda: dy(r.range(-24, 24), -3))
        n = len(pts)
        ok = True
        for i, p in enumerate(pts):
            ds = [sum((a - b) ** 2 for a, b in zip(p, q)) for j, q in enumerate(pts) if j != i]
            if len(set(ds)) != len(ds):
                ok = False
        if ok and n >= (7 if bh else 4):
            break
    # Barnes-Hut: K = floor(3 * perplexity) — non-integer perplexities with fractional part >= 1/3 tell it from
    # 3 * floor(perplexity)
    perp = r.choice([Fraction(2), Fraction(3, 2), Fraction(7, 4)] + ([Fraction(5, 2)] if n >= 8 else [])) if bh else \
        r.choice([Fraction(3, 2), Fraction(2)])
    if not bh and perp >= n - 1:
        perp = Fraction(3, 2)
    g = [dy(r.range(-40, 40), -4) for _ in range(2 * n)]
    return "run N=%d D=%d X=%s perp=%s theta=%s dim=2 g=%s at=50,250,300 upto=%d" % (
        n, d, fmts(flat(pts)), fmt(perp), (theta or "1:-1") if bh else "0", fmts(g), upto)


def c_api(r, dim=2, theta="1:-1", nonid=None):
    """public-API case; `nonid` (default: every second case) hands tapkee::embed a NON-identity range: a shuffled subset
    `ids` of a larger id space `M`, the features callback defined on ids (row k of X belongs to id ids[k]), all other ids
    decoys; the model side sees the selected samples in range order."""
    m = r.range(18, 24)          # below ~15 points per cluster the optimiser (eta = 200) is outside its working regime
    d = r.range(2, 4)
    pts, labels = [], []
    for lab, centre in enumerate([0, 40]):
        for _ in range(m):
            pts.append(tuple(Fraction(centre) + dy(r.range(-16, 16), -3) for _ in range(d)))
            labels.append(lab)
    n = len(pts)
    perp = r.choice([Fraction(4), Fraction(5)])
    line = "api N=%d D=%d X=%s perp=%s theta=%s dim=%d labels=%s" % (n, d, fmts(flat(pts)), fmt(perp), theta, dim,
                                                                       ",".join(map(str, labels)))
    if nonid is None:
        nonid = r.chance(1, 2)
    if nonid:
        M = n + r.range(5, 3 * n)
        space = list(range(M))
        for i in range(M - 1, 0, -1):            # Fisher-Yates on the id space, the first n ids are the range
            j = r.range(0, i)
            space[i], space[j] = space[j], space[i]
        ids = space[:n]
        if ids == list(range(n)):
            ids[0], ids[1] = ids[1], ids[0]
        line += " ids=%s M=%d" % (",".join(map(str, ids)), M)
    return line


# ----------------------------------------------------------------------------- running and judging
def with_obs(line, io):
    return line + " " + " ".join("o." + t for t in io.split())


def kv(line):
    d = {}
    for tok in line.split():
        if "=" in tok:
            k, v = tok.split("=", 1)
            d[k] = v
    return d


ORACLES = {
    # topic -> [(key, signature, what)]
    "sqd": [("spec", "sqdist-not-squared-euclidean",
             "computeSquaredEuclideanDistance does not return the squared Euclidean distances")],
    "zm": [("zero", "zeromean-not-centred", "zeroMean leaves a non-zero column mean")],
    "gpd": [("rows", "perplexity-dense:row-sum", "a row of the dense conditional similarities does not sum to one"),
            ("ent", "perplexity-dense:entropy", "row entropy of the dense conditional similarities is not within 1e-4 of log(perplexity)"),
            ("gauss", "perplexity-dense:not-gaussian",
             "a row of the dense conditional similarities is not a Gaussian kernel of the squared distances to the other samples")],
    "gpk": [("nbrs", "bh-neighbours-not-nearest",
             "the K-NN similarities are not over the true floor(3*perplexity) nearest neighbours"),
            ("rows", "perplexity-knn:row-sum", "a row of the sparse conditional similarities does not sum to one"),
            ("ent", "perplexity-knn:entropy", "row entropy of the sparse conditional similarities is not within 1e-4 of log(perplexity)"),
            ("gauss", "perplexity-knn:not-gaussian", "a sparse row is not a Gaussian kernel of the true squared distances")],
    "sym": [("symm", "symmetrize:not-symmetric", "symmetrizeMatrix output is not symmetric"),
            ("half", "symmetrize:not-half-sum", "symmetrizeMatrix entry is not (p_nm + p_mn)/2"),
            ("tot", "symmetrize:total", "symmetrizeMatrix does not preserve the total mass")],
    "vps": [("knn", "vptree-search-misses-neighbour",
             "tsne::VpTree::search does not return the k nearest items (pruning with the triangle inequality on squared distances)")],
    "exg": [("grad", "exact-gradient-formula",
             "computeExactGradient differs from sum_m (p_nm - q_nm) q_nm Z (y_n - y_m) with Student-t q over the true distances"),
            ("fd", "exact-gradient-finite-difference",
             "4*computeExactGradient differs from central finite differences of KL(P||Q) (test-level check)")],
    "bhg": [("bh0", "bh-gradient-theta0", "computeGradient at theta = 1e-6 differs from the exact gradient formula")],
    "run": [("spec", "run:joint-distribution-or-schedule",
             "the error values TSNE::run logs (iterations 50, 250, 300) are not those of the specified run: joint similarities "
             "symmetrised and summing to one (over floor(3*perplexity) neighbours in the Barnes-Hut branch), exaggerated by 12 "
             "up to iteration 250 and not afterwards"),
            ("step", "run:update-rule",
             "an iteration of TSNE::run (observed after every iteration through the observer hook) is not the specified "
             "step from the previous map: gradient of KL on the specified joint distribution (exaggerated by 12 through "
             "iteration 250), gains +0.2/x0.8 floored at 0.01, learning rate 200, momentum 0.5 through iteration 250 then "
             "0.8, re-centred")],
    "api": [("centred", "api:not-centred", "the returned map is not centred"),
            ("pure", "api:cluster-separation", "two well-separated clusters are mixed in the returned map (test-level check)")],
}


def run_lines(ctx, binary, lines, timeout=300):
    impl = ctx.run_impl_cases(binary, lines, timeout=timeout)
    mlines = [l if io.startswith("abort:") else with_obs(l, io) for l, io in zip(lines, impl)]
    rc, model, err = ctx.run_model("model_c17", mlines)
    if rc != 0 or len(model) != len(lines):
        ctx.broken("model-driver", "model_c17", "model driver failed: rc=%s %s" % (rc, err[-300:]))
        model = ["ERR:driver"] * len(lines)
    return impl, model


def verdict(line, io, mo):
    """-> (kind, signature, what), a list of such (every failing oracle of the case), or None"""
    topic = line.split(" ", 1)[0]
    m = kv(mo)
    if io.startswith("abort:"):
        sig = io[len("abort:"):]
        if topic == "bhg" and m.get("cmp", "").startswith("model-ERR:oob"):
            # private-level agreement: the model's explicit error state and the sanitizer abort coincide.  Whether this is
            # reachable is decided by the public-API cases (target_dimension != 2 with theta > 0), which carry the finding.
            return ("agree", "bh-gradient-dims-oob", "")
        return ("fail", "abort:%s:%s" % (topic, sig), "%s stage aborts (%s)" % (topic, sig))
    if topic == "api" and "foreign" in kv(io):
        return ("fail", "tsne-api:foreign-id", "the features callback was evaluated %s time(s) on sample ids that are not "
                "elements of the range handed to embed (position used instead of the element?): %s" % (kv(io)["foreign"], io[:120]))
    if io.startswith("throw"):
        f = kv(line)
        if "wrong_parameter_error" in io and f.get("dim") != "2" and f.get("theta") != "0":
            return ("agree", "api:documented-error-for-non-2d-barnes-hut", "")
        return ("fail", "api:throws", "public API throws: " + io)
    fails = []
    log_broken = None
    if topic == "run":
        # the KL values come from the progress log of run(): a log that cannot be read as "Iteration <i>: error is <C>"
        # at every requested iteration is a broken observation channel — the oracle on those values is not evaluated
        f = kv(line)
        o = kv(io)
        want = len([x for x in f.get("at", "").split(",") if x])
        got = len([x for x in o.get("snaps", "").split(";") if x])
        if o.get("logfmt", "ok") != "ok" or got != want:
            log_broken = ("broken", "obs:run-progress-log",
                          "the progress log of TSNE::run could not be read at the requested iterations (format %s, %d of %d "
                          "values): the logged KL error is not observed" % (o.get("logfmt", "?"), got, want))
    for key, sig, what in ORACLES.get(topic, []):
        if log_broken and key == "spec":
            continue
        v = m.get(key, "")
        if v.startswith("BAD"):
            fails.append(("fail", sig, what + ": " + v[:260]))
    if fails:
        return fails + ([log_broken] if log_broken else [])
    if log_broken:
        return log_broken
    c = m.get("cmp", "")
    if c.startswith("BAD") or c.startswith("model-ERR") or c.startswith("noobs") or mo.startswith("bad") or mo.startswith("ERR"):
        return ("broken", "corr:" + topic, "model and implementation disagree on %s: %s" % (topic, (c or mo)[:300]))
    if topic == "run" and m.get("stepm", "").startswith("BAD"):
        return ("broken", "corr:run-step", "an iteration of the Barnes-Hut branch of TSNE::run is not the step of the model "
                "of computeGradient + update rule from the previous map: " + m["stepm"][:300])
    if topic == "vps" and m.get("wf") == "BAD":
        return ("broken", "contract:vptree-build", "the dumped tsne::VpTree violates the construction contract (nth_element partition)")
    return None


def drop_points(line, keep):
    """sub-case of an X-based case keeping the points in `keep` (None if it would be ill-formed)"""
    f = kv(line)
    topic = line.split(" ", 1)[0]
    n, d = int(f["N"]), int(f["D"])
    xs = f["X"].split(",")
    pts = [xs[i * d:(i + 1) * d] for i in range(n)]
    sub = [pts[i] for i in keep]
    m = len(sub)
    if m < 2:
        return None
    f2 = dict(f, N=str(m), X=",".join(c for p in sub for c in p))
    if topic == "vps":
        if int(f["k"]) > m:
            return None
        f2["q"] = ",".join(map(str, range(m)))
    if topic == "gpk" and int(f["K"]) > m - 1:
        return None
    if topic == "gpd" and m < 3:
        return None
    order = [k for k in ("N", "D", "X", "perp", "K", "Kspec", "k", "rnd", "q") if k in f2]
    return topic + " " + " ".join("%s=%s" % (k, f2[k]) for k in order)


def shrink(ctx, binary, line, sig):
    topic = line.split(" ", 1)[0]
    if topic not in ("sqd", "gpd", "gpk", "vps"):
        return line
    n = int(kv(line)["N"])

    def failing(keep):
        l2 = drop_points(line, keep)
        if l2 is None:
            return False
        impl, model = run_lines(ctx, binary, [l2], timeout=60)
        v = verdict(l2, impl[0], model[0])
        vs = v if isinstance(v, list) else ([v] if v else [])
        return any(x[0] != "agree" and x[1] == sig for x in vs)
    keep = vlib.ddmin(list(range(n)), failing, max_tests=80)
    return drop_points(line, keep) or line


def judge(ctx, binary, lines, label, do_shrink=True, timeout=300):
    impl, model = run_lines(ctx, binary, lines, timeout=timeout)
    seen = set()
    for line, io, mo in zip(lines, impl, model):
        topic = line.split(" ", 1)[0]
        ctx.count(line, True)
        ctx.stat("topic:" + topic)
        if topic == "api":
            ctx.stat("api-range-non-identity" if " ids=" in line else "api-range-identity")
        ctx.cov["traces_validated_against_impl"] += 1
        m = kv(mo)
        c = m.get("cmp", "")
        if c.startswith("ok:"):
            parts = c[3:].split(":")
            ctx.stat("comparisons-exact", int(parts[0][1:]))
            ctx.stat("comparisons-approx", int(parts[1][1:]))
            if len(parts) > 2:
                ctx.stat("comparisons-skipped-near-tie", int(parts[2][1:]))
        elif c.startswith("skip"):
            ctx.stat("comparison-" + c.replace(":", "-"))
        if topic == "run" and " theta=0 " in line and m.get("dyn") in ("ok",) :
            ctx.stat("run-dynamics-agree")
        elif topic == "run" and " theta=0 " in line and m.get("dyn", "").startswith("BAD"):
            ctx.stat("run-dynamics-diverged")
            ctx.extra.setdefault("_dyn_example", (line, io, mo))
        for k in ("step", "stepm"):
            if topic == "run" and m.get(k, "").startswith("ok:"):
                parts = m[k].split(":")
                ctx.stat("run-iterations-checked-against-%s" % ("specified-step" if k == "step" else "model-step"), int(parts[1]))
                if int(parts[1]) > 252:
                    ctx.stat("run-exaggeration-and-momentum-switch-steps-checked")
                if int(parts[1]) >= 1000:
                    ctx.stat("run-cases-checked-through-the-last-iteration")
                if len(parts) > 2:
                    ctx.stat("run-step-replay-stopped-at-near-tie")
        if topic == "vps" and "fid" in m:
            a, b = m["fid"].split("/")
            ctx.stat("vptree-result-ids-identical", int(a))
            ctx.stat("vptree-queries", int(b))
            if m.get("mknn", "").startswith("BAD"):
                ctx.stat("vptree-model-also-misses-neighbour")
        v = verdict(line, io, mo)
        vs = v if isinstance(v, list) else ([v] if v else [])
        if os.environ.get("C17_DEBUG") and vs:
            ctx.log("verdict", [x[1] for x in vs], "\n    ", line[:4000], "\n    impl:", io[:300], "\n    model:", mo[:400])
        if not vs:
            if len(ctx.cov["samples"]) < 6 and topic not in [s.get("topic") for s in ctx.cov["samples"]]:
                ctx.sample({"topic": topic, "case": line[:600], "impl": io[:400], "model": mo[:400]})
            continue
        for kind, sig, what in vs:
            ctx.stat("verdict:" + sig)
            if kind == "agree":
                continue
            if sig in seen or sig in ctx.extra.setdefault("_reported", []):
                continue
            seen.add(sig)
            ctx.extra["_reported"].append(sig)
            small = shrink(ctx, binary, line, sig) if (kind == "fail" and do_shrink) else line
            i2, m2 = run_lines(ctx, binary, [small], timeout=120)
            v2 = verdict(small, i2[0], m2[0])
            v2s = v2 if isinstance(v2, list) else ([v2] if v2 else [])
            what2 = ([x[2] for x in v2s if x[1] == sig] or [what])[0]
            detail = {"impl": i2[0][:1500], "model": m2[0][:1500], "generator": label}
            if kind == "fail":
                ctx.fail(sig, what2, case=small, detail=detail)
            else:
                ctx.broken(sig, "correspondence c17_tsne (%s)" % topic, what2, case=small, detail=detail)


def corpus_lines():
    cdir = os.path.join(vlib.ROOT, "corpus", "C17")
    out = []
    if os.path.isdir(cdir):
        for f in sorted(os.listdir(cdir)):
            for l in open(os.path.join(cdir, f)):
                l = l.strip()
                if l and not l.startswith("#"):
                    out.append(l)
    return out


def correspond(ctx):
    r = ctx.rng
    quick = ctx.tier == "quick"
    # the public-API harness includes all of tapkee.hpp (slow to compile): build it in the background
    api = {}
    api_flags = [f for f in vlib.HARNESS_FLAGS if f not in ("-O1", "-g")] + ["-O0", "-g1"]

    def build_api():
        api["bin"], api["log"] = ctx.build_harness("c17_api.cpp", flags=api_flags)
    th = threading.Thread(target=build_api)
    th.start()
    binary, log = ctx.build_harness("c17_tsne.cpp")
    if not binary:
        ctx.broken("harness-build", "harness c17_tsne.cpp", "harness does not compile against /repo: " + log[-800:])
        th.join()
        return
    if getattr(ctx, "replay", None) and ctx.replay.get("case"):
        line = ctx.replay["case"]
        th.join()
        judge(ctx, api["bin"] if line.startswith("api ") else binary, [line], "replay", do_shrink=False)
        return
    cl = corpus_lines()
    if cl:
        judge(ctx, binary, [l for l in cl if not l.startswith("api ")], "corpus", do_shrink=False)
    plan = [("sqd", lambda: c_sqd(r.fork()), 120, 2000),
            ("zm", lambda: c_zm(r.fork()), 40, 600),
            ("sym", lambda: c_sym(r.fork()), 300, 6000),
            ("vps", lambda: c_vps(r.fork(), big=not quick), 250, 5000),
            ("gpd", lambda: c_gpd(r.fork()), 16, 300),
            ("gpk", lambda: c_gpk(r.fork()), 24, 400),
            ("gpk-coincident-and-cut-ties", lambda: c_gpk_special(r.fork()), 16, 300),
            ("exg", lambda: c_exg(r.fork(), fd=False), 80, 1500),
            ("exg-fd", lambda: c_exg(r.fork(), fd=True), 10, 200),
            ("bhg", lambda: c_bhg(r.fork()), 120, 3000),
            ("bhg-dims", lambda: c_bhg(r.fork(), d=r.choice([1, 3])), 6, 60),
            ("run-exact", lambda: c_run(r.fork(), bh=False), 10, 100),
            ("run-bh", lambda: c_run(r.fork(), bh=True), 8, 60),
            # Barnes-Hut branch with theta = 2^-20: every cell is opened, the specified step is the exact formula
            ("run-bh-theta-small", lambda: c_run(r.fork(), bh=True, theta="1:-20"), 6, 40)]
    for name, gen, nq, nt in plan:
        ctx.log("stage", name)
        lines = [gen() for _ in range(nq if quick else nt)]
        if name in ("run-exact", "run-bh-theta-small"):
            # the first case(s) of these stages are followed to the last iteration (999) of run(), the others to 260
            for i in range((1 if name == "run-exact" else 0) if quick else 4):
                lines[i] = lines[i].replace(" upto=260", " upto=999")
        for i in range(0, len(lines), 200):
            judge(ctx, binary, lines[i:i + 200], name)
    # the optimiser of TSNE::run vs the model after 51 iterations (exact branch; the trajectories of such tiny maps are
    # chaotic — a few per cent of the cases diverge through rounding alone —, so this is judged over the whole stage:
    # a wrong learning constant makes every case diverge)
    dist = ctx.extra.get("distribution", {})
    agree, div = dist.get("run-dynamics-agree", 0), dist.get("run-dynamics-diverged", 0)
    if agree + div >= 4 and div > agree:
        ex = ctx.extra.get("_dyn_example", ("", "", ""))
        ctx.broken("corr:run-dynamics", "correspondence c17_tsne (optimiser of TSNE::run)",
                   "the map after 51 iterations of the real TSNE::run differs from the model's optimiser (gains / momentum / update / "
                   "centring, replayed from the same Gaussian stream) in %d of %d cases" % (div, agree + div),
                   case=ex[0], detail={"impl": ex[1][:1500], "model": ex[2][:1500]})
    ctx.extra.pop("_dyn_example", None)
    # public API (test level) — includes target_dimension = 1 with theta > 0
    th.join()
    if not api.get("bin"):
        ctx.broken("harness-build", "harness c17_api.cpp", "API harness does not compile against /repo: " + (api.get("log") or "")[-800:])
    else:
        lines = [l for l in cl if l.startswith("api ")]
        lines += [c_api(r.fork(), 2, "1:-1", True), c_api(r.fork(), 2, "0", False), c_api(r.fork(), 1, "0", True),
                  c_api(r.fork(), 1, "1:-1", False)]
        if not quick:
            lines += [c_api(r.fork(), 2, r.choice(["0", "1:-1", TH_01])) for _ in range(12)]
            lines += [c_api(r.fork(), r.choice([1, 3]), "1:-1") for _ in range(4)]
        judge(ctx, api["bin"], lines, "api", do_shrink=False, timeout=900)
    ctx.extra.pop("_reported", None)
    ctx.cov["rule"] = ("per stage: integer point sets (squared distances, VP-tree search), dyadic point sets and perplexities (both perplexity "
                       "routines), random well-formed CSR matrices with dyadic values (symmetriser), symmetric dyadic P summing to one with "
                       "dyadic maps (exact and Barnes-Hut gradients, theta in {0.5, 0.1, 1e-6}), two separated clusters through the public API; "
                       "distinct by case text")
    ctx.assumptions += [
        "exp/log of the model side are rational enclosures with error <= 2^-100 (Model/RatFn.lean); stages containing exp/log/non-dyadic "
        "division are compared within 2^-30*scale, bisection runs whose decisions come within 2^-30 of a threshold are skipped (counted)",
        "std::nth_element is modelled by its contract (checked on the dumped tree of every case); the search is replayed on the implementation's own tree",
        "CSR inputs of the symmetriser have distinct column indices per row (what computeGaussianPerplexity produces for distinct neighbours)",
        "finite-difference check of the KL gradient and cluster separation are tests, not theorems",
    ]
