"""C02 — all three neighbour searches return exactly the k nearest other samples.
Model: lean/TapkeeVerif/Model/{Knn,VpTree,CoverTree,CoverBuild}.lean; theorems: Props/C02.lean; driver: lean/Driver/C02.lean;
harness: harness/c02_knn.cpp (+ knn_common.hpp): tapkee_internal::find_neighbors(method, begin, end, cb, k, false)
for Brute / VpTree / CoverTree under ASan+UBSan, with the vantage-point stream replayed through
CUSTOM_UNIFORM_RANDOM_FUNCTION."""
import hashlib
import os

import vlib
from checks import knn_gen as G

PROPERTY = "C02"
LEAN_MODULES = ["TapkeeVerif.Props.C02"]
LEAN_EXES = ["model_c02"]
REQUIRED_THEOREMS = [
    "TapkeeVerif.Knn.isExactKnn_iff",
    "TapkeeVerif.Knn.isExactKnn_relabel",
    "TapkeeVerif.Knn.bruteKnn_relabel",
    "TapkeeVerif.Knn.brute_exact",
    "TapkeeVerif.Knn.cover_wrapper_exact",
    "TapkeeVerif.Knn.vptree_build_inv",
    "TapkeeVerif.Knn.vptree_search_exact",
    "TapkeeVerif.Knn.three_methods_agree",
    "TapkeeVerif.Knn.CoverQuery.cover_query_fuel_suffices",
    "TapkeeVerif.Knn.CoverQuery.cover_query_fuel_mono",
    "TapkeeVerif.Knn.CoverQuery.cover_query_exact",
    "TapkeeVerif.Knn.CoverQuery.cover_tree_exact",
    "TapkeeVerif.Knn.CoverQuery.cover_copy_bound_refuted",
    "TapkeeVerif.Knn.CoverQuery.batchCreate_leaves",
    "TapkeeVerif.Knn.CoverQuery.batchCreate_wf",
    "TapkeeVerif.Knn.CoverQuery.batchCreate_leavesAt",
    "TapkeeVerif.Knn.CoverQuery.cover_tree_end_to_end",
    "TapkeeVerif.Knn.CoverQuery.cover_tree_total",
    "TapkeeVerif.Knn.CoverQuery.cover_top_uncovered_drops",
    "TapkeeVerif.Knn.CoverQuery.batchCreate_fuel_suffices",
    "TapkeeVerif.Knn.CoverQuery.batchCreate_fuel_mono",
    "TapkeeVerif.Knn.CoverQuery.batchCreate_total_wf",
    "TapkeeVerif.Knn.bruteKnn_admissible",
    "TapkeeVerif.Knn.coverSelect_admissible",
    "TapkeeVerif.Knn.vptree_build_admissible",
    "TapkeeVerif.Knn.popMaxFirst_admissible",
]
METHODS = ["brute", "vptree", "covertree"]


def common_flag():
    """knn_common.hpp is not part of vlib's harness cache key; make it one through a -D flag"""
    p = os.path.join(vlib.ROOT, "harness", "knn_common.hpp")
    return ["-DKNN_COMMON_SHA=0x" + hashlib.sha256(open(p, "rb").read()).hexdigest()[:8]]


def fields_of(out):
    d = {}
    for t in out.split():
        if "=" in t:
            k, v = t.split("=", 1)
            d[k] = v
    return d


# ----------------------------------------------------------------------------- one batch: impl, model, oracle
def _dumpable(line):
    """cover-tree cases whose tree the driver can read back exactly (integer distances, or integers scaled by 2^-sh):
    the real tree is dumped, certificate-checked (wfTree), the Lean model of the batch query is run on it and the
    Lean model of batch_create must build the same tree"""
    return " method=covertree " in line and " metric=L2 " not in line


DUMP_NMAX = 80      # every generated family stops at N = 64; only the large-N leg (N >= 300) is above


def _npts(line):
    for t in line.split():
        if t.startswith(("pts=", "m=", "km=")):
            return t.count(";") + 1
    return 0


def _run_chunk(ctx, binary, lines, brief):
    # no cap on the length of the case line any more (the driver has none): the tree is dumped for every cover-tree case
    # except metric=L2 (oracle-only by design) and N > DUMP_NMAX (large-N leg: implementation against the O(N^2) spec)
    lines = [l + " dump=1" if _dumpable(l) and _npts(l) <= DUMP_NMAX else l for l in lines]
    impl = ctx.run_impl_cases(binary, lines, timeout=1800)
    dl = []
    for l, io in zip(lines, impl):
        if io.startswith("abort:") or not io.startswith("ids="):
            dl.append(l + (" brief=1" if brief else ""))
        else:
            f = fields_of(io)
            extra = " ids=%s" % f.get("ids", "")
            if "raw" in f:
                extra += " raw=%s" % f["raw"]
            if "tree" in f:
                extra += " tree=%s" % f["tree"]
                if "gs" in f and "ds" in f:
                    extra += " gs=%s ds=%s" % (f["gs"], f["ds"])
            dl.append(l + extra + (" brief=1" if brief else ""))
    rc, model, err = ctx.run_model("model_c02", dl, timeout=3000)
    return impl, rc, model, err


def run_batch(ctx, binary, cases, brief=False):
    """returns per case (line, impl_line, driver_fields, driver_line); big batches are split over worker threads
    (each worker runs the harness and then the Lean driver on its chunk as separate processes)"""
    lines = [G.case_line("knn", c) for c in cases]
    chunk = 100
    if len(lines) <= chunk:
        parts = [_run_chunk(ctx, binary, lines, brief)]
    else:
        from concurrent.futures import ThreadPoolExecutor
        subs = [lines[i:i + chunk] for i in range(0, len(lines), chunk)]
        with ThreadPoolExecutor(max_workers=min(8, os.cpu_count() or 2)) as ex:
            parts = list(ex.map(lambda sub: _run_chunk(ctx, binary, sub, brief), subs))
    impl, model = [], []
    for im, rc, mo, err in parts:
        if rc != 0 or len(mo) != len(im):
            ctx.broken("model-driver", "model_c02", "model driver failed: rc=%s %s" % (rc, err[-300:]))
            return None
        impl += im
        model += mo
    if len(model) != len(lines):
        ctx.broken("model-driver", "model_c02", "model driver answered %d of %d lines" % (len(model), len(lines)))
        return None
    return list(zip(lines, impl, [fields_of(m) if not m.startswith("bad-case") else {"bad": m} for m in model], model))


def classify(c, io, mf):
    """None if fine, else (kind, signature, text) ; kind in fail|broken"""
    method = c["method"]
    if io.startswith("abort:"):
        return ("fail", "abort:%s:%s" % (method, io[len("abort:"):]),
                "find_neighbors(%s) aborts (%s) instead of returning neighbour lists" % (method, io[len("abort:"):]))
    if " foreign=" in io:
        return ("fail", "%s:foreign-id" % method,
                "find_neighbors(%s) on a range whose elements differ from their positions (rng=) called the callback with an "
                "argument that is not an element of the range (%s calls): a position (or other index) is passed where *iter is "
                "meant" % (method, io.rsplit(" foreign=", 1)[1].split()[0]))
    if "bad" in mf:
        return ("broken", "driver:bad-case", "driver rejected the case: " + mf["bad"])
    if "oracle" not in mf:
        return ("broken", "driver:no-oracle", "driver did not evaluate the oracle")
    if mf.get("nlists") == "bad":
        return ("fail", "oracle:%s:nlists" % method, "find_neighbors(%s) returned a wrong number of lists" % method)
    if mf["oracle"] != "ok":
        first = mf["oracle"][len("bad@"):].split(",")[0]
        i, reason = first.split(":")
        alt = [a for a in mf.get("alt", "").split(",") if a]
        if method == "covertree":
            if mf.get("cq") == "ok" and mf.get("wrap") == "ok":
                return ("fail", "cover-ties:%s" % reason,
                        "cover tree: the candidate sets returned by the query are exact, but find_neighbors_covertree_impl "
                        "takes the first k+1 entries of the unsorted set: wrong %s for sample %s" %
                        ("list length" if reason == "len" else "neighbour distances", i))
            if mf.get("cq") != "ok" and mf.get("wrap") == "ok":
                return ("fail", "cover-query", "cover tree: the batch query itself returns a candidate set different from "
                        "{j | d(i,j) <= k-th distance} (%s), so the neighbour list of sample %s is wrong (%s)" % (mf.get("cq"), i, reason))
            return ("fail", "oracle:covertree:%s" % reason, "cover tree result is not the exact k-NN (sample %s: %s; cq=%s wrap=%s)"
                    % (i, reason, mf.get("cq"), mf.get("wrap")))
        if reason == "len" and i in alt:
            return ("fail", "knn-dup:%s" % method,
                    "%s search returns a list whose length is not k for sample %s, which coincides with at least k+1 other "
                    "samples (F-KNN-DUP class: the query need not be among the k+1 selected)" % (method, i))
        return ("fail", "oracle:%s:%s" % (method, reason), "%s search result is not the exact k-NN (sample %s: %s)" % (method, i, reason))
    if mf.get("corr") != "ok":
        return ("broken", "corr:%s" % method, "model and implementation disagree at the observation level (%s) although the "
                "implementation's lists are exact" % mf.get("corr"))
    if method == "covertree" and mf.get("cq") != "ok":
        return ("broken", "cover-query-certificate", "cover-tree query returned a candidate set different from {j | d(i,j) <= k-th} (%s)"
                % mf.get("cq"))
    if method == "covertree" and str(mf.get("wf", "")).startswith("unparsed-tree"):
        return ("broken", "cover-tree-dump-malformed", "the dumped cover tree is structurally malformed (record count / child counts "
                "do not form one preorder tree): harness/driver protocol broken")
    if method == "covertree" and str(mf.get("wf", "")).startswith("unparsed"):
        mf["wf-unparsed"] = "1"      # protocol limitation of the dump (non-integer distance), never a verdict; counted in the evidence
    elif method == "covertree" and mf.get("wf") not in (None, "1"):
        return ("broken", "cover-tree-wf-certificate", "the cover tree built by batch_create is not well formed (wf=%s): first child "
                "carrying the parent's point / true parent distances / max_dist bounding all descendants / every sample once "
                "— the hypothesis of cover_query_exact" % mf.get("wf"))
    if method == "covertree" and mf.get("lf") not in (None, "1"):
        return ("broken", "cover-tree-leafscale-certificate", "a childless node of the cover tree built by batch_create does not "
                "carry leaf_scale (lf=%s) — the hypothesis of cover_query_fuel_suffices: the real query would split a leaf "
                "and read children[0]" % mf.get("lf"))
    if method == "covertree" and "bt" in mf:
        # the Lean model of batch_create (run with the scale values the real code computed) against the real tree
        if mf.get("bh") != "ok":
            return ("broken", "cover-build-hypothesis:%s" % mf.get("bh"), "the values of dist_of_scale the real code computed "
                    "violate the hypothesis of batchCreate_wf (%s: a negative dist_of_scale)" % mf.get("bh"))
        if mf.get("bf") != "ok":
            return ("broken", "cover-build-hypothesis:scales-%s" % mf.get("bf"), "the values of get_scale / dist_of_scale the real code "
                    "computed violate the hypothesis ScalesOk of batchCreate_fuel_suffices (%s: table = the harness did not tabulate "
                    "exactly the positive distances of the model, bracket = dist_of_scale(min scale - 3) < d <= dist_of_scale(max "
                    "scale + 1) fails for a distance d)" % mf.get("bf"))
        if mf["bt"] != "ok" or mf.get("bls") != "ok":
            return ("broken", "corr:cover-build", "Lean model of batch_create (batch_insert / split / dist_split / max_set / "
                    "set_leaf_scale, scale functions as computed by the real code) builds a tree different from the real one "
                    "(bt=%s bls=%s: first differing preorder record id/scale/nchildren/max_dist/parent_dist of the model)"
                    % (mf["bt"][:120], mf.get("bls")))
    if method == "covertree" and mf.get("mq") == "err":
        return ("broken", "cover-query-model-no-answer", "Lean model of the batch query did not answer on the real tree although "
                "its childless nodes carry leaf_scale (lf=1): contradicts cover_query_fuel_suffices (driver / model out of sync)")
    if method == "covertree" and mf.get("mq") not in (None, "ok"):
        return ("broken", "corr:cover-query", "Lean model of the batch query run on the real tree returns candidate sets different "
                "from the real query (%s)" % mf.get("mq"))
    if method == "covertree" and mf.get("queries") != "ok":
        return ("broken", "cover-query-results", "cover-tree batch query did not return one result per sample")
    return None


def shrink(ctx, binary, c, signature):
    """delta-debug the sample set (then k) while the same failure signature persists"""
    def sig_of(cc):
        if G.size(cc) < 2 or cc["k"] >= G.size(cc) or cc["k"] < 1:
            return None
        res = run_batch(ctx, binary, [cc])
        if not res:
            return None
        _, io, mf, _ = res[0]
        v = classify(cc, io, mf)
        return v[1] if v else None

    n = G.size(c)
    idx = vlib.ddmin(list(range(n)), lambda sub: sig_of(G.subset(c, sub)) == signature, max_tests=120)
    small = G.subset(c, idx)
    for k in range(1, small["k"]):
        cc = dict(small)
        cc["k"] = k
        if sig_of(cc) == signature:
            small = cc
            idx2 = vlib.ddmin(list(range(G.size(small))), lambda sub: sig_of(G.subset(small, sub)) == signature, max_tests=60)
            small = G.subset(small, idx2)
            break
    return small


def judge(ctx, binary, cases, label, brief=False):
    cases = [G.with_range(c) for c in cases]      # about half of the cases: element != position (rng=)
    res = run_batch(ctx, binary, cases, brief)
    if res is None:
        return
    for c, (line, io, mf, mraw) in zip(cases, res):
        n = G.size(c)
        ctx.count(line, n >= 3)
        ctx.stat("family:" + label)
        ctx.stat("method:" + c["method"])
        ctx.stat("cb:" + c.get("cb", "plain"))
        ctx.stat("range:" + G.range_kind(c))
        ctx.stat("N<=8" if n <= 8 else "N<=64" if n <= 64 else "N<=512" if n <= 512 else "N>512")
        ctx.cov["traces_validated_against_impl"] += 1
        if c["method"] == "covertree" and "wf" not in mf and not io.startswith("abort:"):
            ctx.stat("cover-cases-not-dumped:" + ("metric=L2(oracle-only)" if c.get("metric") == "L2" else
                                                  "N>%d(large-N leg)" % DUMP_NMAX if n > DUMP_NMAX else "other"))
        if io.startswith("ids=") and " ev=" in io:
            # distance / kernel evaluations and vantage draws the real code made (implementation-side diagnostic)
            try:
                ev = [int(x) for x in io.rsplit(" ev=", 1)[1].split()[0].split(",")]
                d = ctx.extra.setdefault("callback_evaluations", {})
                key = c["method"] + ":" + c.get("cb", "plain")
                e = d.setdefault(key, {"cases": 0, "samples": 0, "distance": 0, "kernel": 0, "vantage_draws": 0})
                e["cases"] += 1
                e["samples"] += n
                e["distance"] += ev[0]
                e["kernel"] += ev[1]
                e["vantage_draws"] += ev[2]
            except (ValueError, IndexError):
                ctx.stat("ev-unparsed")
        if mf.get("alt"):
            ctx.stat("cases-with-coincident-samples(>=k+1)")
        if mf.get("ties") not in (None, "0"):
            ctx.stat("cover-cases-with-boundary-ties")
        if str(mf.get("wf", "")).startswith("unparsed"):
            ctx.stat("cover-tree-dump-unparsed(certificate skipped)")
        elif "wf" in mf:
            ctx.stat("cover-trees-certified(wfTree)+model-query-run")
            if mf.get("lf") == "1":
                ctx.stat("cover-trees-certified(leavesAt leaf_scale)")
            try:
                qf = ctx.extra.setdefault("cover_query_fuel", {"max_queryFuel": 0, "trees": 0})
                qf["trees"] += 1
                qf["max_queryFuel"] = max(qf["max_queryFuel"], int(mf.get("qfuel", "0")))
            except ValueError:
                pass
            ctx.stat("fidelity:cover-query-order-" + mf.get("mqorder", "?"))
            if "bt" in mf:
                ctx.stat("cover-trees-compared-with-batchCreate-model:" + ("identical" if mf["bt"] == "ok" else "different"))
        v = classify(c, io, mf)
        if v is None:
            ctx.stat("agree")
            if len(ctx.cov["samples"]) < 4 and 4 <= n <= 7 and not brief:
                ctx.sample({"case": line, "impl": io, "driver": mraw})
            continue
        kind, sig, text = v
        ctx.stat("disagree:" + sig.split("@")[0][:60] + " family=" + label)
        if sig in ctx.seen_sigs:
            continue
        ctx.seen_sigs.add(sig)
        small = shrink(ctx, binary, c, sig)
        sline = G.case_line("knn", small)
        r2 = run_batch(ctx, binary, [small])
        detail = {"impl": r2[0][1][:2000], "driver": r2[0][3][:3000], "shrunk_from_N": n, "family": label,
                  "stderr": getattr(ctx, "last_abort_stderr", "")[-1500:] if io.startswith("abort:") else ""} if r2 else {}
        if kind == "fail":
            ctx.fail(sig, text + " [N=%d k=%d]" % (G.size(small), small["k"]), case=sline, detail=detail)
        else:
            ctx.broken(sig, "correspondence c02_knn (%s)" % sig, text, case=sline, detail=detail)


# ----------------------------------------------------------------------------- generation
def gen_case(r, family, nmax):
    if r.chance(2, 3):
        n = r.range(2, min(nmax, 12))
    else:
        n = r.range(2, nmax)
    sp = G.gen_space(r, n, family)
    n = G.size(sp)
    if n < 2:
        return None
    kk = r.below(10)
    if kk < 5:
        k = r.range(1, n - 1)
    elif kk < 7:
        k = n - 1
    elif kk < 8:
        k = max(1, n - 2)
    else:
        k = min(n - 1, r.choice([1, 2, 3, 4, 5, 8]))
    sp["k"] = k
    sp["vs"] = G.vantage_stream(r, n)
    return sp


def scale_boundary_cases(r, n):
    """samples on a line, the farthest one at distance nextafter^j(1.3^e) (j in -2..3) from sample 0, the others inside;
    coordinates are integers scaled by one power of two (exact mode)"""
    import math
    out = []
    for _ in range(n):
        e = r.range(0, 120)
        d = math.pow(1.3, e)
        j = r.range(-2, 3)
        for _ in range(abs(j)):
            d = math.nextafter(d, math.inf if j > 0 else 0.0)
        m, ex = math.frexp(d)
        mi = int(math.ldexp(m, 53))
        sh = 53 - ex
        if sh < 0 or sh > 1000:
            continue
        npts = r.range(2, 6)
        pts = [[0], [mi]] + [[r.below(mi)] for _ in range(npts - 2)]
        if r.chance(1, 2) and npts > 2:          # the farthest sample need not come second
            pts[1], pts[-1] = pts[-1], pts[1]
        for method in ("covertree", "brute"):
            out.append({"method": method, "k": r.range(1, npts - 1), "cb": "plain", "metric": "L1", "sh": sh, "pts": pts, "vs": [0]})
    return out


def corpus_cases(prop, topic):
    out = []
    cdir = os.path.join(vlib.ROOT, "corpus", prop)
    if os.path.isdir(cdir):
        for f in sorted(os.listdir(cdir)):
            for l in open(os.path.join(cdir, f)):
                l = l.strip()
                if l.startswith(topic + " "):
                    out.append(G.parse_line(l)[1])
    return out


def isomap_leg(ctx, nsets, prop_sig):
    """End-to-end (thorough tier: the harness includes all of tapkee.hpp): Isomap through the public API with
    num_neighbors / neighbors_method / check_connectivity on tie-free exact-mode data, observed at the eigensolver hook.
    The matrix handed to the eigensolver depends on the data only through the neighbourhood graph, so it must be
    bit-identical for Brute / VpTree / CoverTree; with check_connectivity it must be finite and nothing may throw."""
    from checks import c03 as C3
    binary, log = ctx.build_harness("c02_isomap.cpp", extra=common_flag())
    if not binary:
        ctx.broken("harness-build:isomap", "harness c02_isomap.cpp", "harness does not compile: " + log[-1200:])
        return
    r = ctx.rng
    cases = []
    for i in range(nsets):
        n = r.range(6, 24)
        sp = C3.data_clusters(r.fork(), n) if i % 3 else C3.data_chain(r.fork(), n)
        if sp is None or G.size(sp) < 5:
            continue
        sp.update({"k": r.range(3, min(6, G.size(sp) - 1)), "check": "1" if i % 4 else "0", "vs": G.vantage_stream(r, n)})
        cases.append(sp)
    lines = [G.case_line("iso", c) for c in cases]
    outs = ctx.run_impl_cases(binary, lines, env={"OMP_NUM_THREADS": "1"}, timeout=3000)
    for c, line, o in zip(cases, lines, outs):
        ctx.count(line, True)
        ctx.stat("isomap-end-to-end")
        ctx.cov["traces_validated_against_impl"] += 1
        if o.startswith("abort:"):
            ctx.fail(prop_sig + ":isomap-abort:" + o[6:], "Isomap through the public API aborts (%s)" % o[6:], case=line, detail={"impl": o})
            continue
        f = fields_of(o)
        if f.get("same") != "1":
            ctx.fail(prop_sig + ":isomap-methods-differ", "Isomap hands different matrices to the eigensolver depending on "
                     "neighbors_method on tie-free data (the neighbourhood graphs differ): %s" % o, case=line, detail={"impl": o})
        elif c["check"] == "1" and not all(f.get(m, "").startswith("ok:") and f[m].endswith(":1") for m in METHODS):
            ctx.fail(prop_sig + ":isomap-check-connectivity", "Isomap with check_connectivity=true throws or produces a non-finite "
                     "matrix (unreachable pairs in the neighbourhood graph): %s" % o, case=line, detail={"impl": o})
        else:
            ctx.stat("isomap-end-to-end:" + ("identical-finite" if f.get("brute", "").endswith(":1") else "identical-observation-class"))


def default_vantage_leg(ctx, binary, cases):
    """the same harness built WITHOUT CUSTOM_UNIFORM_RANDOM_FUNCTION: the VP-tree draws its vantage points from its own
    generator (next_vantage_fraction).  The model cannot replay that stream and need not: the sorted distance lists do
    not depend on it, so the model comparison at that level and the oracle both apply."""
    cs = []
    for c in cases:
        cc = dict(c)
        cc["method"] = "vptree"
        cc["dv"] = "1"      # marks the case as one for the default-vantage build (used by `check.py replay`)
        cc.pop("vs", None)
        cs.append(cc)
    judge(ctx, binary, cs, "vptree-own-vantage-generator", brief=True)


def correspond(ctx):
    from concurrent.futures import ThreadPoolExecutor
    dv_flags = [f for f in vlib.HARNESS_FLAGS if f not in ("-O1", "-g")] + ["-O0", "-g1"]
    with ThreadPoolExecutor(max_workers=2) as ex:
        fut = ex.submit(ctx.build_harness, "c02_knn.cpp", "c02_knn_dv", common_flag() + ["-DKNN_DEFAULT_VANTAGE"], dv_flags)
        binary, log = ctx.build_harness("c02_knn.cpp", extra=common_flag())
        dv_binary, dv_log = fut.result()
    if not binary:
        ctx.broken("harness-build", "harness c02_knn.cpp", "harness does not compile against the repository: " + log[-1500:])
        return
    if not dv_binary:
        ctx.broken("harness-build:default-vantage", "harness c02_knn.cpp -DKNN_DEFAULT_VANTAGE",
                   "harness does not compile against the repository: " + dv_log[-1500:])
    ctx.seen_sigs = set()
    r = ctx.rng
    quick = ctx.tier == "quick"
    # a replayed case runs alone
    rp = getattr(ctx, "replay", None)
    if rp and rp.get("case"):
        rc = G.parse_line(rp["case"])[1]
        rc["_norng"] = True      # exactly the recorded range (rng= is part of the case line when there was one)
        judge(ctx, dv_binary if (rc.get("dv") == "1" and dv_binary) else binary, [rc], "replay")
        return
    corpus = corpus_cases("C02", "knn")
    if corpus:
        judge(ctx, binary, corpus, "corpus")
    # the 7x7 grid of the property text, every k in a small range, all methods
    fixed = []
    grid = [[x, y] for x in range(7) for y in range(7)]
    for method in METHODS:
        for k in ([1, 3, 4, 5, 8, 48] if quick else list(range(1, 49))):
            for metric in ("L1", "Linf"):
                fixed.append({"method": method, "k": k, "cb": "plain", "metric": metric, "pts": grid, "vs": [k * 7919 % (1 << 20)]})
    judge(ctx, binary, fixed, "grid7x7")
    ncases = 420 if quick else 9000
    nmax = 64
    batch = {}
    for n in range(ncases):
        family = G.FAMILIES[n % len(G.FAMILIES)]
        c = gen_case(r.fork(), family, nmax if family != "generic" else 40)
        if c is None:
            continue
        for method in METHODS:
            cc = dict(c)
            cc["method"] = method
            batch.setdefault(family, []).append(cc)
    for family, cs in batch.items():
        for i in range(0, len(cs), 600):
            judge(ctx, binary, cs[i:i + 600], family)
    # the library's own vantage generator (second build), on a slice of the generated cases of every family
    if dv_binary:
        dv_cases = [cs[j] for cs in batch.values() for j in range(0, len(cs), 3)][: (400 if quick else 4000)]
        default_vantage_leg(ctx, dv_binary, dv_cases)
        dvv = []
        for n in range(120 if quick else 1500):
            rr = r.fork()
            npts = rr.range(20, 60)
            dvv.append({"cb": "plain", "metric": rr.choice(["L1", "Linf"]), "pts": G.pts_volume(rr, npts),
                        "k": rr.choice([1, 2, 3, 5, 8])})
        default_vantage_leg(ctx, dv_binary, dvv)
    # boundary of the cover tree's scale functions: the largest distance from the first sample is one of the doubles
    # next to a power of 1.3, where get_scale = ceil(log d / log 1.3) and dist_of_scale = pow(1.3, s) disagree by
    # rounding (F-COVER-TOP: the farthest samples were dropped from the tree)
    judge(ctx, binary, scale_boundary_cases(r.fork(), 60 if quick else 1500), "cover-scale-boundary")
    # exhaustive k for small N
    small = []
    for n in range(24 if quick else 250):
        family = G.FAMILIES[(n * 5) % len(G.FAMILIES)]
        sp = G.gen_space(r.fork(), r.range(2, 9), family)
        nn = G.size(sp)
        for k in range(1, nn):
            for method in METHODS:
                cc = dict(sp)
                cc.update({"k": k, "method": method, "vs": G.vantage_stream(r, nn)})
                small.append(cc)
    for i in range(0, len(small), 600):
        judge(ctx, binary, small[i:i + 600], "every-k-small-N")
    # high-volume leg on generic (practically tie-free) data: rare geometric configurations of the pruning bounds.
    # >= 10^5 cover-tree queries in quick; every list is judged by the Lean oracle; L2 = the library's Euclidean distance
    nvol = 2600 if quick else 20000
    vol = []
    for n in range(nvol):
        rr = r.fork()
        npts = rr.range(30, 60)
        if n % 6 == 5:
            # kernel callbacks with wide values (k(x,x) up to 2^41) in the volume leg too
            sp = G.gen_space(rr, npts, "kernel-lin-wide")
        else:
            sp = {"cb": "plain", "metric": rr.choice(["L1", "Linf", "L2"]), "pts": G.pts_volume(rr, npts)}
        methods = ["covertree"] + (["brute", "vptree"] if n % 8 == 0 else [])
        k = rr.choice([1, 1, 2, 3, 4, 5, 8])
        for method in methods:
            cc = dict(sp)
            cc.update({"k": k, "method": method, "vs": G.vantage_stream(rr, npts)})
            vol.append(cc)
    nq = sum(G.size(c) for c in vol if c["method"] == "covertree")
    ctx.extra["volume_leg"] = {"sets": nvol, "cover_tree_queries": nq}
    for i in range(0, len(vol), 800):
        judge(ctx, binary, vol[i:i + 800], "volume-generic", brief=True)
    # large N: implementation against the O(N^2) specification (the theorems license the model side to be the spec)
    big = []
    sizes = [300] if quick else [500, 1000, 2000]
    for nbig in sizes:
        for family in (["lattice", "dups", "kernel-lin-wide"] if quick else
                       ["lattice", "dups", "clustered", "grid-big", "kernel-lin", "kernel-lin-wide", "wide-mantissa"]):
            rr = r.fork()
            if family == "grid-big":
                side = int(nbig ** 0.5)
                sp = {"cb": "plain", "metric": "L1", "pts": [[x, y] for x in range(side) for y in range(side)]}
            elif family == "lattice":
                sp = {"cb": "plain", "metric": rr.choice(["L1", "Linf"]),
                      "pts": [[rr.below(40), rr.below(40)] for _ in range(nbig)]}
            else:
                sp = G.gen_space(rr, nbig, family)
            for method in METHODS:
                cc = dict(sp)
                cc.update({"k": rr.choice([1, 5, 10, 15]), "method": method, "vs": G.vantage_stream(rr, nbig)})
                big.append(cc)
    for cc in big:
        judge(ctx, binary, [cc], "large-N", brief=True)
    if not quick:
        isomap_leg(ctx, 400, "c02")
    dist = ctx.extra.get("distribution", {})
    if not dist.get("cover-trees-certified(wfTree)+model-query-run") or not dist.get("cover-trees-compared-with-batchCreate-model:identical"):
        ctx.broken("cover-certificate-never-run", "correspondence c02_knn (tree dump / wfTree / batchCreate / query model)",
                   "no cover tree was dumped, certified and compared with the Lean models in this run (driver stopped emitting "
                   "wf= / bt=?)")
    if dist.get("cover-cases-not-dumped:other"):
        ctx.broken("cover-cases-not-dumped", "correspondence c02_knn (tree dump)", "%d cover-tree cases outside the two declared "
                   "exclusions (metric=L2, N > %d) were not dumped" % (dist["cover-cases-not-dumped:other"], DUMP_NMAX))
    ctx.cov["rule"] = ("exact-mode sample sets (integer lattices incl. the 7x7 grid, duplicated samples, clusters with 10^6 scale "
                       "ratio, collinear sets whose diameter is a double next to a power of 1.3 (cover-tree scale boundary), dyadic generic data in 1..50 dims, tree/path/ultrametric integer matrices, powers-of-two "
                       "ultrametrics up to 2^60, PSD integer kernels with perfect-square induced distances) x {Brute, VpTree, "
                       "CoverTree} x k in [1,N-1], N in 2..%d plus N up to %d against the O(N^2) specification; distinct by "
                       "case text; non-trivial = N >= 3" % (nmax, sizes[-1]))
    ctx.assumptions += [
        "exact mode: all coordinates/distances/kernel values are integers or dyadics below 2^53, so the doubles the C++ "
        "code computes are exact and the driver's integer recomputation of every distance is the same number",
        "metric=L2 (volume leg and corpus only, generic integer coordinates): the harness uses sqrt of the exact squared "
        "distance, the driver the squared distance itself; sqrt is injective on these integers, so both order samples "
        "identically; sums of rounded distances inside the searches are outside exact mode (oracle-only leg)",
        "the vantage-point stream is supplied through CUSTOM_UNIFORM_RANDOM_FUNCTION (multiples of 2^-20); theorems hold "
        "for every stream",
        "std::nth_element, std::partial_sort and std::priority_queue are modelled by their postconditions (theorems hold for "
        "any admissible outcome); the executable model instance uses a stable sort / first-maximum pop and is compared at the "
        "level of sorted distance lists (brute, VP-tree) resp. entry by entry (cover wrapper: std::pair's operator< is total)",
        "cover tree construction: get_scale = ceil(log d / log 1.3) and dist_of_scale = pow(1.3, s) are parameters of the "
        "Lean model of batch_create (theorems hold for every get_scale and every non-negative dist_of_scale; termination "
        "needs them to bracket the positive distances: ScalesOk); the harness prints the values the real member functions "
        "return for every positive distance between two samples and every scale in [min-3, max+1], the driver evaluates the "
        "hypotheses on them, runs the model with them and with exactly the fuel of batchCreate_fuel_suffices, and the "
        "resulting tree must equal the dumped real tree record by record (point, scale, number of children, max_dist, "
        "parent_dist, children order); int / short / unsigned short fields are unbounded integers in the model "
        "(|scale| < 5600 for doubles, fewer than 65536 children per node)",
        "cover tree query: the real tree is additionally certificate-checked on every run (wfTree and leavesAt leaf_scale, "
        "both also theorems about the construction: batchCreate_wf, batchCreate_leavesAt) and the Lean model of the batch "
        "query is run on it with the fuel queryFuel = height + innerScale + 1 of cover_query_fuel_suffices (proved "
        "sufficient and fuel-independent; candidate sets must equal the real query's; halfsort = identity in the model); "
        "CandsOk and equality with {j | d(i,j) <= (k+1)-th distance} are evaluated on the real candidate sets; the model "
        "of the wrapper runs on the real candidate sets",
    ]
