"""C03 — check_connectivity guarantees a graph on which all geodesics are finite, order-independently.
Model: lean/TapkeeVerif/Model/Connected.lean; theorems: Props/C03.lean; driver: lean/Driver/C03.lean;
harness: harness/c03_conn.cpp (is_connected, find_neighbors(..., check_connectivity=true),
compute_shortest_distances_matrix on the returned lists) under ASan+UBSan."""
import itertools
import os

import vlib
from checks import knn_gen as G
from checks.c02 import common_flag, corpus_cases, fields_of

PROPERTY = "C03"
LEAN_MODULES = ["TapkeeVerif.Props.C03"]
LEAN_EXES = ["model_c03"]
REQUIRED_THEOREMS = [
    "TapkeeVerif.Connected.isConnected_iff",
    "TapkeeVerif.Connected.C03_geodesics_finite",
    "TapkeeVerif.Connected.k_raised_only_if_needed",
    "TapkeeVerif.Connected.findNeighbors_terminates",
    "TapkeeVerif.Connected.decision_order_independent",
    "TapkeeVerif.Connected.result_order_independent",
    "TapkeeVerif.Connected.C03_geodesic_matrix_finite",
    "TapkeeVerif.Connected.stronglyConnected_sound",
    "TapkeeVerif.Connected.exactKnn_unique_of_tieFree",
    "TapkeeVerif.Connected.reach_from_first_alone_refuted",
    "TapkeeVerif.Connected.findNeighbors_unchecked",
    "TapkeeVerif.Connected.reachesAll_iff_reach",
    "TapkeeVerif.Connected.stronglyConnected_order_independent",
]


def translate(ctx):
    """Props.C03 imports Props.C04 (C03_geodesic_matrix_finite joins StronglyConnected to C04's Dijkstra model), whose
    closure contains the generated Gen/IsomapSteps.lean: regenerate it from the source as C04 does, so that C03 run alone
    never builds against a stale table"""
    from checks import c04
    c04.translate(ctx)
METHODS = ["brute", "vptree", "covertree"]
# the Dijkstra of routines/isomap.hpp opens an OpenMP region per call; thread count is C15's subject, not C03's
OMP1 = {"OMP_NUM_THREADS": "1"}


# ----------------------------------------------------------------------------- digraphs (is_connected)
def conn_line(g):
    return "conn N=%d lists=%s" % (len(g), ";".join(",".join(str(w) for w in l) for l in g))


def relabel(g, perm):
    """sample u of the new order is sample perm[u] of the old one"""
    inv = [0] * len(perm)
    for new, old in enumerate(perm):
        inv[old] = new
    return [[inv[w] if w < len(inv) else w for w in g[old]] for old in perm]


def g_random(r, n, k):
    return [r.shuffle([w for w in range(n) if w != u])[:k] for u in range(n)]


def g_chain(r, n, k):
    """u -> u+1 (one way), padded with back edges near u"""
    g = []
    for u in range(n):
        l = [(u + 1) % n] if (u + 1 < n or r.chance(1, 2)) else [max(0, u - 1)]
        while len(l) < k:
            w = r.below(u + 1)
            if w != u and w not in l:
                l.append(w)
            elif u == 0 or len(l) >= u:
                l.append((u + 1 + len(l)) % n)
        g.append(l[:k])
    return g


def g_star(r, n, k):
    """every vertex points into a hub set (into 0 or out of 0 depending on the relabeling)"""
    hub = list(range(k + 1))
    g = []
    for u in range(n):
        l = [h for h in hub if h != u][:k]
        g.append(l)
    if r.chance(1, 2) and n > k + 1:
        # hub vertex 0 also points at a far vertex
        g[0][-1] = n - 1
    return g


def g_cliques(r, n, k):
    """two groups, all edges inside the groups, plus one-way bridges from group A to group B"""
    a = max(k + 1, n // 2)
    a = min(a, n - 1)
    A = list(range(a))
    B = list(range(a, n))
    g = []
    for u in range(n):
        grp = A if u < a else B
        l = r.shuffle([w for w in grp if w != u])[:k]
        while len(l) < k:
            cand = [w for w in range(n) if w != u and w not in l]
            l.append(r.choice(cand))
        g.append(l)
    nb = r.range(0, 2)
    for _ in range(nb):
        u = r.choice(A)
        if B:
            g[u][r.below(k)] = r.choice(B)
    return g


DIGRAPH_GENS = [("random", g_random), ("chain", g_chain), ("star", g_star), ("cliques", g_cliques)]


def all_regular_digraphs(n, k):
    per = []
    for u in range(n):
        others = [w for w in range(n) if w != u]
        per.append([list(c) for c in itertools.combinations(others, k)])
    for choice in itertools.product(*per):
        yield [list(l) for l in choice]


def judge_conn(ctx, binary, groups, label):
    """groups: list of lists of graphs; the graphs of one group are relabelings of the first one"""
    flat = [g for grp in groups for g in grp]
    lines = [conn_line(g) for g in flat]
    impl = ctx.run_impl_cases(binary, lines, env=OMP1)
    rc, model, err = ctx.run_model("model_c03", lines)
    if rc != 0 or len(model) != len(lines):
        ctx.broken("model-driver", "model_c03", "model driver failed: rc=%s %s" % (rc, err[-300:]))
        return
    pos = 0
    for grp in groups:
        verdicts = []
        for g in grp:
            line, io, mo = lines[pos], impl[pos], model[pos]
            pos += 1
            mf = fields_of(mo)
            n = len(g)
            ctx.count(line, n >= 3)
            ctx.stat("conn:" + label)
            ctx.cov["traces_validated_against_impl"] += 1
            if io.startswith("abort:"):
                if mf.get("c") == "oob":
                    ctx.stat("conn:abort-matches-model-oob")
                else:
                    report(ctx, "fail", "abort:is_connected:" + io[6:], "is_connected aborts (%s) on lists the model reads in bounds" % io[6:],
                           line, {"impl": io, "model": mo})
                verdicts.append(None)
                continue
            f = fields_of(io)
            verdicts.append(f.get("c"))
            if f.get("c") == "1" and (mf.get("sc") == "0" or f.get("fin") == "0"):
                ctx.stat("conn:accepted-not-strongly-connected")
                report(ctx, "fail", "conn-dir:accepts", "is_connected returns true for a graph on which compute_shortest_distances_matrix "
                       "leaves unreachable pairs (reachability is tested from sample 0 along directed edges only)", line,
                       {"impl": io, "model": mo})
                continue
            if f.get("c") == "0" and mf.get("sc") == "1":
                report(ctx, "fail", "conn:rejects-strongly-connected", "is_connected returns false for a graph on which every geodesic is "
                       "finite (k would be raised although not needed)", line, {"impl": io, "model": mo})
                continue
            if mf.get("c") != f.get("c"):
                if mf.get("c") == "oob":
                    ctx.stat("conn:model-oob-impl-survives")   # reading past a vector without a fault: not comparable
                    continue
                report(ctx, "broken", "corr:is_connected", "is_connected: model says %s, implementation says %s" % (mf.get("c"), f.get("c")),
                       line, {"impl": io, "model": mo}, broken="correspondence c03_conn (is_connected vs Connected.isConnected)")
                continue
            if f.get("fin") in ("0", "1") and f["fin"] != mf.get("sc"):
                report(ctx, "broken", "corr:dijkstra-vs-stronglyConnected", "finiteness of compute_shortest_distances_matrix (%s) differs from "
                       "the Lean oracle stronglyConnected (%s)" % (f["fin"], mf.get("sc")), line, {"impl": io, "model": mo},
                       broken="oracle stronglyConnected vs compute_shortest_distances_matrix")
                continue
            ctx.stat("conn:agree")
        vs = [v for v in verdicts if v is not None]
        if len(set(vs)) > 1:
            a = grp[verdicts.index("1")]
            b = grp[verdicts.index("0")]
            ctx.stat("conn:order-dependent-groups")
            report(ctx, "fail", "conn-dir:order-dependent", "is_connected gives different verdicts for the same graph under two sample "
                   "orders (true for the first, false for the second)", conn_line(a) + " || " + conn_line(b),
                   {"first": conn_line(a), "second": conn_line(b)})


def shrink_conn(ctx, binary, g, what):
    """remove vertices (and redirect edges to them) while is_connected still accepts a graph with infinite geodesics"""
    def still(sub):
        sub = sorted(sub)
        if len(sub) < 2:
            return False
        idx = {v: i for i, v in enumerate(sub)}
        k = len(g[0])
        h = []
        for v in sub:
            l = [idx[w] for w in g[v] if w in idx]
            if len(l) < 1:
                return False
            h.append(l)
        kk = min(len(l) for l in h)
        h = [l[:kk] for l in h]
        out = ctx.run_impl_cases(binary, [conn_line(h)], env=OMP1)
        f = fields_of(out[0]) if out and not out[0].startswith("abort:") else {}
        still.last = h
        return f.get("c") == "1" and f.get("fin") == "0"
    still.last = g
    best = vlib.ddmin(list(range(len(g))), still, max_tests=80)
    still(best)
    return conn_line(still.last)


def report(ctx, kind, sig, text, case, detail, broken=None, shrinker=None):
    if sig in ctx.seen_sigs:
        return
    ctx.seen_sigs.add(sig)
    if shrinker:
        try:
            small = shrinker()
            detail = {"shrunk_from": case[:1500], "unshrunk": detail}
            case = small
            text += " [shrunk: %d samples]" % max(G.size(G.parse_line(p)[1]) for p in small.split("||")) if small.startswith("fn ") else ""
        except Exception as ex:  # keep the unshrunk case
            detail = dict(detail)
            detail["shrink_error"] = repr(ex)
    if kind == "fail":
        ctx.fail(sig, text, case=case, detail=detail)
    else:
        ctx.broken(sig, broken or sig, text, case=case, detail=detail)


# ----------------------------------------------------------------------------- data sets (find_neighbors with check)
def tie_free(pts, metric):
    n = len(pts)
    for i in range(n):
        ds = []
        for j in range(n):
            if i == j:
                continue
            d = [abs(a - b) for a, b in zip(pts[i], pts[j])]
            ds.append(sum(d) if metric == "L1" else max(d))
        if len(set(ds)) != len(ds) or 0 in ds:
            return False
    return True


def data_clusters(r, n, tie_free_wanted=True):
    """clusters of unequal size and density, optionally outliers; distinct samples"""
    d = r.choice([1, 2, 3])
    metric = r.choice(["L1", "Linf"])
    for _ in range(40):
        nc = r.range(1, 3)
        centres = [[r.below(1 << 12) * (1 << 10) for _ in range(d)] for _ in range(nc)]
        spread = [r.choice([1 << 6, 1 << 8, 1 << 10, 1 << 12]) for _ in range(nc)]
        weights = [r.range(1, 4) for _ in range(nc)]
        pts = []
        nout = r.choice([0, 0, 1, 1, 2])
        for i in range(n - nout):
            c = r.below(sum(weights))
            ci = 0
            while c >= weights[ci]:
                c -= weights[ci]
                ci += 1
            pts.append([centres[ci][t] + r.below(spread[ci]) for t in range(d)])
        for _ in range(nout):
            pts.append([r.below(1 << 12) * (1 << 12) + (1 << 24) for _ in range(d)])
        pts = r.shuffle(pts)
        if len({tuple(p) for p in pts}) != len(pts):
            continue
        if not tie_free_wanted or tie_free(pts, metric):
            return {"cb": "plain", "metric": metric, "pts": pts}
    return None


def data_chain(r, n):
    """points on a line with growing gaps: the k-NN graph points backwards only"""
    x = 0
    pts = []
    gap = 1
    for i in range(n):
        pts.append([x])
        gap = gap * 2 + r.below(2) if r.chance(1, 2) else gap + 1 + r.below(3)
        x += gap
    if r.chance(1, 2):
        pts = pts[::-1]
    if r.chance(1, 3):
        pts = r.shuffle(pts)
    return {"cb": "plain", "metric": "L1", "pts": pts} if tie_free(pts, "L1") else None


def data_lattice(r, n):
    """distinct lattice points (ties!): exercises the recursion on the implementation's own tie-breaks"""
    d = r.choice([1, 2])
    side = r.choice([4, 6, 10])
    seen = set()
    pts = []
    for _ in range(4 * n):
        p = tuple(r.below(side) * (1 if r.chance(4, 5) else 50) for _ in range(d))
        if p not in seen:
            seen.add(p)
            pts.append(list(p))
        if len(pts) == n:
            break
    return {"cb": "plain", "metric": r.choice(["L1", "Linf"]), "pts": pts} if len(pts) >= 3 else None


def data_kernel(r, n):
    xs = sorted({r.below(1 << 10) * (1 if r.chance(2, 3) else 1 << 8) for _ in range(n)})
    pts = r.shuffle([[x] for x in xs])
    if len(pts) < 3 or not tie_free(pts, "L1"):
        return None
    return {"cb": "kernel", "kern": "lin", "pts": pts}


def fn_verdict(c, io, mf):
    """None if fine, else (kind, signature, text)"""
    method = c["method"]
    if io.startswith("abort:skipped"):
        return ("skip", "skipped-after-repeated-aborts", "")
    if io.startswith("abort:"):
        return ("fail", "abort:fn:%s:%s" % (method, io[6:]), "find_neighbors(%s, check_connectivity=true) aborts / does not return "
                "(%s)" % (method, io[6:]))
    f = fields_of(io)
    if "foreign" in f:
        return ("fail", "%s:foreign-id" % method,
                "find_neighbors(%s, check_connectivity=%s) on a range whose elements differ from their positions (rng=) called "
                "the callback with an argument that is not an element of the range (%s calls): a position is passed where "
                "*iter is meant" % (method, c.get("check", "1"), f["foreign"]))
    if "mtried" not in mf:
        return ("broken", "driver:fn", "driver rejected the case: %s" % mf)
    if c.get("check", "1") == "1" and (f.get("fin") == "0" or (mf.get("sc") == "0" and mf.get("uni") == "1")):
        return ("fail", "conn-dir:fn", "find_neighbors(.., check_connectivity=true) returns a %s-neighbour graph that it reports as "
                "connected, but compute_shortest_distances_matrix on it has unreachable pairs (infinite geodesics)" % f.get("kfinal", "?"))
    if mf.get("fexact") not in (None, "ok"):
        return ("fail", "fn:final-lists-not-exact:%s" % method, "find_neighbors(%s, .., check_connectivity) returns lists that are not the "
                "exact %s-NN lists of the samples (sample %s)" % (method, f.get("kfinal", "?"), mf["fexact"][4:]))
    if mf.get("exact") != "ok":
        return ("skip", "c02-inexact-lists", "")
    if mf["mtried"] in ("oob", "fuel"):
        return ("broken", "corr:fn-model-" + mf["mtried"], "model recursion ends in %s on lists the implementation survived" % mf["mtried"])
    if mf.get("same") != "1":
        return ("broken", "corr:find_neighbors", "recursion of find_neighbors: model tried k=%s (final %s), implementation returned "
                "lists of k=%s (or different lists for that k)" % (mf.get("mtried"), mf.get("mk"), f.get("kfinal")))
    if str(mf.get("seq", "-")).startswith("diff"):
        return ("broken", "corr:find_neighbors-rounds", "recursion of find_neighbors: the implementation performed %s searches "
                "(counted through the distance callback: N evaluations d(x,x) per search), the model tried k=%s"
                % (mf["seq"][5:], mf.get("mtried")))
    if f.get("fin") in ("0", "1") and f["fin"] != mf.get("sc"):
        return ("broken", "corr:dijkstra-vs-stronglyConnected", "finiteness of geodesics (%s) differs from stronglyConnected (%s)"
                % (f["fin"], mf.get("sc")))
    if mf.get("uni") != "1":
        return ("fail", "fn:nonuniform:%s" % method, "find_neighbors(%s) returns lists of unequal length / out of range" % method)
    if c.get("check", "1") == "1" and (mf.get("sc") != "1" or f.get("fin") == "0"):
        return ("fail", "conn-dir:fn", "find_neighbors(.., check_connectivity=true) returns a %s-neighbour graph that it reports as "
                "connected, but compute_shortest_distances_matrix on it has unreachable pairs (infinite geodesics)" % mf.get("mk"))
    if mf.get("need") != "ok":
        return ("fail", "fn:k-raised-unnecessarily", "k was raised although the graph for k=%s was already strongly connected" % mf["need"][4:])
    return None


def run_cases_failfast(ctx, binary, lines, max_aborts=3):
    """like ctx.run_impl_cases, but after `max_aborts` aborted cases (crash / sanitizer / per-case watchdog) the
    remaining cases of the batch are not run any more (a hang per case would otherwise cost the watchdog time each)"""
    outs, todo, aborts = [], list(lines), getattr(ctx, "fn_aborts", 0)
    while todo:
        if aborts >= max_aborts:
            outs += ["abort:skipped-after-repeated-aborts"] * len(todo)
            break
        rc, out, err = ctx.run_impl(binary, todo, env=OMP1, timeout=1800)
        if rc == 0 and len(out) == len(todo):
            outs += out
            break
        n = min(len(out), len(todo))
        outs += out[:n]
        if n == len(todo):
            break
        summ = ctx.sanitizer_summary(err) or ("timeout" if rc in (-999, -14) else "crash:rc=%d" % rc)
        if summ == "timeout":
            # a watchdog hit may be machine load: the case is re-run alone once before it is believed
            rc2, out2, err2 = ctx.run_impl(binary, [todo[n]], env=OMP1, timeout=600)
            if rc2 == 0 and len(out2) == 1:
                ctx.stat("fn:watchdog-hit-passed-on-solo-retry")
                outs.append(out2[0])
                todo = todo[n + 1:]
                continue
        outs.append("abort:" + summ)
        ctx.last_abort_stderr = err[-4000:]
        aborts += 1
        todo = todo[n + 1:]
    ctx.fn_aborts = aborts
    return outs


def run_fn(ctx, binary, cases):
    lines = [G.case_line("fn", c) for c in cases]
    impl = run_cases_failfast(ctx, binary, lines)
    dl = []
    for l, io in zip(lines, impl):
        if io.startswith("abort:"):
            dl.append(l)
        else:
            f = fields_of(io)
            dl.append(l + " ids=%s kfinal=%s rounds=%s levels=%s" % (f.get("ids", ""), f.get("kfinal", ""), f.get("rounds", "-"),
                                                                       f.get("levels", "")))
    rc, model, err = ctx.run_model("model_c03", dl, timeout=3000)
    if rc != 0 or len(model) != len(lines):
        ctx.broken("model-driver", "model_c03", "model driver failed: rc=%s %s" % (rc, err[-300:]))
        return None
    return [(l, io, fields_of(m), m) for l, io, m in zip(lines, impl, model)]


def shrink_fn(ctx, binary, c, sig):
    def sig_of(cc):
        n = G.size(cc)
        if n < 3 or cc["k"] < 1:
            return None
        res = run_fn(ctx, binary, [cc])
        if not res:
            return None
        v = fn_verdict(cc, res[0][1], res[0][2])
        return v[1] if v else None
    idx = vlib.ddmin(list(range(G.size(c))), lambda sub: sig_of(G.subset(c, sub)) == sig, max_tests=100)
    small = G.subset(c, idx)
    for k in range(1, small["k"]):
        cc = dict(small)
        cc["k"] = k
        if sig_of(cc) == sig:
            return cc
    return small


def judge_fn(ctx, binary, groups, label):
    """groups: list of lists of cases; cases of one group are the same tie-free data in different sample orders
    (group[0] = base order); each case carries '_perm' (new index -> base index)"""
    # about half of the cases: element != position (rng=), independently per sample order
    groups = [[dict(G.with_range(c)) for c in grp] for grp in groups]
    flat = [c for grp in groups for c in grp]
    res = run_fn(ctx, binary, [{k: v for k, v in c.items() if not k.startswith("_")} for c in flat])
    if res is None:
        return
    pos = 0
    for grp in groups:
        finals = []
        for c in grp:
            line, io, mf, mraw = res[pos]
            pos += 1
            n = G.size(c)
            ctx.count(line, n >= 4)
            ctx.stat("fn:" + label)
            ctx.stat("fn:method:" + c["method"])
            ctx.stat("fn:range:" + G.range_kind(c))
            ctx.cov["traces_validated_against_impl"] += 1
            v = fn_verdict(c, io, mf)
            f = fields_of(io) if not io.startswith("abort:") else {}
            tried = f.get("kfinal", "")
            if tried and tried.isdigit() and int(tried) > min(int(c["k"]), n - 1):
                ctx.stat("fn:k-was-raised")
            if mf.get("seq") == "ok":
                ctx.stat("fn:search-rounds-observed-and-equal-to-model")
            elif mf.get("seq") == "-":
                ctx.stat("fn:search-rounds-not-observable(kernel callback)")
            if v is None:
                ctx.stat("fn:agree")
                finals.append((tried, f.get("fin"), c, line))
                if len(ctx.cov["samples"]) < 4 and n <= 8 and tried.isdigit() and int(tried) > min(int(c["k"]), n - 1):
                    ctx.sample({"case": line, "impl": io[:600], "driver": mraw})
                continue
            kind, sig, text = v
            ctx.stat("fn:disagree:" + sig[:50])
            if kind == "skip":
                continue
            cc = {k: v for k, v in c.items() if not k.startswith("_")}
            report(ctx, kind, sig, text, line, {"impl": io[:3000], "driver": mraw[:2000]},
                   broken="correspondence c03_conn (%s)" % sig,
                   shrinker=(lambda cc=cc, sig=sig: G.case_line("fn", shrink_fn(ctx, binary, cc, sig))) if kind == "fail" else None)
            finals.append((tried, f.get("fin"), c, line))
        if grp and grp[0].get("_tiefree"):
            ks = {(k, fin) for k, fin, _, _ in finals}
            if len(ks) > 1:
                ctx.stat("fn:order-dependent-groups")
                a, b = finals[0], [x for x in finals if (x[0], x[1]) != (finals[0][0], finals[0][1])][0]
                report(ctx, "fail", "conn-dir:fn-order-dependent",
                       "the same tie-free sample set gives final k=%s (finite geodesics: %s) in one sample order and k=%s (finite: %s) "
                       "in another: decision and result depend on the order of the samples" % (a[0], a[1], b[0], b[1]),
                       a[3] + " || " + b[3], {"first": a[3], "second": b[3]},
                       shrinker=lambda a=a, b=b: shrink_pair(ctx, binary, a[2], b[2]))


def shrink_pair(ctx, binary, ca, cb):
    """ca, cb: the same samples in two orders (cb['_perm'][new] = index in ca's base order).  Remove samples from both."""
    pa, pb = ca["_perm"], cb["_perm"]
    base_ids = sorted(pa)

    def build(sub):
        s = set(sub)
        a = G.subset(ca, [i for i, b in enumerate(pa) if b in s])
        b = G.subset(cb, [i for i, bb in enumerate(pb) if bb in s])
        return ({k: v for k, v in a.items() if not k.startswith("_")}, {k: v for k, v in b.items() if not k.startswith("_")})

    def differs(sub):
        if len(sub) < 3:
            return False
        a, b = build(sub)
        if not tie_free(a["pts"], a.get("metric", "L1")):
            return False
        res = run_fn(ctx, binary, [a, b])
        if not res or any(x[1].startswith("abort:") for x in res):
            return False
        fa, fb = fields_of(res[0][1]), fields_of(res[1][1])
        return (fa.get("kfinal"), fa.get("fin")) != (fb.get("kfinal"), fb.get("fin"))
    best = vlib.ddmin(base_ids, differs, max_tests=100)
    a, b = build(best)
    return G.case_line("fn", a) + " || " + G.case_line("fn", b)


def perms_of(r, n, count):
    out = [list(range(n))]
    rots = [list(range(s, n)) + list(range(s)) for s in range(1, n)]
    out += r.shuffle(rots)[:count // 2]
    while len(out) < count + 1:
        out.append(r.shuffle(list(range(n))))
    return out


# ----------------------------------------------------------------------------- public-API leg (quick and thorough)
def api_flags():
    """-O0 -g1 (with the sanitizers): all of tapkee.hpp through the public chain API compiles in ~60 s"""
    fl = [f for f in vlib.HARNESS_FLAGS if f not in ("-O1", "-g")] + ["-O0", "-g1"]
    return fl


def api_leg(ctx, binary, ncases):
    """Isomap / Landmark Isomap / Laplacian Eigenmaps through the public API (tapkee::with(..).with*().embedRange), i.e. through
    ImplementationBase::find_neighbors_with and parameters[check_connectivity] (methods/base.hpp), on distinct-sample data
    whose k-NN graph is mostly NOT strongly connected at the requested k.
    flag on / default : no throw, finite embedding, finite matrix at the eigensolver; LE: every row of the Laplacian has at
                        least as many neighbours as find_neighbors(.., true) returns;
    flag off          : the Lean model (stronglyConnected on the lists of find_neighbors(.., false)) predicts whether the
                        geodesic methods fail — they must fail exactly then, so the flag is observed to matter."""
    r = ctx.rng
    cases = []
    tries = 0
    while len(cases) < ncases and tries < 10 * ncases:
        tries += 1
        n = r.range(7, 16)
        sp = data_clusters(r.fork(), n) if tries % 3 else data_chain(r.fork(), n)
        if sp is None or G.size(sp) < 6 or sp.get("cb") != "plain":
            continue
        i = len(cases)
        c = dict(sp)
        c.update({"meth": ["isomap", "lisomap", "le"][i % 3], "cc": ["1", "default", "0"][(i // 3) % 3],
                  "nm": METHODS[(i // 9) % 3], "k": r.choice([3, 3, 4]), "vs": G.vantage_stream(r, n)})
        cases.append(c)
    def line_of(c):
        return "callers meth=%s nm=%s lr=1 d=2 k=%d cc=%s %s" % (c["meth"], c["nm"], c["k"], c["cc"],
                                                     G.case_line("x", {k: v for k, v in c.items() if k in ("cb", "metric", "pts", "vs")})[2:])
    lines = [line_of(c) for c in cases]
    outs = ctx.run_impl_cases(binary, lines, env=OMP1, timeout=900)
    conn = []
    for c, o in zip(cases, outs):
        f = fields_of(o) if not o.startswith("abort:") else {}
        conn.append("conn N=%d lists=%s" % (G.size(c), f.get("lists0", "")))
    rc, model, err = ctx.run_model("model_c03", conn)
    if rc != 0 or len(model) != len(conn):
        ctx.broken("model-driver", "model_c03", "model driver failed on the api leg: rc=%s %s" % (rc, err[-300:]))
        return
    for c, line, o, mo in zip(cases, lines, outs, model):
        ctx.count(line, True)
        ctx.stat("api:%s:cc=%s" % (c["meth"], c["cc"]))
        ctx.cov["traces_validated_against_impl"] += 1
        if o.startswith("abort:"):
            report(ctx, "fail", "api:abort:" + o[6:60], "%s through the method class aborts (%s)" % (c["meth"], o[6:]), line, {"impl": o})
            continue
        f = fields_of(o)
        sc0 = fields_of(mo).get("sc")
        ok = f.get("obs") == "ok" and f.get("fin") == "1" and f.get("gfin") == "1"
        if sc0 == "0":
            ctx.stat("api:graph-at-requested-k-not-strongly-connected")
        if c["cc"] in ("1", "default"):
            if not ok:
                report(ctx, "fail", "api:check-connectivity-ignored:" + c["meth"],
                       "%s with check_connectivity=%s on distinct samples throws / returns non-finite values (%s): the "
                       "neighbourhood graph handed to the method has unreachable pairs" % (c["meth"], c["cc"], o[:120]), line,
                       {"impl": o, "model": mo})
            elif c["meth"] == "le" and int(f.get("minnz", "0")) < int(f.get("kcc", "0")):
                report(ctx, "fail", "api:check-connectivity-ignored:le",
                       "Laplacian Eigenmaps with check_connectivity=%s built its Laplacian on fewer neighbours (%s) than "
                       "find_neighbors(.., true) returns (%s)" % (c["cc"], f.get("minnz"), f.get("kcc")), line, {"impl": o, "model": mo})
            else:
                ctx.stat("api:agree")
        else:
            if c["meth"] in ("isomap", "lisomap"):
                if sc0 == "0" and ok:
                    report(ctx, "broken", "api:flag-off-no-failure", "correspondence c03_api: with check_connectivity=false the model "
                           "predicts unreachable pairs (graph at k not strongly connected) but %s returned finite values" % c["meth"],
                           line, {"impl": o, "model": mo}, broken="correspondence c03_api (check_connectivity=false)")
                elif sc0 == "1" and not ok:
                    report(ctx, "fail", "api:strongly-connected-but-fails", "%s fails on a strongly connected neighbourhood graph (%s)"
                           % (c["meth"], o[:120]), line, {"impl": o, "model": mo})
                else:
                    ctx.stat("api:agree")
                    if sc0 == "0":
                        ctx.stat("api:flag-observed-to-matter")
            else:
                # Laplacian Eigenmaps without the check: it must still run on the k requested
                kreq = min(c["k"], G.size(c) - 1)
                if not ok or int(f.get("minnz", "-1")) < kreq:
                    report(ctx, "fail", "api:le-flag-off", "Laplacian Eigenmaps with check_connectivity=false throws / is non-finite / "
                           "has a Laplacian row with fewer than the %d requested neighbours (%s)" % (kreq, o[:120]), line,
                           {"impl": o, "model": mo})
                else:
                    ctx.stat("api:agree")
        evals_oracle(ctx, c, line, o, f)


CALLERS = ["klle", "kltsa", "hlle", "npe", "lltsa", "lpp", "le", "isomap", "lisomap", "spe", "ms"]


def evals_oracle(ctx, c, line, o, f):
    """callback-evaluation count: with the flag on/default the method must have performed at least the evaluations of
    find_neighbors(nm, .., k, true) on the callback it searches with (same deterministic search); a method that bypasses the
    flag performs those of (.., false) only.  Discriminating when need1 >= 2*need0 (the check raises k at least once)."""
    try:
        evals, need1, need0 = int(f["evals"]), int(f["need1"]), int(f["need0"])
    except (KeyError, ValueError):
        report(ctx, "broken", "api:evals-missing", "the api harness did not report evaluation counts: %s" % o[:120], line, {"impl": o},
               broken="harness c03_callers protocol")
        return
    power = need1 >= 2 * need0
    if c["cc"] in ("1", "default"):
        if evals < need1:
            report(ctx, "fail", "api:caller-bypasses-check:" + c["meth"],
                   "%s with check_connectivity=%s made %d callback evaluations, fewer than the %d of find_neighbors(.., k, true): "
                   "the method does not search with the check (a %d-neighbour search alone costs %d)"
                   % (c["meth"], c["cc"], evals, need1, c["k"], need0), line, {"impl": o})
        elif power:
            ctx.stat("callers:%s:flag-on-search-with-check-observed" % c["meth"])
    else:
        if evals < need0:
            report(ctx, "broken", "api:evals-below-one-search", "correspondence c03_callers: %s made fewer callback evaluations (%d) than "
                   "one search (%d)" % (c["meth"], evals, need0), line, {"impl": o}, broken="correspondence c03_callers (evaluation counts)")
        elif power and evals < need1:
            ctx.stat("callers:%s:flag-off-observed-to-matter" % c["meth"])


def data_small_outlier(r, n):
    """distinct, tie-free 2-D points: one loose cluster in [0,5000]^2 and 1-2 far outliers; coordinates small enough for the
    linear kernel to stay exact (kernel searches)"""
    for _ in range(40):
        pts = []
        seen = set()
        while len(pts) < n - 2:
            p = (r.below(5000), r.below(5000))
            if p not in seen:
                seen.add(p)
                pts.append(list(p))
        pts.append([100000 + r.below(1000), 90000 + r.below(1000)])
        if r.chance(1, 2):
            pts.append([-70000 - r.below(1000), 120000 + r.below(1000)])
        pts = r.shuffle(pts)
        if tie_free(pts, "L1"):
            return {"cb": "plain", "metric": "L1", "pts": pts}
    return None


def callers_leg(ctx, binary, reps):
    """every caller of find_neighbors_with (11 methods) through the public API, flag on / default / off"""
    r = ctx.rng
    cases = []
    for rep in range(reps):
        for i, meth in enumerate(CALLERS):
            sp = data_small_outlier(r.fork(), r.range(12, 16))
            if sp is None:
                continue
            for cc in (["1", "0"] if (rep + i) % 2 else ["default", "0"]):
                c = dict(sp)
                c.update({"meth": meth, "cc": cc, "k": r.choice([3, 4])})
                cases.append(c)
    lines = ["callers meth=%s k=%d cc=%s %s" % (c["meth"], c["k"], c["cc"],
                                                G.case_line("x", {k: v for k, v in c.items() if k in ("cb", "metric", "pts")})[2:])
             for c in cases]
    outs = ctx.run_impl_cases(binary, lines, env=OMP1, timeout=1800)
    for c, line, o in zip(cases, lines, outs):
        ctx.count(line, True)
        ctx.stat("callers:%s:cc=%s" % (c["meth"], c["cc"]))
        ctx.cov["traces_validated_against_impl"] += 1
        if o.startswith("abort:"):
            report(ctx, "fail", "callers:abort:%s:%s" % (c["meth"], o[6:60]), "%s through the public API aborts (%s)" % (c["meth"], o[6:]),
                   line, {"impl": o})
            continue
        f = fields_of(o)
        if f.get("obs") != "ok":
            ctx.stat("callers:%s:throws(%s)" % (c["meth"], f.get("obs", "?")[6:40]))
            if c["cc"] != "0" and c["meth"] in ("isomap", "lisomap"):
                report(ctx, "fail", "api:check-connectivity-ignored:" + c["meth"], "%s with check_connectivity=%s on distinct samples "
                       "throws (%s)" % (c["meth"], c["cc"], o[:120]), line, {"impl": o})
        evals_oracle(ctx, c, line, o, f)
    dist = ctx.extra.get("distribution", {})
    weak = [m for m in CALLERS if not dist.get("callers:%s:flag-on-search-with-check-observed" % m)]
    if weak and not ctx.failures:
        ctx.broken("callers-leg-without-power", "correspondence c03_callers (flag observed per method)",
                   "no discriminating flag-on case (k raised at least once) was judged for: %s" % ",".join(weak))


# ----------------------------------------------------------------------------- driver
def correspond(ctx):
    from concurrent.futures import ThreadPoolExecutor
    with ThreadPoolExecutor(max_workers=2) as ex:
        fut_api = ex.submit(ctx.build_harness, "c03_callers.cpp", None, common_flag(), api_flags())
        binary, log = ctx.build_harness("c03_conn.cpp", extra=common_flag())
        api_binary, api_log = fut_api.result()
    if not binary:
        ctx.broken("harness-build", "harness c03_conn.cpp", "harness does not compile against the repository: " + log[-1500:])
        return
    if not api_binary:
        ctx.broken("harness-build:api", "harness c03_callers.cpp", "harness does not compile against the repository: " + api_log[-1500:])
    ctx.seen_sigs = set()
    r = ctx.rng
    quick = ctx.tier == "quick"
    rp = getattr(ctx, "replay", None)
    if rp and rp.get("case"):
        parts = [p.strip() for p in rp["case"].split("||")]
        if parts[0].startswith("conn "):
            gs = []
            for p in parts:
                f = fields_of(p)
                gs.append([[int(x) for x in l.split(",") if x] for l in f["lists"].split(";")])
            judge_conn(ctx, binary, [gs], "replay")
        elif parts[0].startswith("callers "):
            # a case of the public-API legs: re-run it and apply the evaluation-count / no-throw oracles
            if api_binary:
                line = parts[0]
                c = G.parse_line(line)[1]
                c["k"] = int(c["k"])
                o = ctx.run_impl_cases(api_binary, [line], env=OMP1, timeout=900)[0]
                ctx.count(line, True)
                if o.startswith("abort:"):
                    report(ctx, "fail", "callers:abort:%s:%s" % (c.get("meth"), o[6:60]), "%s through the public API aborts (%s)"
                           % (c.get("meth"), o[6:]), line, {"impl": o})
                else:
                    f = fields_of(o)
                    if c.get("cc") != "0" and c.get("meth") in ("isomap", "lisomap") and f.get("obs") != "ok":
                        report(ctx, "fail", "api:check-connectivity-ignored:" + c["meth"], "%s with check_connectivity=%s on distinct "
                               "samples throws (%s)" % (c["meth"], c["cc"], o[:120]), line, {"impl": o})
                    evals_oracle(ctx, c, line, o, f)
        else:
            cs = [dict(G.parse_line(p)[1], _norng=True) for p in parts]      # exactly the recorded ranges
            for c in cs:
                c["_tiefree"] = len(cs) > 1
            judge_fn(ctx, binary, [cs], "replay")
        return
    for topic in ("conn", "fn"):
        cdir = os.path.join(vlib.ROOT, "corpus", "C03")
        if os.path.isdir(cdir):
            for fn in sorted(os.listdir(cdir)):
                for l in open(os.path.join(cdir, fn)):
                    l = l.strip()
                    if not l or l.startswith("#") or not l.startswith(topic + " "):
                        continue
                    parts = [p.strip() for p in l.split("||")]
                    if topic == "conn":
                        gs = [[[int(x) for x in ll.split(",") if x] for ll in fields_of(p)["lists"].split(";")] for p in parts]
                        judge_conn(ctx, binary, [gs], "corpus")
                    else:
                        cs = [G.parse_line(p)[1] for p in parts]
                        for c in cs:
                            c["_tiefree"] = len(cs) > 1
                        judge_fn(ctx, binary, [cs], "corpus")
    # exhaustive small regular digraphs; relabelings are looked up inside the enumeration itself
    ex_specs = [(2, 1), (3, 1), (3, 2), (4, 1), (4, 2), (4, 3), (5, 1)] + ([] if quick else [(5, 2), (5, 3), (6, 1)])
    total = 0
    for n, k in ex_specs:
        gs = list(all_regular_digraphs(n, k))
        total += len(gs)
        for i in range(0, len(gs), 4000):
            judge_conn(ctx, binary, [[g] for g in gs[i:i + 4000]], "exhaustive")
        exhaustive_relabel(ctx, binary, n, k, gs)
    ctx.extra["exhaustive_regular_digraphs"] = {"specs(N,k)": ex_specs, "graphs": total}
    # (a) digraphs and all/some relabelings
    groups = []
    ngraphs = 2000 if quick else 40000
    for i in range(ngraphs):
        name, gen = DIGRAPH_GENS[i % len(DIGRAPH_GENS)]
        n = r.range(2, 8) if r.chance(2, 3) else r.range(2, 24)
        k = r.range(1, min(4, n - 1))
        g = gen(r.fork(), n, k)
        g = [l[:k] for l in g]
        if any(len(l) < k for l in g):
            continue
        nper = 5 if quick else 9
        groups.append((name, [relabel(g, p) for p in perms_of(r, n, nper)]))
    for name, _ in DIGRAPH_GENS:
        sub = [grp for nm, grp in groups if nm == name]
        for i in range(0, len(sub), 300):
            judge_conn(ctx, binary, sub[i:i + 300], name)
    # lists that are too short / out of range: undefined behaviour in the code, `oob` in the model
    bad = []
    for i in range(20 if quick else 300):
        n = r.range(2, 7)
        k = r.range(1, min(3, n - 1))
        g = g_random(r.fork(), n, k)
        u = r.below(n)
        if r.chance(1, 2):
            g[u] = g[u][:-1]
        else:
            g[u][r.below(k)] = n + r.below(3)
        bad.append([g])
    judge_conn(ctx, binary, bad, "ill-formed")
    # (b) data sets through find_neighbors(..., true), every method, several sample orders
    ndata = 150 if quick else 2500
    fgroups = []
    gens = [("clusters", lambda rr, n: data_clusters(rr, n)), ("chain", data_chain), ("kernel", data_kernel),
            ("lattice", data_lattice)]
    for i in range(ndata):
        name, gen = gens[i % len(gens)]
        n = r.range(4, 14) if r.chance(2, 3) else r.range(4, 40)
        sp = gen(r.fork(), n)
        if sp is None:
            continue
        n = G.size(sp)
        k0 = r.choice([1, 2, 3, 3, 4, 5, n - 1, n + 3])
        tf = name != "lattice"
        nper = (3 if quick else 6) if tf else 0
        for method in METHODS:
            grp = []
            for p in perms_of(r, n, nper):
                cc = G.subset(sp, p)
                cc.update({"method": method, "k": k0, "check": "1", "vs": G.vantage_stream(r, n), "_perm": p, "_tiefree": tf})
                grp.append(cc)
            fgroups.append((name, grp))
        if r.chance(1, 6):
            cc = dict(sp)
            cc.update({"method": r.choice(METHODS), "k": k0, "check": "0", "vs": [0], "_perm": list(range(n)), "_tiefree": False})
            fgroups.append((name, [cc]))
    for name, _ in gens:
        sub = [grp for nm, grp in fgroups if nm == name]
        for i in range(0, len(sub), 60):
            judge_fn(ctx, binary, sub[i:i + 60], name)
    if api_binary and not (rp and rp.get("case")):
        api_leg(ctx, api_binary, 36 if quick else 300)
        callers_leg(ctx, api_binary, 1 if quick else 10)
    if not quick:
        from checks.c02 import isomap_leg
        isomap_leg(ctx, 300, "c03")
    ctx.cov["rule"] = ("(a) is_connected on uniform-out-degree digraphs (random, one-way chains, stars, two cliques with one-way "
                       "bridges; N 2..24, k 1..4) each with several relabelings, ill-formed lists, and every k-out-regular digraph "
                       "for the (N,k) in exhaustive_regular_digraphs with all relabelings; (b) find_neighbors(.., true) for Brute/"
                       "VpTree/CoverTree on distinct-sample data (clusters of unequal size/density with outliers, gap chains, 1-D "
                       "kernel data, lattices), several sample orders of each tie-free set; distinct by case text")
    ctx.assumptions += [
        "exact mode as in C02; samples are distinct (C03's hypothesis)",
        "order-independence is tested on tie-free sample sets only: with ties the k-NN graph itself is not determined by the data",
        "the model recursion is run with the implementation's own search results per k (C02 is the specification of the search)",
        "Dijkstra finiteness is observed with unit edge weights on the returned lists (finiteness does not depend on positive weights)",
    ]


def exhaustive_relabel(ctx, binary, n, k, gs):
    """decision invariance under every relabeling, using the verdicts of the whole enumeration"""
    lines = [conn_line(g) for g in gs]
    impl = ctx.run_impl_cases(binary, lines, env=OMP1)
    verdict = {}
    for g, io in zip(gs, impl):
        verdict[tuple(tuple(sorted(l)) for l in g)] = fields_of(io).get("c") if not io.startswith("abort:") else None
    bad = 0
    first = None
    for g in gs:
        key = tuple(tuple(sorted(l)) for l in g)
        for p in itertools.permutations(range(n)):
            h = relabel(g, list(p))
            hk = tuple(tuple(sorted(l)) for l in h)
            if verdict.get(hk) != verdict[key]:
                bad += 1
                if first is None:
                    first = (g, h)
                break
    ctx.stat("conn:exhaustive-relabel-lookups", n=len(gs))      # the graphs themselves are counted once, in judge_conn
    ctx.extra.setdefault("exhaustive_relabel", {})["N=%d,k=%d" % (n, k)] = {"graphs": len(gs), "order_dependent": bad}
    if first:
        a, b = first
        if fields_of(impl[gs.index(a)]).get("c") != "1":
            a, b = b, a
        report(ctx, "fail", "conn-dir:order-dependent", "is_connected gives different verdicts for the same graph under two sample "
               "orders (exhaustive N=%d, k=%d: %d of %d graphs are order dependent)" % (n, k, bad, len(gs)),
               conn_line(a) + " || " + conn_line(b), {"first": conn_line(a), "second": conn_line(b)})
