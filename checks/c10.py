"""C10 — NPE, LLTSA and LPP solve the full feature-space generalised eigenproblem.
Model: lean/TapkeeVerif/Model/LinearGraph.lean (+ LocallyLinear, Laplacian for the sample-space matrices);
theorems: Props/C10.lean; harness: harness/c10_lin.cpp (construct_*_eigenproblem, public API with the eigen-observer
hook, rotation metamorphism with exactly representable rotations)."""
import os
from fractions import Fraction

import vlib
from checks import _ll

PROPERTY = "C10"
LEAN_MODULES = ["TapkeeVerif.Props.C10", "TapkeeVerif.Props.C10Compose"]
LEAN_EXES = ["model_c10"]
REQUIRED_THEOREMS = [     # every theorem of the Props module (all MANIFEST-named ones included): deleting one fails the audit
    "TapkeeVerif.C10.sample_loop_get",
    "TapkeeVerif.C10.weight_loop_get",
    "TapkeeVerif.C10.npe_returns",
    "TapkeeVerif.C10.lhs_upper_eq",
    "TapkeeVerif.C10.lhs_lower_eq",
    "TapkeeVerif.C10.rhs_upper_eq",
    "TapkeeVerif.C10.rhs_lower_eq",
    "TapkeeVerif.C10.fullForm_centering",
    "TapkeeVerif.C10.centredForm_eq_HWH",
    "TapkeeVerif.C10.lltsa_returns",
    "TapkeeVerif.C10.lltsa_lhs_is_mirror",
    "TapkeeVerif.C10.lltsa_lhs_expanded",
    "TapkeeVerif.C10.lltsa_lhs_expanded_symm",
    "TapkeeVerif.C10.fullForm_centredForm",
    "TapkeeVerif.C10.centredForm_of_const_eigvec",
    "TapkeeVerif.C10.lltsa_translation_invariant",
    "TapkeeVerif.C10.lltsa_problem_translation_invariant",
    "TapkeeVerif.C10.lpp_returns",
    "TapkeeVerif.C10.solver_sees_XMXt_npe",
    "TapkeeVerif.C10.solver_sees_XMXt_lltsa",
    "TapkeeVerif.C10.solver_sees_XMXt_lpp",
    "TapkeeVerif.C10.solver_sees_XMXt",
    "TapkeeVerif.C10.rotateRows_row",
    "TapkeeVerif.C10.fullForm_rotate",
    "TapkeeVerif.C10.fullDiagForm_rotate",
    "TapkeeVerif.C10.linear_kernel_rotation_invariant",
    "TapkeeVerif.C10.meanVec_rotate",
    "TapkeeVerif.C10.project_rotate",
    "TapkeeVerif.C10.npe_view_rotation_equivariant",
    "TapkeeVerif.C10.diag_solver_not_rotation_equivariant",
    "TapkeeVerif.C10.centredForm_align",
    "TapkeeVerif.C10.lltsa_pencil_align",
    "TapkeeVerif.C10.lltsa_solves_alignment_problem",
    "TapkeeVerif.C10.prefix_solver_sees_XMXt_refuted",
    "TapkeeVerif.C10.prefix_lhs_strict_lower_zero",
    "TapkeeVerif.C10.prefix_solver_sees_diag",
    "TapkeeVerif.C10.prefix_solver_sees_diag_rhs",
    "TapkeeVerif.C10.prefix_lpp_solver_sees_diag",
    "TapkeeVerif.C10.prefix_lltsa_lhs_upper_eq",
    "TapkeeVerif.C10.prefix_lltsa_solver_sees",
    "TapkeeVerif.C10.prefix_npe_solver_view_not_rotation_equivariant",
    "TapkeeVerif.C10.preshift_lltsa_returns",
    "TapkeeVerif.C10.preshift_lltsa_not_translation_invariant",
    "TapkeeVerif.C10.lin_solution",
    "TapkeeVerif.C10.rotation_equivariance",
    "TapkeeVerif.C10.belowCount_sound",
    "TapkeeVerif.C10.belowCount_bounds_eigenvalues",
    "TapkeeVerif.C10.bottom_certified",
    "TapkeeVerif.LinCompose.linTail_spec",
    "TapkeeVerif.LinCompose.lppRow_mem",
    "TapkeeVerif.LinCompose.lpp_end_to_end",
    "TapkeeVerif.LinCompose.npeRow_mem",
    "TapkeeVerif.LinCompose.fullDiagForm_symm",
    "TapkeeVerif.LinCompose.npe_end_to_end",
    "TapkeeVerif.LinCompose.lltsaRow_mem",
    "TapkeeVerif.LinCompose.lltsa_end_to_end",
]
EXE = "model_c10"


# ----------------------------------------------------------------------------- rotations
def identity(D):
    return [[Fraction(int(i == j)) for j in range(D)] for i in range(D)]


def matmul(A, B):
    return [[sum(A[i][l] * B[l][j] for l in range(len(B))) for j in range(len(B[0]))] for i in range(len(A))]


def gen_rotation(r, D, givens):
    """signed permutation times `givens` 3-4-5 Givens rotations; entries in {0, ±1, ±3/5, ±4/5} products"""
    perm = r.shuffle(list(range(D)))
    R = [[Fraction(0)] * D for _ in range(D)]
    for i, p in enumerate(perm):
        R[i][p] = Fraction(r.choice([1, -1]))
    for _ in range(givens):
        if D < 2:
            break
        a, b = r.shuffle(list(range(D)))[:2]
        G = identity(D)
        c, s = r.choice([(Fraction(3, 5), Fraction(4, 5)), (Fraction(4, 5), Fraction(3, 5)), (Fraction(-3, 5), Fraction(4, 5))])
        G[a][a], G[a][b], G[b][a], G[b][b] = c, -s, s, c
        R = matmul(G, R)
    return R


# ----------------------------------------------------------------------------- case construction
def gen_features(r, N, D, mult, unit=1):
    """correlated integer features: latent integer factors mixed by a random integer matrix, plus small integer noise;
    multiplied by `mult` (a power of 5) so that 3-4-5 rotations stay exact"""
    L = max(1, min(D, r.range(1, 4)))
    Z = [[r.range(-6, 6) for _ in range(L)] for _ in range(N)]
    A = [[r.range(-3, 3) for _ in range(D)] for _ in range(L)]
    F = []
    for i in range(N):
        row = [sum(Z[i][l] * A[l][j] for l in range(L)) + r.range(-2, 2) for j in range(D)]
        F.append([Fraction(v * mult) * unit for v in row])
    return F


def make_spec(r, op, method, quick, force=None):
    force = force or {}
    unit = _ll.pick_unit(r)
    spec = {"op": op, "method": method, "leg": force.get("leg", "cert"), "unit": unit}
    if op != "embed":
        D = r.range(2, 8)
        N = r.choice([4, 8, 16]) if method == "lltsa" and r.chance(3, 4) else r.range(3, 16)
        spec.update({"D": D, "d": 0, "k": 0, "kind": "integer", "pts": gen_features(r, N, D, 1, unit),
                     "wseed": r.below(1 << 60), "sym": r.chance(2, 3), "density": r.choice([20, 40, 100]),
                     "dseed": r.below(1 << 60) if r.chance(1, 2) else None})
        return spec
    D = force.get("D") or r.choice([2, 3, 3, 4, 5, 6, 8, 12, r.range(13, 29)] + ([30] if r.chance(1, 3) else [r.range(7, 20)]))
    d = force.get("d") or r.range(1, min(4, D - 1))
    Nmax = 40 if quick else 64
    N = force.get("N") or r.range(max(D + 3, 8), max(D + 3, r.choice([16, 24, Nmax])))
    givens = r.choice([0, 1, 2]) if spec["leg"] == "rot" else 0
    F = gen_features(r, N, D, 5 ** givens, unit)
    kmin = max(3, d + 2 if method == "lltsa" else 3)
    c = r.choice([0, 1, 2])
    k = kmin if c == 0 else (N - 1 if c == 1 else r.range(kmin, N - 1))
    spec.update({
        "D": D, "d": d, "k": force.get("k") or min(max(k, kmin), N - 1), "kind": "correlated", "pts": F,
        "givens": givens, "rseed": r.below(1 << 60),
        "shift": r.choice(["0", "1:-30", "1:-10"]), "tshift": r.choice(["1:-10", "1:-7", "1:-13"]),
        "decade": r.range(0, 10), "nm": r.choice(["brute", "vptree", "covertree"]), "cc": r.choice(["0", "1"]),
        "seed": str(r.below(1 << 30)),
        # half of the cases hand the library a NON-identity range (shuffled subset of the samples the callbacks know)
        "dseed": r.below(1 << 60) if r.chance(1, 2) else None,
    })
    return spec


def sparse_int_matrix(r, N, sym, density):
    W = [[0] * N for _ in range(N)]
    for i in range(N):
        for j in range(i if sym else 0, N):
            if r.below(100) < density:
                v = r.range(-5, 5)
                W[i][j] = v
                if sym:
                    W[j][i] = v
    return W


def decoy_rows(spec, mult):
    D = spec["D"]
    return lambda rr: [Fraction(rr.range(-9, 9) * mult) * spec.get("unit", 1) for _ in range(D)]


def build_line(spec):
    F = spec["pts"]
    N = len(F)
    D = spec["D"]
    sel = None
    Fall = F
    if spec.get("dseed") is not None:
        Fall, sel = _ll.with_decoys(F, spec["dseed"], decoy_rows(spec, 5 ** spec.get("givens", 0)))
    selS = (" sel=" + ",".join(str(i) for i in sel)) if sel is not None else ""
    if spec["op"] != "embed":
        r = vlib.SplitMix64(spec["wseed"])
        W = sparse_int_matrix(r, N, spec["sym"], spec["density"])
        exact = spec["method"] != "lltsa" or (N & (N - 1)) == 0
        head = "op=%s N=%d D=%d mode=%s" % (spec["op"], N, D, "exact" if exact else "approx")
        if spec["op"] == "lpp":
            head += " Dg=" + ",".join(str(r.range(1, 9)) for _ in range(N))
        return head + selS + " feat=" + _ll.fmt_matrix(Fall) + " W=" + _ll.fmt_matrix(W)
    K = _ll.kernel_matrix(F, "linear")
    Dm = _ll.distance_matrix(F, "l2")
    Kall, Dall = (K, Dm) if sel is None else (_ll.kernel_matrix(Fall, "linear"), _ll.distance_matrix(Fall, "l2"))
    k = min(spec["k"], N - 1)
    d = min(spec["d"], D)
    knn = [sorted(Dm[i][j] for j in range(N) if j != i)[k - 1] for i in range(N)]
    ref = sorted(knn)[N // 2] or Fraction(1)
    width = _ll.as_double(ref * ref * Fraction(10) ** (spec["decade"] // 2) * (Fraction(3162, 1000) if spec["decade"] % 2 else 1) / 10)
    head = "op=embed method=%s leg=%s N=%d D=%d k=%d d=%d nm=%s cc=%s seed=%s shift=%s tshift=%s width=%s" % (
        spec["method"], spec["leg"], N, D, k, d, spec["nm"], spec["cc"], spec["seed"], spec["shift"], spec["tshift"], _ll.fmt(width))
    line = head + selS + " feat=" + _ll.fmt_matrix(Fall)
    if spec["leg"] == "rot":
        R = gen_rotation(vlib.SplitMix64(spec["rseed"]), D, spec["givens"])
        Rt = [[R[j][i] for j in range(D)] for i in range(D)]
        F2 = matmul(Fall, Rt)
        assert all((v / spec.get("unit", 1)).denominator == 1 for row in F2 for v in row), "rotated features must stay exact multiples of the unit"
        assert _ll.kernel_matrix(F2, "linear") == Kall
        line += " feat2=" + _ll.fmt_matrix(F2) + " rot=" + ";".join(",".join("%d/%d" % (v.numerator, v.denominator) for v in row) for row in R)
    return line + " kern=" + _ll.fmt_matrix(Kall) + " dist=" + _ll.fmt_matrix(Dall)


def label(spec):
    return "%s/%s%s" % (spec["op"], spec["method"], "/rot" if spec.get("leg") == "rot" else "")


def what_text(spec, text):
    names = {"npe": "NPE", "lltsa": "LLTSA", "lpp": "LPP"}
    if spec["op"] == "embed":
        where = "public API %s%s" % (names.get(spec["method"], spec["method"]), " (rotation metamorphism)" if spec.get("leg") == "rot" else "")
    else:
        where = "routine " + {"npe": "construct_neighborhood_preserving_eigenproblem", "lltsa": "construct_lltsa_eigenproblem",
                              "lpp": "construct_locality_preserving_eigenproblem"}.get(spec["op"], spec["op"])
    return "%s, N=%d D=%s k=%s d=%s: %s" % (where, len(spec["pts"]), spec.get("D"), spec.get("k"), spec.get("d"), text)


def plan_fn(ctx, r, quick):
    plan = []
    reps = 3 if quick else 24
    for _ in range(reps):
        for m in ("npe", "lltsa", "lpp"):
            plan += [(m, m, None)] * 14
            plan += [("embed", m, "cert")] * 12
            plan += [("embed", m, "rot")] * 8
    return [make_spec(r.fork(), op, m, quick, force={"leg": leg} if leg else None) for op, m, leg in plan]


def replay_case(ctx, replay):
    """check.py replay <file>: re-run exactly the recorded case on the implementation and the model"""
    ctx.replay = replay
    correspond(ctx)


def correspond(ctx):
    _ll.generic_correspond(ctx, "c10_lin.cpp", EXE, "C10", plan_fn, build_line, label, what_text,
                           min_points=lambda s: s["D"] + 3)
    ctx.cov["rule"] = ("routine level: the three construct_*_eigenproblem functions on integer features and integer sparse matrices "
                       "(symmetric and not), exact mode (equality) wherever N is a power of two or no division occurs; public API: "
                       "NPE/LLTSA/LPP on correlated integer features, D 2..30, d < D, k from the minimum to N-1, three neighbour methods: "
                       "solver input vs model, projection certified against the model's FULL F^T M F, F^T B F (residual, B-orthogonality, "
                       "inertia brackets), embedding = projection of the centred samples; rotation metamorphism with signed permutations and "
                       "3-4-5 Givens rotations (features multiples of 5^g so that R x is exact); non-trivial = N>=6 and a verdict; distinct by case text")
    ctx.assumptions += [
        "sample-space matrices M are the C08 / C09 models evaluated on contract-checked oracle values (LDLT solve, local eigensolver, exp)",
        "approx-mode stages at K := Fix (2^-192), 2^-30 relative to the summand magnitude; exact mode = equality of dyadic values",
        "inertia counts behind every spectral verdict: the exact rational LDL^T of Model/Cert.lean (Cert.inertiaPos, sound by Proofs/Inertia.inertiaPos_sound; belowCount_sound / belowCount_bounds_eigenvalues in Props) on sigma*B - A rounded to 64 significant bits after a power-of-two congruence scaling",
    ]
