#!/usr/bin/env python3
"""Single entry point:  check.py <Cxx> quick|thorough   |   check.py setup   |   check.py replay <file>
   check.py baseline_off   (hooks-off baseline of /repo's own 44 tests, in a scratch copy)
See DESIGN.md §4."""
import importlib
import json
import os
import shutil
import sys
import tempfile

sys.path.insert(0, os.path.dirname(os.path.abspath(__file__)))
import vlib  # noqa: E402


def load(prop):
    return importlib.import_module("checks." + prop.lower())


def run_check(prop, tier, replay=None):
    scratch = vlib.is_scratch_run()
    with vlib.TreeLock(exclusive=scratch):
        try:
            return run_check_locked(prop, tier, replay)
        finally:
            if scratch:
                # restore the shared generated tables from /repo before anyone else may run
                env = dict(os.environ)
                env.pop("TAPKEE_REPO", None)
                import subprocess
                subprocess.run([sys.executable, os.path.abspath(__file__), "regen", prop], env=env,
                               stdout=subprocess.DEVNULL, stderr=subprocess.DEVNULL)


def regen(props):
    """re-run the translate step(s) against vlib.REPO without building or checking anything"""
    for p in props:
        mod = load(p)
        if hasattr(mod, "translate"):
            ctx = vlib.Ctx(p.upper(), "quick", 1)
            try:
                mod.translate(ctx)
            except Exception as ex:
                print("translate failed for", p, repr(ex))
    return 0


def run_check_locked(prop, tier, replay=None):
    seed = int(os.environ.get("VERIF_SEED", "1"))
    tier = os.environ.get("VERIF_TIER", tier) if tier not in ("quick", "thorough") else tier
    mod = load(prop)
    ctx = vlib.Ctx(prop, tier, seed)
    ctx.replay = replay
    modules = list(getattr(mod, "LEAN_MODULES", []))
    exes = list(getattr(mod, "LEAN_EXES", []))
    # 1. regenerate Gen/*.lean from /repo's working tree
    if hasattr(mod, "translate"):
        try:
            mod.translate(ctx)
        except Exception as ex:  # a construct the translator does not understand = broken tie
            ctx.log("translator failed:", repr(ex))
            ctx.broken("translator", "tools/translate (Gen/*.lean for %s)" % prop,
                       "translator could not regenerate the model tables from the source: %r" % (ex,))
    # 2. build the property's theorems and the model driver
    ok = ctx.lean_build(modules, exes)
    if not ok:
        bad = [t for t, good in ctx.lean_target_ok.items() if not good]
        errs = [l for l in ctx.lean_log.split("\n") if "error" in l][:12]
        ctx.log("lean build failed for", bad)
        for e in errs:
            ctx.log("   ", e)
        for t in bad:
            ctx.obligations.append((t + " (module build)", False, "build failed"))
            ctx.broken("lean-build:" + t, t,
                       "Lean module/driver %s no longer builds against the regenerated model (proof obligation broken)" % t,
                       detail="\n".join(ctx.lean_log.split("\n")[-60:]))
    # 3. audit
    good_modules = [m for m in modules if ctx.lean_target_ok.get(m)]
    if good_modules:
        problems = ctx.audit(good_modules, getattr(mod, "REQUIRED_THEOREMS", []))
        if tier == "thorough":
            problems += ctx.leanchecker(good_modules)
        for p in problems:
            ctx.log("audit:", p)
            ctx.broken("audit:" + p[:60], p, "proof audit failed: " + p)
    # 4. correspondence (always runs if the driver exists: it is also the search for a failing input)
    if all(ctx.lean_target_ok.get(e) for e in exes):
        try:
            if replay is not None and hasattr(mod, "replay_case") and replay.get("case"):
                mod.replay_case(ctx, replay)      # re-run exactly the recorded case on model and implementation
            else:
                mod.correspond(ctx)
        except Exception as ex:       # a crash of the machinery must never look like a pass (nor lose what was found so far)
            import traceback
            tb = traceback.format_exc()
            ctx.log("correspondence step crashed:", repr(ex))
            ctx.broken("check-exception", "correspondence machinery of %s (%s)" % (prop, type(ex).__name__),
                       "the correspondence step raised %r: the property is not shown to hold on this tree" % (ex,), detail=tb[-3000:])
    else:
        ctx.log("model driver unavailable; implementation-side oracle only")
        if hasattr(mod, "impl_only"):
            mod.impl_only(ctx)
    # 5. verdict + evidence
    return ctx.finish(modules)


def setup():
    """cold build of the Lean library and all drivers (no /repo compilation)"""
    os.makedirs(vlib.BUILD_DIR, exist_ok=True)
    sys.path.insert(0, vlib.ROOT)
    # regenerate Gen first so that everything builds against the current tree
    man = json.load(open(os.path.join(vlib.ROOT, "MANIFEST.json")))
    props = [c["property_id"] for c in man["checks"]]
    targets = []
    for p in props:
        mod = load(p)
        if hasattr(mod, "translate"):
            ctx = vlib.Ctx(p, "quick", 1)
            try:
                mod.translate(ctx)
            except Exception as ex:
                print("translate failed for", p, ex)
        targets += list(getattr(mod, "LEAN_MODULES", [])) + list(getattr(mod, "LEAN_EXES", []))
    targets = sorted(set(targets))
    r = vlib.sh(["lake", "build"] + targets, cwd=vlib.LEAN_DIR)
    print(r.stdout[-3000:])
    return r.returncode


def baseline_off():
    """the repository's own test-suite with the guard OFF, in a scratch copy outside /repo and /verif"""
    names = json.load(open("/root/.vp/BASELINE.json"))["stable_pass"]
    scratch = tempfile.mkdtemp(prefix="tapkee-baseline-", dir="/var/tmp")
    try:
        src = os.path.join(scratch, "src")
        r = vlib.sh(["rsync", "-a", "--exclude", "_build", "--exclude", ".git", "--exclude", "bin", "--exclude", "lib",
                     vlib.REPO + "/", src + "/"])
        if r.returncode:
            print(r.stdout)
            return 2
        b = os.path.join(scratch, "build")
        r = vlib.sh(["cmake", "-G", "Ninja", "-S", src, "-B", b, "-DBUILD_TESTS=ON", "-DCMAKE_BUILD_TYPE=RelWithDebInfo",
                     "-DCMAKE_CXX_FLAGS=-Wno-error"])
        if r.returncode:
            print(r.stdout[-3000:])
            return 2
        r = vlib.sh(["cmake", "--build", b, "-j", "16"])
        if r.returncode:
            print(r.stdout[-3000:])
            return 2
        junit = os.path.join(scratch, "junit.xml")
        r = vlib.sh(["ctest", "--test-dir", b, "-j8", "--timeout", "900", "--output-junit", junit])
        print(r.stdout[-1500:])
        # per-gtest-case results
        import re
        passed = set()
        for exe in sorted(os.listdir(os.path.join(src, "bin"))):
            if not exe.startswith("test_"):
                continue
            rr = vlib.sh([os.path.join(src, "bin", exe)], cwd=src)
            for m in re.finditer(r"\[\s+OK \] (\w+)\.(\w+)", rr.stdout):
                passed.add("%s::%s" % (m.group(1), m.group(2)))
            if rr.returncode == 0:
                passed.add("%s::%s" % (exe[5:], exe[5:]))
        missing = [n for n in names if n not in passed]
        print("baseline (guard off): %d/%d stable tests pass" % (len(names) - len(missing), len(names)))
        for m in missing:
            print("  MISSING/FAILED:", m)
        return 1 if missing else 0
    finally:
        shutil.rmtree(scratch, ignore_errors=True)


def main():
    a = sys.argv[1:]
    if not a:
        print(__doc__)
        return 2
    if a[0] == "setup":
        return setup()
    if a[0] == "baseline_off":
        return baseline_off()
    if a[0] == "regen":
        man = json.load(open(os.path.join(vlib.ROOT, "MANIFEST.json")))
        return regen(a[1:] or [c["property_id"] for c in man["checks"]])
    if a[0] == "replay":
        body = json.load(open(a[1]))
        return run_check(body["property"], body.get("tier", "quick"), replay=body)
    return run_check(a[0].upper(), a[1] if len(a) > 1 else "quick")


if __name__ == "__main__":
    sys.exit(main())
