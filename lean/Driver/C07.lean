import TapkeeVerif.Model.Util
import TapkeeVerif.Model.Pca
import TapkeeVerif.Model.Project
import TapkeeVerif.Model.DriverUtil
/-!
Driver for C07 (returned projection function).  One judge line in, one verdict line out.

in : `proj method=… N=8 D=3 d=2 exact=1 data=<N rows of D> q=<Q rows of D> nq=<Q> comb=i:j:a,… (one per query or `-`)
          P=<D rows of d> mu=<D> Y=<N rows of d> T=<N rows of d> Q=<Q rows of d>`
     `T` row i = `output.projection(x_i)`, `Q` row r = `output.projection(q_r)`;
     `comb` entry r = `i:j:a` says that query r is the exact convex/affine combination `a·x_i + (1−a)·x_j`.
out: `train=… mean=… unseen=… affine=… pure=… cmp=exact:<n>,approx:<m>`
-/
open TapkeeVerif TapkeeVerif.Util TapkeeVerif.DriverUtil

def εtight : Rat := pow2 (-40)

structure Comb where
  i : Nat
  j : Nat
  a : Rat

def parseComb (s : String) : Option (Option Comb) :=
  if s == "-" then some none else
  match s.splitOn ":" with
  | [i, j, a] => do pure (some ⟨← i.toNat?, ← j.toNat?, ← parseRat a⟩)
  | _ => none

def answerProj (fs : List (String × String)) : String :=
  let get := field? fs
  match get "N" >>= String.toNat?, get "D" >>= String.toNat?, get "d" >>= String.toNat?, get "data",
        get "nq" >>= String.toNat? with
  | some N, some D, some d, some data, some nq =>
    let exact := get "exact" == some "1"
    match parseMat N D data, get "q" >>= parseMat nq D, get "P" >>= parseMat D d, get "mu" >>= parseVec D,
          get "Y" >>= parseMat N d, get "T" >>= parseMat N d, get "Q" >>= parseMat nq d,
          (get "comb").bind (fun s => allSome ((splitNonEmpty s ",").map parseComb)) with
    | some X, some q, some P, some mu, some Y, some T, some Q, some combs =>
      let xmax := maxAbsM X.get
      let qmax := maxAbsM q.get
      let pmax := maxAbsM P.get
      -- tolerances are RELATIVE to the magnitudes of the case (no absolute floor: data in tiny units are judged as strictly)
      let nz (x : Rat) : Rat := if x == 0 then 1 else x
      let one (x : Rat) : Rat := 1 + x
      --   Pᵀ(x − mean) is formed from the CENTRED vector: its rounding error is relative to the spread |x − mean|, not to |x|
      let spreadX := maxAbsM (fun (i : Fin N) (a : Fin D) => X.get i a - mu.get a)
      let spreadQ := maxAbsM (fun (i : Fin nq) (a : Fin D) => q.get i a - mu.get a)
      let scale := nz (if spreadX < spreadQ then spreadQ else spreadX) * nz pmax * ((D : Rat) + 1)
      -- 1. projection(x_i) = row i of the embedding: the same expression over the same doubles
      let ctrain := cmpMat T.get Y.get (εtight * scale)
      -- 2. the stored mean is the mean of the training samples
      let μD := DVec.ofFn (computeMean X.get)
      let cmean := cmpMat (vecAsMat mu.get) (vecAsMat μD.get) (εtight * nz xmax)
      -- 3. the function is x ↦ Pᵀ(x − mean) for the returned P, mean: on the training and on unseen vectors
      let Tm := DMat.ofFn (embedRows P.get mu.get X.get)
      let Qm := DMat.ofFn (embedRows P.get mu.get q.get)
      let ct := cmpMat T.get Tm.get (εtight * scale)
      let cq := cmpMat Q.get Qm.get (εtight * scale)
      let unseenTxt := if ct.isBad then "train-" ++ ct.show else cq.show
      -- 4. affinity on the implementation's own outputs: f(a x_i + (1−a) x_j) = a f(x_i) + (1−a) f(x_j)
      let combA := combs.toArray
      let affBad := (List.finRange nq).filter fun r =>
        match combA[r.1]? with
        | some (some c) =>
          if h : c.i < N ∧ c.j < N then
            (List.finRange d).any fun k =>
              absR (Q.get r k - (c.a * T.get ⟨c.i, h.1⟩ k + (1 - c.a) * T.get ⟨c.j, h.2⟩ k)) > εtight * scale * one (absR c.a)
          else true
        | _ => false
      let ncomb := (combs.filter Option.isSome).length
      let affTxt := if affBad.isEmpty then s!"ok:{ncomb}" else s!"FAIL-not-affine:query{(affBad.head?.map (·.1)).getD 0}"
      -- 5. the function is PURE: combinations evaluated by the implementation in ONE expression (`C`), a result held by
      --    reference across a later application (`E`), a difference of two applications (`Dm`)
      let pureTxt :=
        match get "C" >>= parseMat nq d, get "E" >>= parseVec d, get "Dm" >>= parseVec d with
        | some C, some E, some Dm =>
          let cBad := (List.finRange nq).any fun r =>
            match combA[r.1]? with
            | some (some c) =>
              (List.finRange d).any fun k => absR (C.get r k - Q.get r k) > εtight * scale * one (absR c.a)
            | _ => false
          if cBad then "FAIL-combination-in-one-expression"
          else if h : 0 < N then
            let i0 : Fin N := ⟨0, h⟩
            let il : Fin N := ⟨N - 1, by omega⟩
            if (List.finRange d).any fun k => absR (E.get k - T.get i0 k) > εtight * scale then
              "FAIL-earlier-result-changed-by-a-later-application"
            else if (List.finRange d).any fun k => absR (Dm.get k - (T.get i0 k - T.get il k)) > εtight * scale then
              "FAIL-difference-of-two-applications"
            else "ok"
          else "ok"
        | _, _, _ => "missing"
      let tag (c : Cmp) : String := if exact && !c.isExact then "INEXACT-" ++ c.show else c.show
      let cs := [ctrain, cmean, ct, cq]
      let nexact := (cs.filter Cmp.isExact).length
      s!"train={ctrain.show} mean={tag cmean} unseen={unseenTxt} affine={affTxt} pure={pureTxt} cmp=exact:{nexact},approx:{cs.length - nexact + ncomb}"
    | _, _, _, _, _, _, _, _ => "bad-observation"
  | _, _, _, _, _ => "bad-case"

def answer (line : String) : String :=
  let fs := fields line
  if line.startsWith "proj " then answerProj fs
  else "bad-topic"

def main : IO Unit := runLines answer
