import TapkeeVerif.Model.Util
import TapkeeVerif.Model.Cli
/-! Line-protocol driver for the CLI model (C20).  Strings that may contain blanks travel hex-encoded (two hex digits
    per byte, `-` for the empty string).

    in : `run opts=<name>:<count>:<hexvalue>,… file=<hex content | none> lib=<stop | passthru | exc | ok|N|d|e11,e12,…|- | ok|N|d|…|D|d|p11,…|m1,…>`
    out: `exit=<n> why=<hex> effects=<a,b|-> echo=<hexdisplay>:<hexrepr>,… kw=<keyword>:<value>,… data=<D>x<N>:<v,…> files=<hexname>:<hexcontent>,…`
         (`kw`/`data` are `-` when run() stops before building them; numbers in `kw`/`data` are exact finite decimals)
    in : `g6 nums=<rat>,…`        out: `<hex of printG6>` per number, blank separated
    in : `tostr nums=<rat>,…`     out: `<hex of std::to_string>` per number
    in : `scan toks=<hex>,…`      out: per token the exact decimal `parseNum` returns, or `none`
    in : `scani toks=<hex>,…`     out: per token the integer cxxopts returns, or `none`
    in : `read delim=<hex> file=<hex>`   out: `rows=<n> cols=<c> data=…` | `ragged@<i>`  -/
open TapkeeVerif TapkeeVerif.Util TapkeeVerif.Cli TapkeeVerif.Gen.Cli

def hexDigit (n : Nat) : Char := if n < 10 then Char.ofNat (48 + n) else Char.ofNat (87 + n)

def hexEnc (s : Str) : String :=
  if s.isEmpty then "-" else
  String.ofList (s.flatMap fun c => [hexDigit (c.toNat / 16 % 16), hexDigit (c.toNat % 16)])

def hexDecAux : List Char → Option Str
  | [] => some []
  | a :: b :: t =>
    match hexVal a, hexVal b, hexDecAux t with
    | some x, some y, some r => some (Char.ofNat (x * 16 + y) :: r)
    | _, _, _ => none
  | _ => none

def hexDec (s : String) : Option Str := if s == "-" then some [] else hexDecAux s.toList

def parseGiven (tok : String) : Option Given :=
  match tok.splitOn ":" with
  | [n, c, v] => do
    let c ← c.toNat?
    let v ← hexDec v
    pure { name := n, count := c, value := String.ofList v }
  | _ => none

def showVal : Val → String
  | .b x => if x then "1" else "0"
  | .i x => toString x
  | .d x => String.ofList (showDecimal x)
  | .s x => "s" ++ hexEnc x.toList
  | .c x => x
  | .err w => "ERR" ++ hexEnc w.toList

def showData (M : DMat Rat) : String :=
  s!"{M.rows.length}x{M.cols}:" ++ String.intercalate "," (M.rows.flatten.map fun q => String.ofList (showDecimal q))

def chunks {α} (n : Nat) (xs : List α) : Nat → List (List α)
  | 0 => []
  | k + 1 => xs.take n :: chunks n (xs.drop n) k

def parseLib (s : String) : Option Lib :=
  if s == "stop" then some (fun _ _ _ => .error "STOP")
  else if s == "passthru" then some passThruLib
  else if s == "exc" then some (fun _ _ _ => .error "exception")
  else
    match s.splitOn "|" with
    | "ok" :: n :: d :: emb :: rest => do
      let n ← n.toNat?
      let d ← d.toNat?
      let e ← parseRats emb
      if e.length ≠ n * d then none else
      let E : DMat Rat := { cols := d, rows := chunks d e n }
      match rest with
      | ["-"] => pure (fun _ _ _ => .ok { embedding := E, projection := none })
      | [D, d2, pm, mean] => do
        let D ← D.toNat?
        let d2 ← d2.toNat?
        let p ← parseRats pm
        let m ← parseRats mean
        if p.length ≠ D * d2 then none else
        pure (fun _ _ _ => .ok { embedding := E, projection := some ({ cols := d2, rows := chunks d2 p D }, m) })
      | _ => none
    | _ => none

def answerRun (fs : List (String × String)) : String :=
  match field? fs "opts", field? fs "file", field? fs "lib" with
  | some optsS, some fileS, some libS =>
    match allSome ((splitNonEmpty optsS ",").map parseGiven), parseLib libS with
    | some opts, some lib =>
      let inputName := textOf cliOptions opts "input-file"
      let content : Option Str := if fileS == "none" then none else hexDec fileS
      let readFile : String → Option Str := fun n => if n == inputName then content else none
      let r := cliMain readFile lib opts
      let echo := match r.params with
        | some p => String.intercalate "," ((debugEcho p).map fun (e : String × String) => hexEnc e.1.toList ++ ":" ++ hexEnc e.2.toList)
        | none => "-"
      let kw := match r.params with
        | some p => String.intercalate "," (p.map fun (e : String × Val) => e.1 ++ ":" ++ showVal e.2)
        | none => "-"
      let data := match r.data with
        | some M => showData M
        | none => "-"
      let files := String.intercalate "," (r.files.map fun (e : String × Str) => hexEnc e.1.toList ++ ":" ++ hexEnc e.2)
      let eff := if r.effects.isEmpty then "-" else String.intercalate "," r.effects
      s!"exit={r.exit} why={hexEnc r.why.toList} effects={eff} echo={echo} kw={kw} data={data} files={if files == "" then "-" else files}"
    | none, _ => "bad-opts"
    | _, none => "bad-lib"
  | _, _, _ => "bad-case"

def answerNums (fs : List (String × String)) (f : Rat → Str) : String :=
  match field? fs "nums" >>= (parseRats ·) with
  | some qs => String.intercalate " " (qs.map fun q => hexEnc (f q))
  | none => "bad-nums"

def answerToks (fs : List (String × String)) (f : Str → String) : String :=
  match field? fs "toks" with
  | some ts =>
    match allSome ((ts.splitOn ",").map hexDec) with
    | some toks => String.intercalate " " (toks.map f)
    | none => "bad-toks"
  | none => "bad-case"

def answerRead (fs : List (String × String)) : String :=
  match field? fs "delim" >>= hexDec, field? fs "file" >>= hexDec with
  | some [d], some content =>
    match readData parseNum d content with
    | .ok M => s!"rows={M.rows.length} cols={M.cols} data={showData M}"
    | .error (.ragged i) => s!"ragged@{i}"
  | _, _ => "bad-case"

def answer (line : String) : String :=
  let fs := fields line
  if line.startsWith "run " then answerRun fs
  else if line.startsWith "g6 " then answerNums fs printG6
  else if line.startsWith "tostr " then answerNums fs toStringF
  else if line.startsWith "scan " then
    answerToks fs fun t => match parseNum t with | some q => String.ofList (showDecimal q) | none => "none"
  else if line.startsWith "scani " then
    answerToks fs fun t => match parseIntCxx t with | some n => toString n | none => "none"
  else if line.startsWith "read " then answerRead fs
  else "bad-case"

def main : IO Unit := runLines answer
