import TapkeeVerif.Model.Util
import TapkeeVerif.Model.Omp
import TapkeeVerif.Gen.OmpRegions
/-! Line-protocol driver for the OpenMP access tables (property C15).

    in : `regions`
    out: one token per region `name|file|func|config|loopVar|nacc|noCritical|criticalAppendOnly|sym,sym,..`

    in : `foot region=compute_distance_matrix_2 s=5 B=5`
         (`s` = values of the region's loop-invariant scalars `syms`, `B` = bound for every iteration-private value)
    out: the footprint of every iteration according to the table, as tokens
         `<w|r|a>[c]:<array>:<row|*>:<col|*>:<i>` (c = inside critical), de-duplicated, in table order

    in : `sched n=3 eff=w0.0.0,r0.1.0,c|w0.1.0|w0.2.0,c sigma=0,1,0,2,0,1`
         run the operational model (`ParLoop.runSched`) on a straight-line loop under the schedule `sigma` and print
         the final memory of the mentioned locations, the critical log, and the same for `sequential`.
-/
open TapkeeVerif TapkeeVerif.Util TapkeeVerif.Omp TapkeeVerif.Gen.OmpRegions

def showDim : Option Nat → String
  | none => "*"
  | some n => toString n

def kindTag (a : Access) : String :=
  (match a.kind with | .read => "r" | .write => "w" | .append => "a") ++ (if a.critical then "c" else "")

/-- all valuations of `m` variables below `b` -/
def valuations : Nat → Nat → List (List Nat)
  | 0, _ => [[]]
  | m + 1, b => (valuations m b).flatMap fun t => (List.range b).map fun x => x :: t

def footprint (r : Region) (svals : List Nat) (b : Nat) : List String :=
  let s : Nat → Nat := fun k => svals.getD k 0
  let lo := r.lo s
  let hi := r.hi s
  let toks := r.accesses.flatMap fun a =>
    (List.range (hi - lo)).flatMap fun d =>
      let i := lo + d
      (valuations a.vars.length b).filterMap fun vs =>
        let v : Nat → Nat := fun k => vs.getD k 0
        if a.guard s v i then
          some s!"{kindTag a}:{a.arrName}:{showDim (a.row s v i)}:{showDim (a.col s v i)}:{i}"
        else none
  toks.eraseDups

def regionLine (r : Region) : String :=
  String.intercalate "|" [r.name, r.file, r.func, r.config, r.loopVar, toString r.accesses.length,
    toString r.noCritical, toString r.criticalAppendOnly, String.intercalate "," r.syms]

/-- `w<arr>.<row>.<col>` write of the value `100*iteration + position`, `r<arr>.<row>.<col>` read (the next write adds
    the value read), `c` critical append of the number of values read so far -/
def parseEff (iter : Nat) (pos : Nat) (s : String) : Option (Eff Int Int) :=
  if s == "c" then some (.criticalAppend fun h => (h.foldl (· + ·) 0) + 1000 * iter) else
  let body := (s.drop 1).toString
  match (body.splitOn ".").map String.toNat? with
  | [some a, some r, some c] =>
    if s.startsWith "w" then some (.write ⟨a, r, c⟩ fun h => (100 * iter + pos : Nat) + h.foldl (· + ·) 0)
    else if s.startsWith "r" then some (.read ⟨a, r, c⟩)
    else none
  | _ => none

def parseLocs (effs : List String) : List Loc :=
  (effs.filterMap fun s =>
    match (((s.drop 1).toString).splitOn ".").map String.toNat? with
    | [some a, some r, some c] => some (⟨a, r, c⟩ : Loc)
    | _ => none).eraseDups

def showState (locs : List Loc) (st : State Int Int) : String :=
  let mem := locs.map fun l => s!"{l.arr}.{l.row}.{l.col}={st.mem l}"
  let log := st.log.map fun (t, x) => s!"{t}:{x}"
  "mem " ++ String.intercalate "," mem ++ " log " ++ String.intercalate "," log

def answerSched (fs : List (String × String)) : String :=
  match field? fs "n" >>= String.toNat?, field? fs "eff", field? fs "sigma" with
  | some n, some effS, some sigS =>
    let per := effS.splitOn "|"
    if per.length ≠ n then "bad-case" else
    let bodies : List (Option (List (Eff Int Int))) := (List.range n).map fun k =>
      let items := splitNonEmpty (per.getD k "") ","
      allSome ((List.range items.length).map fun p => parseEff k p (items.getD p ""))
    match allSome bodies, parseNats sigS with
    | some bs, some sigma =>
      let p : ParLoop Int Int := ⟨n, fun k => Prog.ofEffs (bs.getD k.val []) []⟩
      let sig : List (Fin n) := sigma.filterMap fun t => if h : t < n then some ⟨t, h⟩ else none
      let locs := parseLocs (per.flatMap fun s => splitNonEmpty s ",")
      let c := p.runSched (fun _ => 0) sig
      let fin := (List.finRange n).all fun k => match c.threads k with | .done => true | _ => false
      s!"complete={fin} | {showState locs c.st} | seq {showState locs (p.sequential (fun _ => 0))}"
    | _, _ => "bad-eff"
  | _, _, _ => "bad-case"

def answer (line : String) : String :=
  let fs := fields line
  if line.startsWith "regions" then
    String.intercalate " " (allRegions.map regionLine |>.map fun s => s.replace " " "_")
  else if line.startsWith "sched" then answerSched fs
  else if line.startsWith "foot" then
    match field? fs "region", field? fs "s" >>= (parseNats ·), field? fs "B" >>= String.toNat? with
    | some name, some svals, some b =>
      match allRegions.find? (·.name == name) with
      | some r => String.intercalate " " (footprint r svals b)
      | none => "unknown-region"
    | _, _, _ => "bad-case"
  else "bad-case"

def main : IO Unit := runLines answer
