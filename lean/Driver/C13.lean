import TapkeeVerif.Model.Util
import TapkeeVerif.Model.Chain
import TapkeeVerif.Model.Params
import TapkeeVerif.Model.Callbacks
/-! Line-protocol driver for property C13.
    in : `chain order=dfk`            attach, in this order, a callback created for role d, f, k; then embedRange
    out: `k=k d=d f=f`                which role's callback `tapkee::embed` receives in each slot (`-` = dummy),
                                      `no-such-member` when the chain does not compile
    in : `stored prog=P:0,s,k:0>1:a,c:1>9,x:1,f:9>2:b,e:2,e:2`   a multi-step use of the chain, statement by statement:
                                      `P:v` auto v = with(params) · `k|d|f:v>w:id` auto w = v.withKernel|Distance|Features(callback id)
                                      · `c:v>w` auto w = v · `x:v` v destroyed · `s` unrelated code (stack reused)
                                      · `e:v` v.embedRange / embedUsing(container) · `m:v` v.embedUsing(matrix) (eigen callbacks `E`)
    out: `k=a d=- f=b;k=a d=- f=b`    one call per finished chain (`Chain.exec`); `undefined` when the program uses a variable that
                                      holds no state or a member that does not exist
    in : `uses method=Isomap`
    out: `declared=d mentioned=d undeclared=-`   from the regenerated tables -/
open TapkeeVerif TapkeeVerif.Util TapkeeVerif.Front TapkeeVerif.Gen TapkeeVerif.Params TapkeeVerif.Chain

def opOf (c : Char) : Option (Op Char Char Char) :=
  if c = 'k' then some (.withKernel 'k') else if c = 'd' then some (.withDistance 'd')
  else if c = 'f' then some (.withFeatures 'f') else none

def showSlot : Option Char → String
  | some c => String.singleton c
  | none => "-"

def answerChain (order : String) : String :=
  match allSome (order.toList.map opOf) with
  | none => "bad-order"
  | some ops =>
    match chain () ops with
    | some c => s!"k={showSlot c.kernel} d={showSlot c.distance} f={showSlot c.features}"
    | none => "no-such-member"

def parseStmt (t : String) : Option (Stmt Unit String String String) :=
  if t = "s" then some .scribble else
  match t.splitOn ":" with
  | ["P", v] => (parseNat v).map fun v => .start v ()
  | ["c", vw] => match (vw.splitOn ">").map parseNat with
    | [some v, some w] => some (.copy v w)
    | _ => none
  | ["x", v] => (parseNat v).map .destroy
  | ["e", v] => (parseNat v).map .finish
  | ["m", v] => (parseNat v).map fun v => .finishMatrix v "E" "E" "E"
  | [r, vw, id] => match (vw.splitOn ">").map parseNat with
    | [some v, some w] =>
      if r = "k" then some (.attach v w (.withKernel id)) else if r = "d" then some (.attach v w (.withDistance id))
      else if r = "f" then some (.attach v w (.withFeatures id)) else none
    | _ => none
  | _ => none

def showCall (c : Call Unit String String String) : String :=
  s!"k={c.kernel.getD "-"} d={c.distance.getD "-"} f={c.features.getD "-"}"

def answerStored (prog : String) : String :=
  match allSome ((splitNonEmpty prog ",").map parseStmt) with
  | none => "bad-program"
  | some stmts =>
    match exec stmts with
    | some calls => ";".intercalate (calls.map showCall)
    | none => "undefined"

def letters (l : List Cb) : String :=
  let s := String.join ([Cb.kernel, Cb.distance, Cb.features].filterMap fun c =>
    if l.contains c then some (match c with | .kernel => "k" | .distance => "d" | .features => "f") else none)
  if s = "" then "-" else s

def answerUses (m : String) : String :=
  match Meth.all.find? (fun x => x.ident == m) with
  | none => "bad-method"
  | some m =>
    let men := callbacksMentioned m
    let dec := declaredNeeds m
    s!"declared={letters dec} mentioned={letters men} undeclared={letters (men.filter fun c => !dec.contains c)}"

/-- `cbcheck exact=1 pts=x,y;x,y;… k=… d=… f=… pk=… pd=…` : the library callbacks' values against the exact reference -/
def answerCb (fs : List (String × String)) : String :=
  let get := fun k => (field? fs k).getD ""
  match allSome ((splitNonEmpty (get "pts") ";").map (parseRats ·)), parseRats (get "k"), parseRats (get "d"),
        parseRats (get "f"), parseRats (get "pk"), parseRats (get "pd") with
  | some pts, some ks, some ds, some ff, some pk, some pd =>
    match Callbacks.judge pts ks ds ff pk pd (get "exact" == "1") with
    | none => "cb-ok"
    | some b => "cb-bad " ++ b
  | _, _, _, _, _, _ => "cb-unparsable"

def answer (line : String) : String :=
  let fs := fields line
  if line.startsWith "chain" then answerChain ((field? fs "order").getD "")
  else if line.startsWith "stored" then answerStored ((field? fs "prog").getD "")
  else if line.startsWith "uses" then answerUses ((field? fs "method").getD "")
  else if line.startsWith "cbcheck" then answerCb fs
  else "bad-case"

def main : IO Unit := runLines answer
