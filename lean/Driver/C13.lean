import TapkeeVerif.Model.Util
import TapkeeVerif.Model.Chain
import TapkeeVerif.Model.Params
import TapkeeVerif.Model.Callbacks
/-! Line-protocol driver for property C13.
    in : `chain order=dfk`            attach, in this order, a callback created for role d, f, k; then embedRange
    out: `k=k d=d f=f`                which role's callback `tapkee::embed` receives in each slot (`-` = dummy),
                                      `no-such-member` when the chain does not compile
    in : `uses method=Isomap`
    out: `declared=d mentioned=d undeclared=-`   from the regenerated tables -/
open TapkeeVerif TapkeeVerif.Util TapkeeVerif.Front TapkeeVerif.Gen TapkeeVerif.Params TapkeeVerif.Chain

def opOf (c : Char) : Option (Op Char Char Char) :=
  if c = 'k' then some (.withKernel 'k') else if c = 'd' then some (.withDistance 'd')
  else if c = 'f' then some (.withFeatures 'f') else none

def showSlot : Option Char → String
  | some c => String.singleton c
  | none => "-"

def answerChain (order : String) : String :=
  match allSome (order.toList.map opOf) with
  | none => "bad-order"
  | some ops =>
    match chain () ops with
    | some c => s!"k={showSlot c.kernel} d={showSlot c.distance} f={showSlot c.features}"
    | none => "no-such-member"

def letters (l : List Cb) : String :=
  let s := String.join ([Cb.kernel, Cb.distance, Cb.features].filterMap fun c =>
    if l.contains c then some (match c with | .kernel => "k" | .distance => "d" | .features => "f") else none)
  if s = "" then "-" else s

def answerUses (m : String) : String :=
  match Meth.all.find? (fun x => x.ident == m) with
  | none => "bad-method"
  | some m =>
    let men := callbacksMentioned m
    let dec := declaredNeeds m
    s!"declared={letters dec} mentioned={letters men} undeclared={letters (men.filter fun c => !dec.contains c)}"

/-- `cbcheck exact=1 pts=x,y;x,y;… k=… d=… f=… pk=… pd=…` : the library callbacks' values against the exact reference -/
def answerCb (fs : List (String × String)) : String :=
  let get := fun k => (field? fs k).getD ""
  match allSome ((splitNonEmpty (get "pts") ";").map (parseRats ·)), parseRats (get "k"), parseRats (get "d"),
        parseRats (get "f"), parseRats (get "pk"), parseRats (get "pd") with
  | some pts, some ks, some ds, some ff, some pk, some pd =>
    match Callbacks.judge pts ks ds ff pk pd (get "exact" == "1") with
    | none => "cb-ok"
    | some b => "cb-bad " ++ b
  | _, _, _, _, _, _ => "cb-unparsable"

def answer (line : String) : String :=
  let fs := fields line
  if line.startsWith "chain" then answerChain ((field? fs "order").getD "")
  else if line.startsWith "uses" then answerUses ((field? fs "method").getD "")
  else if line.startsWith "cbcheck" then answerCb fs
  else "bad-case"

def main : IO Unit := runLines answer
