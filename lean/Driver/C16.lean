import TapkeeVerif.Model.Util
import TapkeeVerif.Model.FibHeap
import TapkeeVerif.Model.FibHeapSpec
/-! Line-protocol driver for the Fibonacci-heap model (DESIGN §11).
    in : `heap cap=7 ops=i:3:5,i:1:5,d:3:2,x,c,g:3 [dn=4]`
    out: `dn=3 | s1 s2 s2 x1:5:1 s0 g-`   (`ERR:oob` / `ERR:corrupt` ends the history) -/
open TapkeeVerif TapkeeVerif.FibHeap TapkeeVerif.Util

def parseOp (s : String) : Option Op :=
  match s.splitOn ":" with
  | ["i", a, b] => do pure (.insert (← a.toInt?) (← b.toInt?))
  | ["d", a, b] => do pure (.decrease (← a.toInt?) (← b.toInt?))
  | ["x"] => some .extract
  | ["c"] => some .clear
  | ["g", a] => do pure (.getKey (← a.toInt?))
  | _ => none

def showOut : Out → String
  | .size n => s!"s{n}"
  | .extracted n none => s!"x-1:{n}"
  | .extracted n (some (i, k)) => s!"x{i}:{k}:{n}"
  | .key none => "g-"
  | .key (some k) => s!"g{k}"

def runShow (h : Heap) : List Op → List String
  | [] => []
  | op :: ops =>
    match step h op with
    | .error .oob => ["ERR:oob"]
    | .error .corrupt => ["ERR:corrupt"]
    | .ok (h', o) => showOut o :: runShow h' ops

def parseOut (s : String) : Option Out :=
  if s.startsWith "s" then (s.drop 1).toString.toNat?.map .size
  else if s.startsWith "x" then
    match (s.drop 1).toString.splitOn ":" with
    | ["-1", n] => n.toNat?.map (fun n => .extracted n none)
    | [i, k, n] => do pure (.extracted (← n.toNat?) (some (← i.toNat?, ← k.toInt?)))
    | _ => none
  else if s == "g-" then some (.key none)
  else if s.startsWith "g" then (s.drop 1).toString.toInt?.map (fun k => .key (some k))
  else none

/-- `spec cap=7 ops=… outs=s1,s2,x1:5:1` : run the specification checker on observed outputs -/
def answerSpec (fs : List (String × String)) : String :=
  match field? fs "cap" >>= String.toNat?, field? fs "ops", field? fs "outs" with
  | some cap, some opsS, some outsS =>
    match allSome ((splitNonEmpty opsS ",").map parseOp), allSome ((splitNonEmpty outsS ",").map parseOut) with
    | some ops, some outs =>
      -- an aborted history is checked on the prefix that produced outputs
      let ops := ops.take outs.length
      match Spec.firstReject cap [] ops outs 0 with
      | none => "spec-ok"
      | some n => s!"spec-reject@{n}"
    | _, _ => "bad-op"
  | _, _, _ => "bad-case"

def answer (line : String) : String :=
  let fs := fields line
  if line.startsWith "spec " then answerSpec fs else
  match field? fs "cap" >>= String.toNat?, field? fs "ops" with
  | some cap, some opsS =>
    match allSome ((splitNonEmpty opsS ",").map parseOp) with
    | none => "bad-op"
    | some ops =>
      let dn := (field? fs "dn" >>= String.toNat?).getD (dnOf cap)
      s!"dn={dn} | " ++ String.intercalate " " (runShow (Heap.init cap dn) ops)
  | _, _ => "bad-case"

def main : IO Unit := runLines answer
