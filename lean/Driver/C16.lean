import TapkeeVerif.Model.Util
import TapkeeVerif.Model.FibHeap
import TapkeeVerif.Model.FibHeapSpec
/-! Line-protocol driver for the Fibonacci-heap model (DESIGN §11).
    in : `heap cap=7 ops=i:3:5,i:1:5,d:3:2,x,c,g:3 [dn=4] [trace=1] [dump=1]`
    out: `dn=3 | s1 s2 s2 x1:5:1 s0 g- | r=0 n=0 m=0 t=0 [| idx:parent:rank:marked:key …]`
    (`ERR:oob` / `ERR:corrupt` ends the history; `r n m t` = max rank, stored nodes, marked nodes, trees;
     `trace=1` appends `/r:n:m` to every token) -/
open TapkeeVerif TapkeeVerif.FibHeap TapkeeVerif.Util

def parseOp (s : String) : Option Op :=
  match s.splitOn ":" with
  | ["i", a, b] => do pure (.insert (← a.toInt?) (← b.toInt?))
  | ["d", a, b] => do pure (.decrease (← a.toInt?) (← b.toInt?))
  | ["x"] => some .extract
  | ["c"] => some .clear
  | ["g", a] => do pure (.getKey (← a.toInt?))
  | _ => none

def showOut : Out → String
  | .size n => s!"s{n}"
  | .extracted n none => s!"x-1:{n}"
  | .extracted n (some (i, k)) => s!"x{i}:{k}:{n}"
  | .key none => "g-"
  | .key (some k) => s!"g{k}"

/-! structure observers (what the harness reads from the real heap's protected members) -/

def maxRankF : F → Nat
  | .nil => 0
  | .cons _ _ r _ kids rest => max r (max (maxRankF kids) (maxRankF rest))

def marksF : F → Nat
  | .nil => 0
  | .cons _ _ _ m kids rest => (if m then 1 else 0) + marksF kids + marksF rest

/-- `(idx, parent, rank, marked, key)` of every node; `parent = -1` for roots -/
def dumpF (parent : Int) : F → List (Nat × Int × Nat × Bool × Int)
  | .nil => []
  | .cons i k r m kids rest => (i, parent, r, m, k) :: (dumpF i kids ++ dumpF parent rest)

def shortSummary (h : Heap) : String :=
  s!"/{maxRankF h.forest}:{h.forest.size}:{marksF h.forest}"

def summary (h : Heap) : String :=
  s!"r={maxRankF h.forest} n={h.forest.size} m={marksF h.forest} t={h.numTrees}"

def dumpHeap (h : Heap) : String :=
  let ns := (dumpF (-1) h.forest).mergeSort (fun a b => a.1 ≤ b.1)
  String.join (ns.map fun (i, p, r, m, k) => s!" {i}:{p}:{r}:{if m then 1 else 0}:{k}")

/-- output tokens and the final heap (`none` after an error state) -/
def runShow (trace : Bool) (h : Heap) : List Op → List String × Option Heap
  | [] => ([], some h)
  | op :: ops =>
    match step h op with
    | .error .oob => (["ERR:oob"], none)
    | .error .corrupt => (["ERR:corrupt"], none)
    | .ok (h', o) =>
      let (ts, hf) := runShow trace h' ops
      ((showOut o ++ (if trace then shortSummary h' else "")) :: ts, hf)

def parseOut (s : String) : Option Out :=
  if s.startsWith "s" then (s.drop 1).toString.toNat?.map .size
  else if s.startsWith "x" then
    match (s.drop 1).toString.splitOn ":" with
    | ["-1", n] => n.toNat?.map (fun n => .extracted n none)
    | [i, k, n] => do pure (.extracted (← n.toNat?) (some (← i.toNat?, ← k.toInt?)))
    | _ => none
  else if s == "g-" then some (.key none)
  else if s.startsWith "g" then (s.drop 1).toString.toInt?.map (fun k => .key (some k))
  else none

/-- `spec cap=7 ops=… outs=s1,s2,x1:5:1` : run the specification checker on observed outputs -/
def answerSpec (fs : List (String × String)) : String :=
  match field? fs "cap" >>= String.toNat?, field? fs "ops", field? fs "outs" with
  | some cap, some opsS, some outsS =>
    match allSome ((splitNonEmpty opsS ",").map parseOp), allSome ((splitNonEmpty outsS ",").map parseOut) with
    | some ops, some outs =>
      -- an aborted history is checked on the prefix that produced outputs
      let ops := ops.take outs.length
      match Spec.firstReject cap [] ops outs 0 with
      | none => "spec-ok"
      | some n => s!"spec-reject@{n}"
    | _, _ => "bad-op"
  | _, _, _ => "bad-case"

def answer (line : String) : String :=
  let fs := fields line
  if line.startsWith "spec " then answerSpec fs else
  match field? fs "cap" >>= String.toNat?, field? fs "ops" with
  | some cap, some opsS =>
    match allSome ((splitNonEmpty opsS ",").map parseOp) with
    | none => "bad-op"
    | some ops =>
      let dn := (field? fs "dn" >>= String.toNat?).getD (dnOf cap)
      let trace := field? fs "trace" == some "1"
      let dump := field? fs "dump" == some "1"
      let (ts, hf) := runShow trace (Heap.init cap dn) ops
      let head := s!"dn={dn} |" ++ String.join (ts.map (" " ++ ·))
      match hf with
      | none => head
      | some h => head ++ " | " ++ summary h ++ (if dump then " |" ++ dumpHeap h else "")
  | _, _ => "bad-case"

def main : IO Unit := runLines answer
