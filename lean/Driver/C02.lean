import TapkeeVerif.Model.Util
import TapkeeVerif.Model.Knn
import TapkeeVerif.Model.VpTree
import TapkeeVerif.Model.KnnIO
import TapkeeVerif.Model.CoverTree
import TapkeeVerif.Model.CoverBuild
/-! Line-protocol driver for the neighbour-search models (C02, DESIGN §11).

in : `knn method=brute|vptree|covertree k=3 cb=plain|kernel metric=L1|Linf|matrix pts=..|m=.. [kern=lin|matrix km=..]
      [vs=..] [ids=<lists returned by the implementation>] [raw=<cover-tree candidate sets>] [brief=1]
      [tree=<preorder dump of the real cover tree> gs=<d/get_scale(d),..> ds=<s/dist_of_scale(s),..>]`
out: `model=<obs;..> alt=<i,..> [impl=<obs;..> oracle=ok|bad@i:reason corr=ok|diff@i] [wrap=ok|diff@i|oob@i cq=ok|bad@i]
      [wf=.. lf=.. qfuel=.. mq=.. mqorder=.. nodes=.. leafscale=..] [bt=ok|diff@r:..|err bh=ok|neg bf=ok|table|bracket fuel=.. bls=ok|diff]`

`bt` : the tree the Lean model of `batch_create` (`CoverBuild.batchCreate`, run over `Rat` with the scale functions given
by the `gs` / `ds` tables of the values the real code computes) builds, compared record by record (point, scale, number
of children, max_dist, parent_dist, preorder = children order) with the dumped real tree; `bh` : the hypothesis of
`batchCreate_wf` on these scale values (`dist_of_scale >= 0`); `bf` : the hypothesis `ScalesOk` of
`batchCreate_fuel_suffices` on them (the model runs with exactly that theorem's `fuel`); `bls` : `leaf_scale`.

`obs` of one neighbour list `l` of sample `i` = `len:nodup:selfFree:inRange:sorted distances` — the level at which
property C02 determines the result.  The oracle is `Knn.isExactKnn` (the Bool form of the `IsExactKnn` the theorems
are about) evaluated on the implementation's lists with distances recomputed here from the same exact inputs.
`alt` lists the samples with ≥ k+1 other samples coinciding with them (the situation of the repaired defect
F-KNN-DUP: the query need not be among the k+1 selected; diagnostic only). -/
open TapkeeVerif TapkeeVerif.Util TapkeeVerif.Knn TapkeeVerif.VpTree TapkeeVerif.KnnIO TapkeeVerif.CoverTree

def b2s (b : Bool) : String := if b then "1" else "0"

def obs (sp : Space) (i : Nat) (l : List Nat) : String :=
  let ds := sortK (l.map (sp.dist i))
  s!"{l.length}:{b2s (decide l.Nodup)}:{b2s (!l.contains i)}:{b2s (l.all (· < sp.N))}:" ++
    String.intercalate "," (ds.map toString)

def reason (sp : Space) (k i : Nat) (l : List Nat) : String :=
  if l.length ≠ k then "len" else if ¬ l.Nodup then "nodup" else if l.contains i then "self"
  else if !(l.all (· < sp.N)) then "range" else "dist"

/-- number of other samples not farther from `i` than `i` itself (= coincident with it) -/
def coincident (sp : Space) (i : Nat) : Nat :=
  ((List.range sp.N).filter fun j => j ≠ i ∧ sp.dist i j ≤ sp.dist i i).length

/-- ≥ k+1 other samples coincide with sample `i` -/
def altAdmissible (sp : Space) (k i : Nat) : Bool := decide (k + 1 ≤ coincident sp i)

def modelLists (sp : Space) (method : String) (k : Nat) (vs : List Nat) (metric : String) : List (List Nat) :=
  let pts := List.range sp.N
  -- metric=L2 is represented by squared distances, which are not a metric: the VP-tree model is not run there
  -- (the brute-force model, which needs no triangle inequality, stands in: `three_methods_agree`)
  if method == "vptree" && metric != "L2" then
    let cb : Cb Nat Int := ⟨sp.dist, sp.lt⟩
    let t := (build cb vs (sp.N + 1) 0 pts).1
    pts.map fun i => vpKnn cb popMaxFirst t k i
  else
    pts.map fun i => bruteKnn sp.dist pts k i

/-- the (k+1)-th smallest distance from `i` to all samples (itself included) -/
def kthDist (sp : Space) (k i : Nat) : Option Int :=
  (sortK ((List.range sp.N).map (sp.dist i)))[k]?

/-- cover-tree query certificate: the candidate set of query `i` is exactly `{j | δ i j ≤ kth}` -/
def candidatesExact (sp : Space) (k i : Nat) (cands : List Nat) : Bool :=
  match kthDist sp k i with
  | none => false
  | some kth =>
    decide cands.Nodup && cands.all (fun j => j < sp.N && sp.dist i j ≤ kth) &&
      (List.range sp.N).all (fun j => !(sp.dist i j ≤ kth) || cands.contains j)

def firstBad {β} (xs : List β) (p : Nat → β → Option String) : String :=
  let bad := (xs.zipIdx.filterMap fun (x, i) => (p i x).map fun r => s!"{i}:{r}")
  if bad.isEmpty then "ok" else "bad@" ++ String.intercalate "," (bad.take 8)


/-- one dumped node: `id/scale/nchildren/maxdist/parentdist`; the distances as printed (`maxR`, `parR`: exact dyadics)
    and multiplied by `2^sh` (`maxDist`, `parentDist`: the integers of the model's `Space`, whose coordinates are the
    unscaled integers of the case line) -/
structure Rec where
  p : Nat
  scale : Nat
  nch : Nat
  maxDist : Int
  parentDist : Int
  maxR : Rat
  parR : Rat

/-- an integer-valued rational -/
def intOfRat (q : Rat) : Option Int := if q.den = 1 then some q.num else none

def parseRec (sh : Nat) (s : String) : Option Rec :=
  match s.splitOn "/" with
  | [a, b, c, d, e] => do
    let m ← parseRat d
    let pd ← parseRat e
    pure ⟨← a.toNat?, ← b.toNat?, ← c.toNat?, ← intOfRat (m * (2 : Rat) ^ sh), ← intOfRat (pd * (2 : Rat) ^ sh), m, pd⟩
  | _ => none

mutual
/-- rebuild the tree from its preorder dump; returns the node and the unread records -/
partial def buildNode : List Rec → Option (CNode Int × List Rec)
  | [] => none
  | r :: rest =>
    match buildChildren r.nch rest with
    | none => none
    | some (cs, rest') => some (CNode.mk r.p r.maxDist r.parentDist r.scale cs, rest')
partial def buildChildren : Nat → List Rec → Option (List (CNode Int) × List Rec)
  | 0, rest => some ([], rest)
  | n + 1, rest =>
    match buildNode rest with
    | none => none
    | some (c, rest') =>
      match buildChildren n rest' with
      | none => none
      | some (cs, rest'') => some (c :: cs, rest'')
end

partial def firstLeafScale : CNode Int → Nat
  | .mk _ _ _ s [] => s
  | .mk _ _ _ _ (c :: _) => firstLeafScale c

/-! ### the model of `batch_create` against the real tree -/

def parsePair (s : String) : Option (String × String) :=
  match s.splitOn "/" with
  | [a, b] => some (a, b)
  | _ => none

/-- `gs=<d>/<scale>,..` -/
def parseGs (s : String) : Option (List (Rat × Int)) :=
  allSome ((splitNonEmpty s ",").map fun t => do
    let (a, b) ← parsePair t
    pure (← parseRat a, ← b.toInt?))

/-- `ds=<scale>/<value>,..` -/
def parseDs (s : String) : Option (List (Int × Rat)) :=
  allSome ((splitNonEmpty s ",").map fun t => do
    let (a, b) ← parsePair t
    pure (← a.toInt?, ← parseRat b))

/-- the scale functions as the tables of the values the real code computes.  `get_scale` is tabulated for every positive
    distance between two samples (the only arguments `batch_insert` passes; `batch_create` passes 0 when all samples
    coincide: the real value `(int)ceil(-inf)` is then used only in `dist_of_scale(·) < 0`, false whatever it is — here a
    scale below the table).  `dist_of_scale` is tabulated from three below the smallest to one above the largest of
    these scales; below the table it is smaller than every positive distance that occurs, which is all the code uses
    it for (`d <= fmax`, `fmax < max_dist`): 0 stands for it; an argument above the table gives a value no real run
    produces (the model's tree then differs from the real one: reported as `bt=diff`) -/
def gsOf (tab : Array (Rat × Int)) (d : Rat) : Int :=
  match tab.find? (fun e => e.1 == d) with
  | some e => e.2
  | none => -1000000007

def dsOf (tab : Array (Int × Rat)) (s : Int) : Rat :=
  match tab[0]? with
  | none => 0
  | some (s0, _) =>
    if s < s0 then 0 else
      match tab[(s - s0).toNat]? with
      | some (s', v) => if s' = s then v else -1
      | none => -1

partial def flatten : CNode Rat → List (Nat × Nat × Nat × Rat × Rat)
  | .mk p m d s cs => (p, s, cs.length, m, d) :: (cs.map flatten).flatten

def showRec (r : Nat × Nat × Nat × Rat × Rat) : String :=
  s!"{r.1}/{r.2.1}/{r.2.2.1}/{showRat r.2.2.2.1}/{showRat r.2.2.2.2}"

/-- `bt=.. bh=.. bls=..` -/
def buildReport (sp : Space) (sh : Nat) (recs : List Rec) (leafScale : Nat) (gsS dsS : String) : String :=
  match parseGs gsS, parseDs dsS with
  | some gs, some ds =>
    let gsA := gs.toArray
    let dsA := ds.toArray
    -- the distances the real code computes: the model's integers scaled by 2^-sh
    let unit : Rat := 1 / (2 : Rat) ^ sh
    let tab : Array (Array Rat) := Array.ofFn fun (a : Fin sp.N) => Array.ofFn fun (b : Fin sp.N) => (sp.dist a b : Rat) * unit
    let δ : Nat → Nat → Rat := fun a b => (tab[a]!)[b]!
    let pts := List.range sp.N
    let bh := if !(ds.all fun e => decide (0 ≤ e.2)) then "neg" else "ok"
    -- hypothesis `ScalesOk` of `batchCreate_fuel_suffices`: the table lists exactly the positive distances between
    -- two samples, all scales lie in [sLow, sTop] = [min - 3, max + 1] (the range of the `ds` table: get_scale may be off by
    -- one by rounding), dist_of_scale(sLow) < d <= dist_of_scale(sTop)
    let dvals := ((pts.flatMap fun a => pts.map fun b => δ a b).filter fun d => decide (0 < d)).mergeSort
      (fun a b => decide (a ≤ b)) |>.eraseDups
    let lo := gs.foldl (fun m e => min m e.2) ((gs.head?.map (·.2)).getD 0)
    let hi := gs.foldl (fun m e => max m e.2) ((gs.head?.map (·.2)).getD 0)
    let sLow := lo - 3
    let sTop := hi + 1
    let bf := if dvals != gs.map (·.1) then "table"
      else if gs.all fun e => decide (dsOf dsA sLow < e.1) && decide (e.1 ≤ dsOf dsA sTop) then "ok" else "bracket"
    -- the model runs with exactly the fuel of `batchCreate_fuel_suffices`
    let fuel := (sTop - sLow).toNat + 2
    match CoverBuild.batchCreate δ (gsOf gsA) (dsOf dsA) fuel pts with
    | none => s!"bt=err bh={bh} bf={bf} fuel={fuel}"
    | some (t, ls) =>
      let mine := flatten t
      let real : List (Nat × Nat × Nat × Rat × Rat) :=
        recs.map fun r => (r.p, r.scale, r.nch, r.maxR, r.parR)
      let bt :=
        if mine == real then "ok"
        else
          match ((mine.zip real).zipIdx.find? fun (ab, _) => ab.1 != ab.2) with
          | some ((a, _), i) => s!"diff@{i}:{showRec a}"
          | none => s!"diff@len:{mine.length}"
      s!"bt={bt} bh={bh} bf={bf} fuel={fuel} bls={if ls == leafScale then "ok" else s!"diff:{ls}"}"
  | _, _ => "bt=unparsed"

/-- `wf=..  lf=..  qfuel=..  mq=..  mqorder=..` : well-formedness certificate of the real tree (`wfTree`), its childless
    nodes carry `leaf_scale` (`leavesAt`, hypothesis of `cover_query_fuel_suffices`), the fuel the query model runs with
    (`queryFuel`, the bound of that theorem), the model query run on the tree compared with the real candidate sets (as
    sets; identical order is a fidelity diagnostic only); `mq=err` = the model did not answer (impossible when `lf=1`) -/
def treeReport (sp : Space) (sh : Nat) (k : Nat) (treeS : String) (raw : List (List Nat))
    (gsds : Option (String × String)) : String :=
  match allSome ((splitNonEmpty treeS ",").map (parseRec sh)) with
  | none => "wf=unparsed"
  | some recs =>
    match buildNode recs with
    | some (top, []) =>
      let wf := wfTree sp.dist sp.N top
      let leafScale := firstLeafScale top
      let br := match gsds with
        | some (g, d) => " " ++ buildReport sp sh recs leafScale g d
        | none => ""
      -- hypothesis of `cover_query_fuel_suffices`: every childless node carries the leaf scale; under it the query
      -- model, run with the fuel `top.queryFuel` of that theorem, answers (`mq=err` is then impossible)
      let lf := CNode.leavesAt leafScale top
      match batchQuery sp.dist id (k + 1) leafScale top with
      | none => s!"wf={b2s wf} lf={b2s lf} mq=err qfuel={top.queryFuel}{br}"
      | some res =>
        let sameSets := res.length == raw.length && (res.zip raw).all fun (a, b) =>
          a.head? == b.head? && a.tail.mergeSort == b.tail.mergeSort
        let sameOrder := res == raw
        let firstDiff := ((res.zip raw).find? fun (a, b) => !(a.head? == b.head? && a.tail.mergeSort == b.tail.mergeSort)).map
          fun (a, _) => toString (a.headD 0)
        s!"wf={b2s wf} lf={b2s lf} qfuel={top.queryFuel} mq={if sameSets then "ok" else "diff@q" ++ firstDiff.getD "?"} mqorder={if sameOrder then "same" else "diff"} nodes={recs.length} leafscale={leafScale}{br}"
    | _ => "wf=unparsed-tree"

def answer (line : String) : String :=
  let fs := fields line
  match mkSpace fs, (field? fs "k") >>= String.toNat? with
  | .error e, _ => "bad-case " ++ e
  | _, none => "bad-case k"
  | .ok sp, some k =>
    let method := (field? fs "method").getD "brute"
    let vs := ((field? fs "vs") >>= parseNats).getD []
    let brief := (field? fs "brief") == some "1"
    let pts := List.range sp.N
    let ids? := (field? fs "ids") >>= parseLists
    let raw? := (field? fs "raw") >>= parseLists
    let showObs (ls : List (List Nat)) : String :=
      if brief then "-" else String.intercalate ";" (ls.zipIdx.map fun (l, i) => obs sp i l)
    if method == "covertree" then
      -- the model of the wrapper runs on the candidate sets the real query returned
      match raw?, ids? with
      | some raw, some ids =>
        -- raw[r] = query :: candidates (result order of the batch query is not the sample order)
        let byQuery : List (Nat × List Nat) := raw.filterMap fun r => match r with | q :: c => some (q, c) | [] => none
        let sel : List (Nat × List Nat) := byQuery.map fun (q, c) => (q, coverSelect sp.dist q k c)
        -- identical tie-breaking (std::pair's operator< = pairLt): the lists must agree entry by entry
        let wrap := firstBad sel fun _ (q, l) => if ids.getD q [] == l then none else some s!"q{q}"
        let cq := firstBad byQuery fun _ (q, c) =>
          if !decide (CandsOk sp.dist pts q k c) then some s!"q{q}:candsOk"
          else if candidatesExact sp k q c then none else some s!"q{q}"
        let cover := if (byQuery.map (·.1)).mergeSort == pts then "ok" else "bad"
        let mlists := pts.map fun i => ((sel.find? (·.1 == i)).map (·.2)).getD []
        let oracle := firstBad ids fun i l => if isExactKnn sp.dist pts k i l then none else some (reason sp k i l)
        let ties := (byQuery.filter fun (_, c) => c.length > k + 1).length
        let tr := match field? fs "tree" with
          | some t =>
            let gsds := match field? fs "gs", field? fs "ds" with
              | some g, some d => some (g, d)
              | _, _ => none
            " " ++ treeReport sp (((field? fs "sh") >>= String.toNat?).getD 0) k t raw gsds
          | none => ""
        s!"model={showObs mlists} alt= impl={showObs ids} oracle={oracle} corr={wrap} wrap={wrap} cq={cq} queries={cover} ties={ties}{tr}"
      | _, _ => "model=- alt= no-impl"
    else
      let ml := modelLists sp method k vs ((field? fs "metric").getD "")
      let alt := pts.filter fun i => altAdmissible sp k i
      let head := s!"model={showObs ml} alt=" ++ String.intercalate "," (alt.map toString)
      -- the model itself must satisfy the specification wherever the second outcome is impossible
      let mspec := firstBad ml fun i l => if isExactKnn sp.dist pts k i l then none else some (reason sp k i l)
      match ids? with
      | none => head ++ s!" mspec={mspec}"
      | some ids =>
        let oracle := firstBad ids fun i l => if isExactKnn sp.dist pts k i l then none else some (reason sp k i l)
        let corr := firstBad (ids.zip ml) fun i (l, m) => if obs sp i l == obs sp i m then none else some "obs"
        let nl := if ids.length == sp.N then "" else " nlists=bad"
        head ++ s!" impl={showObs ids} oracle={oracle} corr={corr} mspec={mspec}{nl}"

def main : IO Unit := runLines answer
