import TapkeeVerif.Model.Util
import TapkeeVerif.Model.Mat
import TapkeeVerif.Model.DMat
import TapkeeVerif.Model.Dijkstra
import TapkeeVerif.Model.DijkstraSpec
import TapkeeVerif.Model.IsomapPre
import TapkeeVerif.Model.Cert
import TapkeeVerif.Model.DijkstraSched
import TapkeeVerif.Model.DijkstraFib
/-! Line-protocol driver for property C04 (DESIGN §11).

  in : `geo heap=pq|fib|fibheap N=4 lists=1,2;2,3;3,0;0,1 w=0,1,4,2;… lm=2,0 [ch=seed] [sched=seed threads=T]`
       `heap=fibheap`: the Fibonacci build with the concrete heap model of property C16 (`Model/DijkstraFib.lean`);
       `sched=`: run the iterations as a pseudo-random schedule over `T` threads with garbage-filled scratch state
       (`Model/DijkstraSched.lean`) instead of sequentially
  out: `F=<N rows> L=<rows>`       rows `;`-separated, entries `,`-separated, `dblmax` = not reached;
                                    `F=ERR:oob` when the model reaches undefined behaviour

  in : `oracle N=… lists=… w=… lm=… F=<rows> L=<rows>`      (observations of the implementation)
  out: `sp=ok|reject diag=ok|bad direct=ok|bad|na lm=ok|bad|na`

  in : `iso N=8 nb=<lists> w=<distance matrix> pre=<matrix seen by the eigensolver> [d=2 ev=<eigenvalues> Y=<embedding>]
        [approx=1 : compare `pre` within 2⁻³⁰·scale (`pre=ok~`) instead of exactly] [thrown=1]`
  out: `graph=ok|ERR:oob reach=finite|unreachable pre=ok|differ@i,j:model:impl|thrown|na cmds=ok|differ@…|na sym=0|1
        y=ok|FAIL-…|inconclusive|na`   (`reach`: does the model predict finite geodesics on the observed lists?)
       `y`: certificate that the returned embedding is the classical-MDS solution of the reference geodesics,
       decided in exact rational arithmetic on the dyadic values the implementation returned, tolerance 2⁻³⁰·scale:
       `YᵀY = diag(max λ 0)`, `B Y = Y diag λ` for `B = −½ J S J` computed from the Floyd–Warshall geodesics of the observed lists, and
       (Sylvester inertia of `B − σ·1`) no eigenvalue of `B` above the returned ones.
-/
open TapkeeVerif TapkeeVerif.Util TapkeeVerif.Dijkstra

def parseList (s : String) : Option (Array Nat) :=
  if s == "-" then some #[] else (parseNats s ",").map List.toArray

def parseLists (s : String) : Option (Array (Array Nat)) :=
  (allSome ((splitNonEmpty s ";").map parseList)).map List.toArray

def parseCell (s : String) : Option (Option Rat) :=
  if s == "dblmax" then some none else (parseRat s).map some

def parseTab (s : String) : Option (Tab Rat) :=
  (allSome ((splitNonEmpty s ";").map fun r =>
    (allSome ((splitNonEmpty r ",").map parseCell)).map List.toArray)).map List.toArray

def parseRatMat (s : String) : Option (Array (Array Rat)) :=
  (allSome ((splitNonEmpty s ";").map fun r => (parseRats r ",").map List.toArray)).map List.toArray

def log2Exact (d : Nat) : Option Nat :=
  let e := d.log2
  if 2 ^ e = d then some e else none

/-- the harness's `vh::num` format: integers plainly, dyadics as `m:e` with odd `m` -/
def showDy (q : Rat) : String :=
  if q.den = 1 then toString q.num else
    match log2Exact q.den with
    | some e => s!"{q.num}:-{e}"
    | none => s!"{q.num}/{q.den}"

def showCell : Option Rat → String
  | none => "dblmax"
  | some q => showDy q

def showRows {n : Nat} (rows : List (Vector (Option Rat) n)) : String :=
  String.intercalate ";" (rows.map fun r => String.intercalate "," (r.toList.map showCell))

def showErr : Err → String
  | .oob => "ERR:oob"
  | .fuel => "ERR:fuel"
  | .heap => "ERR:heap"

def mkW (W : Array (Array Rat)) : Nat → Nat → Rat := fun u x => ((W[u]?).bind (·[x]?)).getD 0

/-- deterministic family of tie-breaking streams; seed 0 always takes the first minimal entry -/
def chooser (seed : Nat) (s t : Nat) : Nat :=
  if seed = 0 then 0 else (seed * 1000003 + s * 7919 + t * 104729 + t * t * 31 + s * t) % 1000007

def discOf (s : String) : Disc := if s == "fib" then .indexed else .lazy

structure Case where
  P : Problem Rat
  lm : List Nat
  hasLm : Bool

def parseCase (fs : List (String × String)) : Option Case := do
  let N ← field? fs "N" >>= String.toNat?
  let lists ← parseLists ((field? fs "lists").getD "")
  let W ← parseRatMat ((field? fs "w").getD "")
  let lmS := field? fs "lm"
  let lm ← match lmS with
    | none => some []
    | some s => parseNats s ","
  pure { P := { N := N, nbrs := lists, w := mkW W }, lm := lm, hasLm := lmS.isSome }

/-- a pseudo-random schedule: every loop index `< R` once, in a scrambled order, on scrambled threads -/
def mkSchedule (seed R T : Nat) : List (Nat × Nat) :=
  let keyed := (List.range R).map fun r => ((seed * 2654435761 + r * 40503 + r * r * 7) % 1000003, r)
  let sorted := keyed.toArray.qsort (fun a b => a.1 < b.1 || (a.1 == b.1 && a.2 < b.2))
  sorted.toList.map fun (key, r) => ((key + seed) % (if T = 0 then 1 else T), r)

def garbageWorld (N R T : Nat) : World Rat N :=
  { rows := List.replicate R (Vector.replicate N (some 7)),
    scr := List.replicate T { s := Vector.replicate N true, f := Vector.replicate N true, heap := [] } }

def runSched (P : Problem Rat) (disc : Disc) (k : Nat) (ch : Nat → Nat → Nat) (srcOf flagOf : Nat → Nat)
    (seed R T : Nat) : Except Err (List (Vector (Option Rat) P.N)) :=
  match runSchedule P disc k ch srcOf flagOf (mkSchedule seed R T) (garbageWorld P.N R T) with
  | .ok W => .ok W.rows
  | .error e => .error e

def lcmDen (W : Array (Array Rat)) : Nat := W.foldl (fun acc r => r.foldl (fun a q => Nat.lcm a q.den) acc) 1

/-- the concrete-heap model works on `Int` keys: scale the dyadic weights by their common denominator -/
def fibHeapRun (c : Problem Rat) (W : Array (Array Rat)) (lm : Option (List Nat)) : String × String :=
  let den := lcmDen W
  let P' : Problem Int := { N := c.N, nbrs := c.nbrs, w := fun u x => (mkW W u x * (den : Rat)).num }
  let back (rows : List (Vector (Option Int) c.N)) : List (Vector (Option Rat) c.N) :=
    rows.map fun r => r.map fun o => o.map fun (z : Int) => (z : Rat) / (den : Rat)
  let f := match fibAllPairs P' with
    | .ok rows => showRows (back rows)
    | .error e => showErr e
  let l := match lm with
    | none => ""
    | some lm => match fibLandmarkRows P' lm with
      | .ok rows => showRows (back rows)
      | .error e => showErr e
  (f, l)

def answerGeo (fs : List (String × String)) : String :=
  match parseCase fs with
  | none => "bad-case"
  | some c =>
    let heap := (field? fs "heap").getD "pq"
    if heap == "fibheap" then
      match parseRatMat ((field? fs "w").getD "") with
      | none => "bad-case"
      | some W =>
        let (f, l) := fibHeapRun c.P W (if c.hasLm then some c.lm else none)
        s!"F={f} L={l}"
    else
    let disc := discOf heap
    let seed := ((field? fs "ch") >>= String.toNat?).getD 0
    match field? fs "sched" >>= String.toNat?, c.P.k? with
    | some ss, some k =>
      let T := ((field? fs "threads") >>= String.toNat?).getD 3
      let f := match runSched c.P disc k (chooser seed) id id ss c.P.N T with
        | .ok rows => showRows rows
        | .error e => showErr e
      let l := if c.hasLm then
          match runSched c.P disc k (chooser (seed + 1)) (fun r => c.lm.getD r 0)
              (fun r => Gen.Isomap.landmarkFlag r (c.lm.getD r 0)) (ss + 1) c.lm.length T with
          | .ok rows => showRows rows
          | .error e => showErr e
        else ""
      s!"F={f} L={l}"
    | _, _ =>
    let f := match allPairs c.P disc (chooser seed) with
      | .ok rows => showRows rows
      | .error e => showErr e
    let l := if c.hasLm then
        match landmarkRows c.P disc (chooser (seed + 1)) c.lm with
        | .ok rows => showRows rows
        | .error e => showErr e
      else ""
    s!"F={f} L={l}"

def okBad (b : Bool) : String := if b then "ok" else "bad"

def answerOracle (fs : List (String × String)) : String :=
  match parseCase fs, parseTab ((field? fs "F").getD ""), parseTab ((field? fs "L").getD "") with
  | some c, some F, some L =>
    match c.P.k? with
    | none => "bad-case:k"
    | some k =>
      let sp := F.size == c.P.N && F.all (·.size == c.P.N) && isShortestPathMatrix c.P k F
      let dz := (List.range c.P.N).all fun i => F.get i i == some 0
      let direct := if c.P.N ≤ 48 && isMetric c.P.N c.P.w then okBad (geDirect c.P.N c.P.w F) else "na"
      let lm := if c.hasLm then
          okBad (L.size == c.lm.length && L.all (·.size == c.P.N) && landmarkRowsAgree c.P.N c.lm L F)
        else "na"
      s!"sp={if sp then "ok" else "reject"} diag={okBad dz} direct={direct} lm={lm}"
  | _, _, _ => "bad-case"

/-- first position where two square matrices differ -/
def firstDiff {n : Nat} (A B : Mat n n Rat) (tol : Rat := 0) : Option (Nat × Nat × Rat × Rat) :=
  (List.finRange n).findSome? fun i => (List.finRange n).findSome? fun j =>
    let e := A i j - B i j
    if (if e < 0 then -e else e) ≤ tol then none else some (i.1, j.1, A i j, B i j)

def absR (x : Rat) : Rat := if x < 0 then -x else x

/-- `2⁻³⁰` -/
def εrel : Rat := 1 / 1073741824

/-- certificate for the final embedding (see the header); `B` is the reference classical-MDS matrix -/
def embeddingCert (fs : List (String × String)) (N : Nat) (B : DMat N N Rat) : String :=
  match field? fs "d" >>= String.toNat?, parseRatMat ((field? fs "ev").getD ""), parseRatMat ((field? fs "Y").getD "") with
  | some d, some ev, some Yr =>
    if N > 16 then "na:N>16" else
    if !(ev.size == 1 && (ev[0]?.map (·.size)).getD 0 == d && Yr.size == N && Yr.all (·.size == d)) then "FAIL-shape" else
    let Y := DMat.ofFn (n := N) (m := d) fun i j => mkW Yr i.1 j.1
    let lam := DVec.ofFn (n := d) fun j => mkW ev 0 j.1
    let lamPlus : Vec d Rat := fun j => if lam.get j < 0 then 0 else lam.get j
    let bmax := Cert.maxAbs B.get
    let lmax := Cert.maxFin d fun j => absR (lam.get j)
    let ymax := Cert.maxAbs Y.get
    let scale := Cert.maxK (Cert.maxK bmax lmax) 1
    let tol := εrel * scale
    let g := Cert.maxAbs (Cert.gramDefect Y.get lamPlus)
    let r := Cert.residMax B.get Y.get lam.get
    if g > tol then "FAIL-gram"
    else if r > tol * Cert.maxK ymax 1 then "FAIL-span"
    else
      -- no eigenvalue of B above the returned ones: try just below and just above the smallest returned one
      let lo := Cert.minVec lam.get
      let ext := Cert.extremalAt B.get lam.get (lo - tol) || Cert.extremalAt B.get lam.get (lo + tol) ||
                 Cert.extremalAt B.get lam.get (lo - 3 * tol) || Cert.extremalAt B.get lam.get (lo + 3 * tol)
      if ext then "ok" else
        match Cert.inertiaPos B.get (lo - tol), Cert.inertiaPos B.get (lo + tol) with
        | none, none => "inconclusive"
        | _, _ => "FAIL-extremal"
  | _, _, _ =>
    -- fields present but not finite numbers of the right shape (`nan`, `inf`): a non-finite embedding
    if (field? fs "Y").isSome && (field? fs "ev").isSome then "FAIL-nonfinite" else "na"

def answerIso (fs : List (String × String)) : String :=
  match field? fs "N" >>= String.toNat?, parseLists ((field? fs "nb").getD ""),
        parseRatMat ((field? fs "w").getD ""),
        (if (field? fs "thrown").isSome then none else (field? fs "pre") >>= parseRatMat) with
  | some N, some nb, some W, some pre =>
    let P : Problem Rat := { N := N, nbrs := nb, w := mkW W }
    match allPairs P .lazy (chooser 0) with
    | .error e => s!"graph={showErr e} reach=na pre=na cmds=na sym=na y=na"
    | .ok rows =>
      let G : Tab Rat := (rows.map (·.toArray)).toArray
      let thrown := (field? fs "thrown").isSome
      if (List.range N).any fun i => (List.range N).any fun j => (G.get i j).isNone then
        -- the model predicts failure: some squared geodesic is dblmax² = inf, the centred matrix is not finite
        s!"graph=ok reach=unreachable pre={if thrown then "thrown" else "na"} cmds=na sym=na y=na"
      else if thrown then
        "graph=ok reach=finite pre=thrown cmds=na sym=na y=na"
      else
        -- caches are first-order data (`DMat`): a `Mat`-valued `let` would be recomputed per entry
        let D := DMat.ofFn (n := N) (m := N) fun i j => (G.get i.1 j.1).getD (0 : Rat)
        let preModel := DMat.ofFn (IsomapPre.isomapPre D.get)
        let preImpl := DMat.ofFn (n := N) (m := N) fun i j => mkW pre i.1 j.1
        -- `approx=1` (declared by the generator for weights whose squares are not exact in double): the matrices are
        -- compared within 2⁻³⁰·scale instead of exactly
        let approx := (field? fs "approx") == some "1"
        let tolPre : Rat := if approx then εrel * Cert.maxK (Cert.maxAbs preModel.get) 1 else 0
        let sizeOk := pre.size == N && pre.all (·.size == N)
        let a := if !sizeOk then "differ@size" else
          match firstDiff preModel.get preImpl.get tolPre with
          | none => if approx then "ok~" else "ok"
          | some (i, j, m, x) => s!"differ@{i},{j}:{showDy m}:{showDy x}"
        -- what the dense solver decomposes vs classical MDS of the averaged squared geodesics
        -- reference geodesics for the property's oracle and the certificate: Floyd–Warshall (`DijkstraSpec.fw`, the
        -- oracle's own definition), independent of the Dijkstra model used for `preModel`
        let Gref : Tab Rat := match P.k? with
          | some k => fw P k
          | none => G
        let Dref := DMat.ofFn (n := N) (m := N) fun i j => (Gref.get i.1 j.1).getD (0 : Rat)
        let refOk := (List.range N).all fun i => (List.range N).all fun j => Gref.get i j == G.get i j
        let S := DMat.ofFn (IsomapPre.avgSquares Dref.get)
        let J := DMat.ofFn (IsomapPre.centering (K := Rat) (n := N))
        let JS := DMat.ofFn (Mat.mul J.get S.get)
        let want := DMat.ofFn (n := N) (m := N) fun i j =>
          (-(1 / 2 : Rat)) * Mat.mul JS.get J.get i j
        let is := DMat.ofFn (IsomapPre.denseSolverInput preImpl.get)
        let b := match firstDiff is.get want.get tolPre with
          | none => "ok"
          | some (i, j, m, x) => s!"differ@{i},{j}:{showDy m}:{showDy x}"
        let sym := (List.range N).all fun i => (List.range N).all fun j => G.get i j == G.get j i
        let y := embeddingCert fs N want
        s!"graph=ok reach=finite pre={a} cmds={b} sym={if sym then 1 else 0} y={y} ref={if refOk then "ok" else "DIFFERS"}"
  | some N, some nb, some W, none =>
    -- no matrix observed (the implementation threw before / inside the eigensolver): judge the graph only
    let P : Problem Rat := { N := N, nbrs := nb, w := mkW W }
    match allPairs P .lazy (chooser 0) with
    | .error e => s!"graph={showErr e} reach=na pre=na cmds=na sym=na y=na"
    | .ok rows =>
      let G : Tab Rat := (rows.map (·.toArray)).toArray
      let unreach := (List.range N).any fun i => (List.range N).any fun j => (G.get i j).isNone
      -- not thrown but no readable matrix: the matrix handed to the solver contains `nan` / `inf`
      let preTxt := if (field? fs "thrown").isSome then "thrown" else "FAIL-nonfinite"
      s!"graph=ok reach={if unreach then "unreachable" else "finite"} pre={preTxt} cmds=na sym=na y=na"
  | _, _, _, _ => "bad-case"

def answer (line : String) : String :=
  let fs := fields line
  if line.startsWith "geo " then answerGeo fs
  else if line.startsWith "oracle " then answerOracle fs
  else if line.startsWith "iso " then answerIso fs
  else "bad-topic"

def main : IO Unit := runLines answer
