import Driver.Common0810
import Driver.LLRun
import TapkeeVerif.Model.Laplacian
import TapkeeVerif.Model.LinearGraph
/-! Line-protocol driver for C10 (NPE, LLTSA, LPP).  Input line = case fields + observation fields of
    harness/c10_lin.cpp; output = verdict line (see Driver/C08.lean for the verdict grammar).

    * routine level (`op=npe|lltsa|lpp`): `(lhs, rhs)` entrywise vs `npeProblemD / lltsaProblemD / lppProblemD`;
      `mode=exact` requires equality (integer features, integer sparse matrix, N a power of two);
    * public API (`op=embed`): solver input vs the model (weights from the C08/C09 models on contract-checked oracle
      values), projection matrix certified against the **full** `Fᵀ M F`, `Fᵀ B F` (residual, B-orthogonality, inertia
      brackets), embedding = projected centred samples;
    * `leg=rot`: rotation metamorphism on the implementation's two runs (`Y Yᵀ`, `P Pᵀ` compared). -/
open TapkeeVerif TapkeeVerif.Util TapkeeVerif.Cert TapkeeVerif.LocallyLinear TapkeeVerif.LinearGraph

def needVec (fs : List (String × String)) (k : String) (n : Nat) : E (Array Fix) := do
  match parseVecA parseFix (← need fs k) with
  | some v => if v.size = n then pure v else throw s!"vector {k} has size {v.size}, expected {n}"
  | none => throw s!"bad vector {k}"

def fullOf {N D : Nat} (M : Mat N N Fix) (F : Mat N D Fix) : Array (Array Fix) :=
  -- Fᵀ (M F), staged
  let MF := DMat.ofFn (Mat.mul M F)
  (DMat.ofFn fun (i j : Fin D) => sumFin N fun r => F r i * MF.get r j).data

def gramOuter (Y : Array (Array Fix)) (n d : Nat) : Array (Array Fix) :=
  mulArr Y (transposeArr Y n d) n d n

/-- scale every column to unit `B`-norm (the property does not fix the normalisation of the projection columns) -/
def normalizeCols (P : Array (Array Fix)) (B : Array (Array Fix)) (D d : Nat) : Option (Array (Array Fix)) :=
  let BP := mulArr B P D D d
  let nrm : Array Fix := Array.ofFn fun c : Fin d =>
    Fix.sqrt ((List.range D).foldl (fun acc i => acc + (P[i]!)[c.1]! * (BP[i]!)[c.1]!) 0)
  if nrm.any (fun x => x.m ≤ 0) then none
  else some (P.map fun row => Array.ofFn fun c : Fin d => row[c.1]! / nrm[c.1]!)

def answerCore (fs : List (String × String)) : E String := do
  let op ← need fs "op"
  let N ← needNat fs "N"
  let D ← needNat fs "D"
  if hN : 0 < N then
    let Fa ← needInput fs "feat" N D
    let F : Mat N D Fix := matOf Fa N D
    if op == "npe" || op == "lltsa" || op == "lpp" then
      let Wa ← needMat fs "W" N N
      let W : Mat N N Fix := matOf Wa N N
      let exact := (field? fs "mode") == some "exact"
      let (lhsM, rhsM) ←
        if op == "npe" then pure (npeProblemD W F)
        else if op == "lltsa" then pure (lltsaProblemD W F)
        else do
          let dg ← needVec fs "Dg" N
          pure (lppProblemD W (vecOf dg N) F)
      if (field? fs "abort").isSome then return "res=FAIL:abort model=ok"
      let lhsI ← needMat fs "lhs" D D
      let rhsI ← needMat fs "rhs" D D
      let tol : Fix := if exact then 0 else tolM
      let sc := maxRowSum Wa * maxAbsArr Fa * maxAbsArr Fa
      let cl := cmpArr tol lhsI lhsM.data (if exact then 0 else sc)
      if !cl.ok then return s!"res=FAIL:lhs-differs-from-model {describe cl}"
      let cr := cmpArr tol rhsI rhsM.data
      if !cr.ok then return s!"res=FAIL:rhs-differs-from-model {describe cr}"
      let n := 2 * D * D
      return s!"res=ok {describe cl} " ++ (if exact then s!"exact={n}" else s!"approx={n}")
    else if op == "embed" then
      let method ← need fs "method"
      let d ← needNat fs "d"
      if (field? fs "abort").isSome then return "res=FAIL:abort model=ok"
      let threw ← need fs "threw"
      if (← need fs "uniform") != "1" then return "res=SKIP:nonuniform-neighbour-lists"
      let nb ← needNb fs "nb" N hN
      -- the sample-space matrices M and B of the property, from the raw inputs
      let (κa, kexp) ← needMatNorm fs "kern" N N
      let κ : Mat N N Fix := matOf κa N N
      let da ← needInput fs "dist" N N
      let dist : Mat N N Fix := matOf da N N
      match (if method == "lpp" then knnContractBy (fun i j => dist i j) nb else knnContract κ nb) with
      | some e => return s!"res=BROKEN:neighbours {e}"
      | none => pure ()
      let (Ma, Bdiag, probL, probR) ←
        if method == "lpp" then do
          let width ← needFix fs "width"
          let H := Laplacian.heatsD Fix.exp dist width nb.f
          let heat ← needMat fs "heat" N nb.k
          for i in [0:N] do
            for a in [0:nb.k] do
              if !(fabs ((heat[i]!)[a]! - (H.data[i]!)[a]!) ≤ tolPow 36 * fabs ((H.data[i]!)[a]!) + tolPow 180) then
                throw "CONTRACT:exp-contract"
              if ((heat[i]!)[a]!).m ≤ 0 then throw "SKIP:heat-underflow"
          let Dg := Laplacian.degreesD nb.f H.get
          let L := Laplacian.laplacianLD nb.f H.get
          let pr := lppProblemD L.get Dg.get F
          pure (L.data, some Dg.data, pr.1.data, pr.2.data)
        else if method == "npe" then do
          let (M, _, _, _) ← runModelLle hN fs κ nb kexp
          let pr := npeProblemD (matOf M N N) F
          pure (M, none, pr.1.data, pr.2.data)
        else do
          let (M, _, _, _) ← runModelEig hN fs κ nb false kexp
          let pr := lltsaProblemD (matOf M N N) F
          pure (M, none, pr.1.data, pr.2.data)
      if threw != "-" then return s!"res=FAIL:threw what={threw}"
      let lhs ← needMat fs "lhs" D D
      let rhs ← needMat fs "rhs" D D
      let sc := maxRowSum Ma * maxAbsArr Fa * maxAbsArr Fa
      let cl := cmpArr tolM lhs probL sc
      let cr := cmpArr tolM rhs probR
      let hook := s!"{← need fs "calls"},{← need fs "skip"},{← need fs "smallest"},{← need fs "gen"},{← need fs "td"}"
      let P ← needMat fs "P" D d
      let vecs ← needMat fs "vecs" D d
      let Y ← needMat fs "Y" N d
      if (field? fs "leg") == some "rot" then
        -- rotation metamorphism on the implementation: same kernel / distances, features R·x
        if (← need fs "threw2") != "-" then return s!"res=FAIL:threw what={← need fs "threw2"}"
        let R ← needMat fs "rot" D D
        let P2 ← needMat fs "P2" D d
        let Y2 ← needMat fs "Y2" N d
        if d < D then
          let all ← match parseVecA parseFix (← need fs "allvals") with
            | some v => pure v
            | none => throw "bad allvals"
          if all.size ≠ D then return "res=SKIP:no-spectrum"
          let gap := all[d]! - all[d - 1]!
          let spec := all.foldl (fun acc x => fmax acc (fabs x)) 0
          -- the boundary gap must be visible both relative to the two eigenvalues and relative to the whole spectrum
          -- (several eigenvalues at rounding-noise level around 0 are one degenerate eigenvalue)
          if !(tolPow 8 * (fabs (all[d]!) + fabs (all[d - 1]!)) ≤ gap) || !(tolPow 20 * spec ≤ gap) then
            return "res=SKIP:degenerate-boundary"
        let gY := gramOuter Y N d
        let gY2 := gramOuter Y2 N d
        let cY := cmpArr (tolPow 16) gY2 gY
        if !cY.ok then return s!"res=FAIL:rotation:embedding-changes {describe cY}"
        let RP := mulArr R P D D d
        let cP := cmpArr (tolPow 16) (gramOuter P2 D d) (gramOuter RP D d)
        if !cP.ok then return s!"res=FAIL:rotation:projection-not-rotated {describe cP}"
        if !cl.ok then return s!"res=BROKEN:solver-input-lhs {describe cl}"
        if !cr.ok then return s!"res=BROKEN:solver-input-rhs {describe cr}"
        return s!"res=ok rot-embedding={relDev cY} rot-projection={relDev cP} approx={N * N + D * D}"
      -- embedding = centred samples projected on the columns
      let Pf : Mat D d Fix := matOf P D d
      let mean := DVec.ofFn (meanVec F)
      let Ym := (DMat.ofFn fun (r : Fin N) (c : Fin d) => sumFin D fun j => Pf j c * (F r j - mean.get j)).data
      let cY := cmpArr tolM Y Ym
      if !cY.ok then return s!"res=FAIL:embedding-is-not-the-projection {describe cY}"
      -- certificate against the FULL feature-space problem
      -- LLTSA: the alignment matrix acts on the centred features, A = Fᵀ (H M H) F  (H M H = alignment + shift·H, so the
      -- pencil (A, Fᵀ H F) has the eigenvectors of the property's (X M Xᵀ, X H Xᵀ) with M the alignment matrix proper)
      let Mf0 : Mat N N Fix := matOf Ma N N
      -- (first-order data on both branches: a function-typed `if` would be re-evaluated per entry)
      let McD : DMat N N Fix :=
        if method == "lltsa" then
          let Hc : DMat N N Fix := DMat.ofFn (centering : Mat N N Fix)
          let HM : DMat N N Fix := DMat.ofFn (Mat.mul Hc.get Mf0)
          DMat.ofFn (Mat.mul HM.get Hc.get)
        else DMat.ofFn Mf0
      let Mf : Mat N N Fix := McD.get
      let A := fullOf Mf F
      let Bm : Mat N N Fix := match Bdiag with
        | some dg => fun r c => if r = c then dg[r.1]! else 0
        | none => if method == "lltsa" then centering else fun r c => if r = c then 1 else 0
      let B := fullOf Bm F
      match normalizeCols P B D d with
      | none => return "res=FAIL:certificate:non-positive-B-norm"
      | some Pn =>
        let btr := (List.range D).foldl (fun acc i => acc + (B[i]!)[i]!) 0
        if btr.m ≤ 0 then return "res=SKIP:degenerate-rhs"
        let ev0 := maxRowSum A / (btr / (D : Fix))
        -- Rayleigh quotients for the eigenvalue scale
        let Pt := transposeArr Pn D d
        let AG := mulArr Pt (mulArr A Pn D D d) d D d
        let muMax := (List.range d).foldl (fun acc c => fmax acc (fabs ((AG[c]!)[c]!))) 0
        let evScale := fmax ev0 muMax
        let co := certBottom D d A (some B) Pn false false evScale (tolPow 20) (tolPow 20) tolC
        if !co.ok then return s!"res=FAIL:certificate:{co.why} {certLine co} {describe cl}"
        if !cl.ok then return s!"res=BROKEN:solver-input-lhs {describe cl}"
        if !cr.ok then return s!"res=BROKEN:solver-input-rhs {describe cr}"
        if hook != s!"1,1,1,1,{d}" then return s!"res=BROKEN:solver-call calls,skip,smallest,gen,td={hook}"
        if (cmpArr 0 P vecs).maxdev.m ≠ 0 then return "res=BROKEN:projection-is-not-the-solver-output"
        return s!"res=ok {describe cl} {certLine co} approx={2 * D * D + N * d}"
    else throw s!"unknown op {op}"
  else throw "N=0"

def answer (line : String) : String :=
  let fs := fields line
  match answerCore fs with
  | .ok s => s
  | .error e =>
    if e.startsWith "SKIP:" then
      -- an implementation exception on an input the model skips is counted separately (never silently dropped)
      (if (field? fs "threw").isSome && field? fs "threw" != some "-" then "res=SKIP:impl-threw-on-skipped-input " else "res=") ++ e
    else if e.startsWith "MODEL-ERR:" then "res=" ++ e
    else if e.startsWith "CONTRACT:" then "res=BROKEN:oracle-contract " ++ (e.drop 9).toString
    else if e == "nonuniform" then "res=SKIP:nonuniform-neighbour-lists"
    else "res=BADCASE:" ++ e

def main : IO Unit := runLines answer
