import TapkeeVerif.Model.Util
import TapkeeVerif.Model.Pipeline
/-! Line-protocol driver for the configuration-level model of C01 (DESIGN §6 C01, §11).
    in : `sweep id=3 method=hlle nm=brute em=dense N=17 D=3 d=3 k=12 data=generic seed=5 [ratio=1/2] [perp=2] …`
    out: `validated=1 ok=17x3 throws=eigendecomposition_error finite=0 sites=hlle_col`
         (`ok=-` : no successful result permitted; `throws=-`, `sites=-` : empty) -/
open TapkeeVerif TapkeeVerif.Util TapkeeVerif.Pipeline TapkeeVerif.Gen.IndexExprs

def nmOf : String → Option NeighborsMethod
  | "brute" => some .brute | "vptree" => some .vptree | "covertree" => some .covertree | _ => none

def emOf : String → Option EigenMethod
  | "dense" => some .dense | "randomized" => some .randomized | _ => none

def optInt (fs : List (String × String)) (k : String) (dflt : Int) : Option Int :=
  match field? fs k with
  | none => some dflt
  | some s => s.toInt?

def optRat (fs : List (String × String)) (k : String) (dflt : Rat) : Option Rat :=
  match field? fs k with
  | none => some dflt
  | some s => parseRat s

def optBool (fs : List (String × String)) (k : String) (dflt : Bool) : Bool :=
  match field? fs k with
  | some "1" => true
  | some "0" => false
  | _ => dflt

def parseConfig (fs : List (String × String)) : Option (Config × DataClass) := do
  let m ← field? fs "method" >>= Method.ofName?
  let nm ← match field? fs "nm" with
    | none => some NeighborsMethod.covertree     -- default_neighbors_method under TAPKEE_USE_LGPL_COVERTREE
    | some s => nmOf s
  let em ← match field? fs "em" with
    | none => some EigenMethod.dense
    | some s => emOf s
  let N ← field? fs "N" >>= String.toInt?
  let D ← field? fs "D" >>= String.toInt?
  let z := defaultConfig m nm em N D
  let data ← match field? fs "data" with
    | none => some DataClass.generic
    | some s => DataClass.ofName? s
  let c : Config :=
    { z with
      d := ← optInt fs "d" z.d
      k := ← optInt fs "k" z.k
      ratio := ← optRat fs "ratio" z.ratio
      perp := ← optRat fs "perp" z.perp
      theta := ← optRat fs "theta" z.theta
      width := ← optRat fs "width" z.width
      squish := ← optRat fs "squish" z.squish
      speTol := ← optRat fs "spe_tol" z.speTol
      faEps := ← optRat fs "fa_eps" z.faEps
      nullShift := ← optRat fs "nullshift" z.nullShift
      klleShift := ← optRat fs "klleshift" z.klleShift
      timesteps := ← optInt fs "timesteps" z.timesteps
      speUpd := ← optInt fs "spe_upd" z.speUpd
      maxIter := ← optInt fs "maxit" z.maxIter
      speGlobal := optBool fs "spe_global" z.speGlobal
      checkConn := optBool fs "check_conn" z.checkConn }
  pure (c, data)

def showList (l : List String) : String := if l.isEmpty then "-" else String.intercalate "," l

def answer (line : String) : String :=
  let fs := fields line
  match parseConfig fs with
  | none => "bad-case"
  | some (c, data) =>
    let p := predictionOn c data
    -- the parameter set is checked before anything else: a keyword given twice, then (when the defaults are merged)
    -- a keyword carrying a value of the wrong C++ type
    let special : Option Err :=
      if (field? fs "dupkw").isSome then some Err.multiple_parameter_error
      else if (field? fs "wrongtype").isSome then some Err.wrong_parameter_type_error else none
    let general := mustBeFinite c data && special.isNone
    let p := match special with
      | some e => ({ validated := false, ok := none, throws := [e] } : Prediction)
      | none => p
    let ok := match p.ok with
      | none => "-"
      | some (r, cc) => s!"{r}x{cc}"
    let sites := if p.validated then violatedSites c else []
    s!"validated={if p.validated then 1 else 0} ok={ok} throws={showList (p.throws.map Err.name)} finite={if general then 1 else 0} sites={showList sites}"

def main : IO Unit := runLines answer
