import TapkeeVerif.Model.Util
import TapkeeVerif.Model.Mds
import TapkeeVerif.Model.Cert
import TapkeeVerif.Model.DriverUtil
/-!
Driver for C05 (MDS / Kernel PCA / Isomap with k = N−1).  One judge line in, one verdict line out.

in : `mds method=mds|kpca|isomap N=4 d=2 solver=dense|rand in=dist|kern|pts D=3 exact=1 lowrank=0 data=r;r;…
          pre=<N rows> V=<N rows of d> lam=<d> Y=<N rows of d> nancols=<list>`
     `data` : `in=dist` the N×N matrix of callback distances, `in=kern` the N×N kernel matrix,
              `in=pts` N points with D coordinates (Euclidean distance / linear kernel callbacks);
     `pre`  : the matrix the public API handed to the eigensolver (hook), `V`,`lam` what the solver returned,
     `Y` the returned embedding (`nancols` = its columns that are NaN).
out: `pre=… eig=… post=… y=… dist=… cmp=exact:<n>,approx:<m>`
All tolerances are relative `2^-30` (declared below) and decided on exact rationals.
-/
open TapkeeVerif TapkeeVerif.Util TapkeeVerif.DriverUtil

def εrel : Rat := pow2 (-30)
def εtight : Rat := pow2 (-40)

/-- exact squared Euclidean distances of the rows of `X` -/
def sqDistOfPts {N D : Nat} (X : Mat N D Rat) : Mat N N Rat :=
  fun i j => sumFin D fun a => (X i a - X j a) * (X i a - X j a)

def linKernel {N D : Nat} (X : Mat N D Rat) : Mat N N Rat :=
  fun i j => sumFin D fun a => X i a * X j a

/-- the model's matrix for the eigensolver, from the raw data -/
def modelPre (method inp : String) (N D : Nat) (data : String) : Option (DMat N N Rat) :=
  match inp with
  | "dist" => do
    let δ ← parseMat N N data
    if method == "kpca" then none else pure (mdsPreD δ)
  | "kern" => do
    let κ ← parseMat N N data
    if method == "kpca" then pure (kpcaPreD κ) else none
  | "pts" => do
    let X ← parseMat N D data
    if method == "kpca" then
      pure (kpcaPreD (DMat.ofFn (linKernel X.get)))
    else
      -- −½·centre(squared distances), the squares taken exactly from the points (no square root)
      let D2 := DMat.ofFn (sqDistOfPts X.get)
      let C := centerMatrixD D2
      pure (DMat.ofFn (scale negHalf C.get))
  | _ => none

def answerMds (fs : List (String × String)) : String :=
  let get := field? fs
  match get "method", get "N" >>= String.toNat?, get "d" >>= String.toNat?, get "in", get "data" with
  | some method, some N, some d, some inp, some data =>
    let D := (get "D" >>= String.toNat?).getD 0
    let exact := get "exact" == some "1"
    let lowrank := get "lowrank" == some "1"
    match modelPre method inp N D data with
    | none => "bad-data"
    | some B =>
      match get "pre" >>= parseMat N N, get "V" >>= parseMat N d, get "lam" >>= parseVec d,
            get "Y" >>= parseMat N d with
      | some pre, some V, some lam, some Y =>
        let scaleB := maxAbsM B.get
        let lamMax := maxAbsM (vecAsMat lam.get)
        let scale0 := if scaleB < lamMax then lamMax else scaleB
        let scale := if scale0 == 0 then 1 else scale0      -- a zero matrix is judged with absolute tolerances
        -- 1. what reached the solver vs the model
        let cpre := cmpMat pre.get B.get (εrel * scale)
        let preTxt := if exact && !cpre.isExact then "INEXACT-" ++ cpre.show else cpre.show
        -- 2. (V, lam) is a top-d eigensystem of the MODEL's matrix
        --    tolerance of the eigen-certificate: 2^-30 for the Dense solver; 2^-20 for the Randomized solver, whose single
        --    Gram–Schmidt pass loses (λ_max/λ_min)·2^-53 of orthogonality — up to 2^-28 on the anisotropic families
        --    (retained eigenvalue ratios up to 2^25).  The embedding-level checks below stay at 2^-30 for both solvers.
        let εeig := if get "solver" == some "rand" then pow2 (-20) else εrel
        let ce := certify B.get V.get lam.get scale εeig true
        --    … and, for sizes up to `robustmax`, the extremality certificate that is sound for approximate eigenvectors
        let robustMax := (get "robustmax" >>= String.toNat?).getD 0
        let robTxt := if N ≤ robustMax && ce.ok then robustExtremal B.get V.get lam.get scale εeig else "skipped"
        -- 3. post-processing: sq j ≥ 0, sq j² = lam j, Y = V·diag sq
        --    `s j` is read off the embedding itself (ratio at the largest entry of column j of V); the contract is
        --    `s j ≥ 0 ∧ s j ² = max (lam j) 0` (the PSD factor keeps the positive part of the spectrum);
        --    columns that came back NaN are listed by the harness side in `nancols`
        let nanCols := ((get "nancols").bind (parseNats · ",")).getD []
        let sD : DVec d Rat := DVec.ofFn fun j =>
          let istar := (List.finRange N).foldl (fun (acc : Option (Fin N)) i =>
            match acc with
            | none => some i
            | some a => if absR (V.get a j) < absR (V.get i j) then some i else some a) none
          match istar with
          | some i => if V.get i j == 0 then 0 else Y.get i j / V.get i j
          | none => 0
        let lamPlus : Vec d Rat := fun j => if lam.get j < 0 then 0 else lam.get j
        let sqBad := (List.finRange d).any fun j =>
          !nanCols.contains j.1 &&
            -- per column, RELATIVE to that column's own eigenvalue: a column whose eigenvalue is tiny compared with the
            -- leading one is constrained as strictly as the leading one (s j = 0 exactly when lam j ≤ 0)
            (sD.get j < 0 || absR (sD.get j * sD.get j - lamPlus j) > εtight * lamPlus j)
        let ymax := maxAbsM Y.get
        let Ymasked : Mat N d Rat := fun i j => if nanCols.contains j.1 then 0 else Y.get i j
        let Pmasked : Mat N d Rat := fun i j => if nanCols.contains j.1 then 0 else post V.get sD.get i j
        let cpost := cmpMat Ymasked Pmasked (εtight * (if ymax == 0 then 1 else ymax))
        let postTxt :=
          if sqBad then "FAIL-sqrt-contract"
          else if !nanCols.isEmpty && !cpost.isBad then "nan-columns:" ++ cpost.show
          else cpost.show
        -- 4. the property on Y itself: YᵀY = diag lam, B Y = Y diag lam (columns span the leading eigenspace)
        let g := Cert.maxAbs (Cert.gramDefect Ymasked lamPlus)
        let ry := Cert.residMax B.get Ymasked lam.get
        let yscale := if ymax == 0 then 1 else ymax
        let nanTiny := nanCols.all fun j => if h : j < d then absR (lam.get ⟨j, h⟩) ≤ εrel * scale else true
        --    column j has squared norm = the retained eigenvalue lam j⁺, judged RELATIVE to lam j⁺ for every eigenvalue that
        --    is significant against the rounding noise of the solver (lam j⁺ > 2^-47·scale; noise ≈ N·2^-53·scale)
        let colBad := (List.finRange d).find? fun j =>
          !nanCols.contains j.1 && decide (lamPlus j > pow2 (-47) * scale) &&
            decide (absR (sumFin N (fun i => Y.get i j * Y.get i j) - lamPlus j) > εeig * lamPlus j)
        --    on inputs whose centred PSD matrix has rank ≤ d (flag `fullrec`, exact rank computed by the generator side):
        --    Y·Yᵀ reproduces the model's matrix — the fine check for Kernel PCA (no distance leg there)
        let fullrec := get "fullrec" == some "1"
        let recBad : Option Cmp :=
          if fullrec && nanCols.isEmpty then
            let G := DMat.ofFn (gramRows Y.get)
            let c := cmpMat G.get B.get (εrel * scale)
            if c.isBad then some c else none
          else none
        let yTxt :=
          if !nanCols.isEmpty then
            (if nanTiny then "FAIL-nan-zero-eigenvalue" else "FAIL-nan-negative-eigenvalue") ++ s!":cols{nanCols.length}"
          else if g > εrel * scale then s!"FAIL-gram:{showMag g}>{showMag (εrel * scale)}"
          else if ry > εrel * scale * yscale then s!"FAIL-span:{showMag ry}"
          else if colBad.isSome then s!"FAIL-column-norm:col{(colBad.map (·.1)).getD 0}"
          else if recBad.isSome then "FAIL-gram-reconstruction-" ++ (recBad.map Cmp.show).getD ""
          else s!"ok:gram{showMag g}:span{showMag ry}"
        -- 5. exact recovery of the pairwise distances on inputs of rank ≤ d
        let distTxt :=
          if lowrank && inp == "pts" && method != "kpca" then
            match parseMat N D data with
            | none => "bad-data"
            | some X =>
              let D2 := DMat.ofFn (sqDistOfPts X.get)
              let YD := DMat.ofFn (fun i j => rowSqDist Y.get i j)
              let dmax := maxAbsM D2.get
              match cmpMat YD.get D2.get (εrel * (if dmax == 0 then 1 else dmax)) with
              | .exact => "ok:exact"
              | .approx e => s!"ok:{showMag e}"
              | c => "FAIL-" ++ c.show
          else "na"
        let nexact := (if cpre.isExact then 1 else 0) + (if cpost.isExact then 1 else 0)
        let napprox := (if cpre.isExact then 0 else 1) + (if cpost.isExact then 0 else 1) + 3 +
          (if distTxt == "na" then 0 else 1) + (if fullrec then 1 else 0)
        s!"pre={preTxt} eig={ce.text} robust={robTxt} post={postTxt} y={yTxt} dist={distTxt} cmp=exact:{nexact},approx:{napprox}"
      | _, _, _, _ => "bad-observation"
  | _, _, _, _, _ => "bad-case"

/-- `premodel …` : print the model's pre-matrix (used by `check.py replay` and for diagnostics) -/
def answerPre (fs : List (String × String)) : String :=
  let get := field? fs
  match get "method", get "N" >>= String.toNat?, get "in", get "data" with
  | some method, some N, some inp, some data =>
    let D := (get "D" >>= String.toNat?).getD 0
    match modelPre method inp N D data with
    | none => "bad-data"
    | some B => "pre=" ++ String.intercalate ";" (B.toLists.map fun r => String.intercalate "," (r.map showRat))
  | _, _, _, _ => "bad-case"

def answer (line : String) : String :=
  let fs := fields line
  if line.startsWith "premodel " then answerPre fs
  else if line.startsWith "mds " then answerMds fs
  else "bad-topic"

def main : IO Unit := runLines answer
