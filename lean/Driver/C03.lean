import TapkeeVerif.Model.Util
import TapkeeVerif.Model.Knn
import TapkeeVerif.Model.KnnIO
import TapkeeVerif.Model.Connected
/-! Line-protocol driver for the connectivity models (C03, DESIGN §11).

in : `conn N=5 lists=1,2;2,0;0,1;0,4;3,0`
out: `c=<1|0|oob|fuel> sc=<0|1> r0=<0|1>`      model `isConnected`; oracles `stronglyConnected`, `reachFromZero`
in : `fn method=.. k=3 check=1 <space> ids=<final lists> kfinal=<k of the returned lists> levels=<k:lists|k:lists..>`
out: `mtried=.. mk=.. same=<0|1> seq=<ok|diff:r|-> sc=<0|1> need=<ok|bad@k> exact=<ok|bad@k:i> uni=<0|1>`
     the model recursion `findNeighbors` runs with `search k` := the lists the implementation's own search returned
     for that k (`levels`), so that ties broken differently cannot hide or fake a difference in the recursion/DFS;
     `sc`   : the final graph is strongly connected (what C03 promises);
     `need` : every level below the returned k has a graph that is not strongly connected (k raised only when needed);
     `exact`: every level's lists are exact k-NN lists (C02's oracle; a failure here is C02's finding, not C03's). -/
open TapkeeVerif TapkeeVerif.Util TapkeeVerif.Knn TapkeeVerif.KnnIO TapkeeVerif.Connected

def parseListsE (s : String) : Option (List (List Nat)) :=
  allSome ((s.splitOn ";").map fun r => parseNats r)

def b2s (b : Bool) : String := if b then "1" else "0"

def showRes : Res Bool → String
  | .ok true => "1"
  | .ok false => "0"
  | .oob => "oob"
  | .fuelOut => "fuel"

def answerConn (fs : List (String × String)) : String :=
  match (field? fs "N") >>= String.toNat?, (field? fs "lists") >>= parseListsE with
  | some n, some g =>
    s!"c={showRes (isConnected n g)} sc={b2s (stronglyConnected g n)} r0={b2s (reachFromZero g n)}"
  | _, _ => "bad-case"

def parseLevels (s : String) : Option (List (Nat × Graph)) :=
  allSome ((splitNonEmpty s "|").map fun lv =>
    match lv.splitOn ":" with
    | [k, ls] => do pure (← k.toNat?, ← parseListsE ls)
    | _ => none)

def uniform (g : Graph) (n : Nat) : Bool :=
  g.length == n && g.all (fun l => l.length == degree g && l.all (· < n))

def answerFn (fs : List (String × String)) : String :=
  match mkSpace fs, (field? fs "k") >>= String.toNat? with
  | .error e, _ => "bad-case " ++ e
  | _, none => "bad-case k"
  | .ok sp, some k =>
    let check := (field? fs "check") != some "0"
    match (field? fs "ids") >>= parseListsE, (field? fs "kfinal") >>= String.toNat?, (field? fs "levels") >>= parseLevels with
    | some ids, some kfinal, some levels =>
      let search := fun kk => ((levels.find? (·.1 == kk)).map (·.2)).getD []
      let pts := List.range sp.N
      -- oracles on the implementation's observations (independent of the model run)
      -- every level below the returned k must have been rejected: it must lack strong connectivity
      let rejected := levels.filter fun (kk, _) => kk < kfinal
      let need := match rejected.find? fun (_, g) => stronglyConnected g sp.N with
        | none => "ok"
        | some (kk, _) => s!"bad@{kk}"
      let exact := match levels.findSome? fun (kk, g) =>
          (g.zipIdx.find? fun (l, i) => !isExactKnn sp.dist pts kk i l).map fun (_, i) => s!"bad@{kk}:{i}" with
        | none => "ok"
        | some e => e
      -- the final lists themselves must be exact k-NN lists for the returned k (a failing input if not)
      let fexact := match (ids.zipIdx.find? fun (l, i) => !isExactKnn sp.dist pts kfinal i l) with
        | none => "ok"
        | some (_, i) => s!"bad@{i}"
      let rounds? := (field? fs "rounds") >>= String.toNat?
      let orc := s!"sc={b2s (stronglyConnected ids sp.N)} need={need} exact={exact} fexact={fexact} uni={b2s (uniform ids sp.N)}"
      match findNeighbors search sp.N check (findFuel sp.N) k [] with
      | .ok f =>
        let same := f.graph == ids && f.k == kfinal
        let mt := String.intercalate "," (f.tried.map toString)
        -- number of searches: the implementation's (observed through the callback) against the model's tried sequence
        let seq := match rounds? with
          | none => "-"
          | some r => if r == f.tried.length then "ok" else s!"diff:{r}"
        s!"mtried={mt} mk={f.k} same={b2s same} seq={seq} {orc}"
      | .oob => s!"mtried=oob mk=- same=0 {orc}"
      | .fuelOut => s!"mtried=fuel mk=- same=0 {orc}"
    | _, _, _ => "bad-case impl-fields"

def answer (line : String) : String :=
  let fs := fields line
  if line.startsWith "conn " then answerConn fs else answerFn fs

def main : IO Unit := runLines answer
