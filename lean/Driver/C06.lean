import TapkeeVerif.Model.Util
import TapkeeVerif.Model.Pca
import TapkeeVerif.Model.Mds
import TapkeeVerif.Model.Cert
import TapkeeVerif.Model.DriverUtil
/-!
Driver for C06 (PCA).  One judge line in, one verdict line out.

in : `pca N=8 D=3 d=2 solver=dense|rand exact=1 data=<N rows of D>
          mean=<D> cov=<D rows> pre=<D rows> V=<D rows of d> lam=<d> P=<D rows of d> mu=<D> Y=<N rows of d>`
     `mean`,`cov` : `compute_mean` / `compute_covariance_matrix` called directly; `pre`,`V`,`lam` : eigen-observer hook
     on the public PCA call; `P`,`mu` : the returned `MatrixProjectionImplementation`; `Y` : the embedding.
out: `mean=… cov=… pre=… contract=… proj=… eig=… y=… var=… cmp=exact:<n>,approx:<m>`
     `contract` : (V, lam) is a top-d eigensystem of what the chosen solver *reads* from the observed matrix
                  (`denseSym` resp. `upperView`) — the solver's contract;
     `eig`      : (P, lam) is a top-d eigensystem of the TRUE sample covariance computed by the model from the raw data
                  — the property.
in : `agree N D d data=… Ypca=… Ykpca=… Ymds=…`     out: `gram_pca_kpca=… gram_pca_mds=… opt=…`
-/
open TapkeeVerif TapkeeVerif.Util TapkeeVerif.DriverUtil

def εrel : Rat := pow2 (-30)
def εtight : Rat := pow2 (-40)

def okOrFail (c : Cmp) : String := c.show

def answerPca (fs : List (String × String)) : String :=
  let get := field? fs
  match get "N" >>= String.toNat?, get "D" >>= String.toNat?, get "d" >>= String.toNat?, get "data", get "solver" with
  | some N, some D, some d, some data, some solver =>
    let exact := get "exact" == some "1"
    match parseMat N D data, get "mean" >>= parseVec D, get "cov" >>= parseMat D D, get "pre" >>= parseMat D D,
          get "V" >>= parseMat D d, get "lam" >>= parseVec d, get "P" >>= parseMat D d, get "mu" >>= parseVec D,
          get "Y" >>= parseMat N d with
    | some X, some mean, some cov, some pre, some V, some lam, some P, some mu, some Y =>
      let μD := DVec.ofFn (computeMean X.get)
      let CU := covarianceMatrixD X μD                    -- what the code builds (both triangles, mirrored)
      let C := covD X                                      -- the true sample covariance, from the raw data
      let scaleC := maxAbsM C.get
      let lamMax := maxAbsM (vecAsMat lam.get)
      let scale0 := if scaleC < lamMax then lamMax else scaleC
      let scale := if scale0 == 0 then 1 else scale0
      let xmax := maxAbsM X.get
      let xscale := if xmax == 0 then 1 else xmax      -- relative: no absolute floor (data in tiny units are judged as strictly)
      -- 1. routines called directly
      let cmean := cmpMat (vecAsMat mean.get) (vecAsMat μD.get) (εtight * xscale)
      --    covariance entries are judged PER ENTRY, relative to the extents of the two features involved (the rounding of
      --    Σ(x−m)_a(x−m)_b/N is relative to spread_a·spread_b, not to the largest entry): a small entry of an anisotropic
      --    data set is constrained as strictly as the largest one
      let sprD : DVec D Rat := DVec.ofFn fun a => Cert.maxFin N fun i => absR (X.get i a - μD.get a)
      let entryBad (M : Mat D D Rat) : Bool :=
        (List.finRange D).any fun a => (List.finRange D).any fun b =>
          decide (absR (M a b - CU.get a b) > εrel * (sprD.get a * sprD.get b))
      let ccov0 := cmpMat cov.get CU.get (εrel * scale)
      let ccov := if !ccov0.isBad && entryBad cov.get then Cmp.mismatch 0 0 0 1 else ccov0
      -- 2. what the public API handed to the solver
      let cpre0 := cmpMat pre.get CU.get (εrel * scale)
      let cpre := if !cpre0.isBad && entryBad pre.get then Cmp.mismatch 0 0 0 1 else cpre0
      let tag (c : Cmp) : String := if exact && !c.isExact then "INEXACT-" ++ c.show else c.show
      --   `exactmean=1`: only the mean is free of rounding (N = 2^m, feature values of up to 40 bits): equality demanded there
      let exactMean := exact || get "exactmean" == some "1"
      let tagMean (c : Cmp) : String := if exactMean && !c.isExact then "INEXACT-" ++ c.show else c.show
      -- 3. solver contract on what it reads
      let seen := DMat.ofFn (if solver == "rand" then upperView pre.get else denseSym pre.get)
      --    eigen-certificate tolerance: 2^-30 Dense, 2^-20 Randomized (single Gram–Schmidt pass: orthogonality loss
      --    (λ_max/λ_min)·2^-53, up to 2^-28 on the anisotropic families)
      let εeig := if solver == "rand" then pow2 (-20) else εrel
      let contract := certify seen.get V.get lam.get scale εeig false
      -- 4. the projection object holds exactly (V, mean)
      let cP := cmpMat P.get V.get 0
      let cmu := cmpMat (vecAsMat mu.get) (vecAsMat mean.get) 0
      let projTxt := if cP.isExact && cmu.isExact then "same" else "DIFFERENT"
      -- 5. PROPERTY: (P, lam) top-d eigensystem of the true covariance
      let ce := certify C.get P.get lam.get scale εeig true
      let robTxt := if ce.ok then robustExtremal C.get P.get lam.get scale εeig else "skipped"
      -- 6. embedding = centred samples × P  (model `project` on the returned pair)
      let Ymodel := DMat.ofFn (embedRows P.get mu.get X.get)
      let ymax := maxAbsM Ymodel.get
      let pmaxv := maxAbsM P.get
      --   (rounding of Pᵀ(x − mean) is relative to the spread |x − mean|, not to |x|: the centring must come first)
      let spread0 := maxAbsM (fun (i : Fin N) (a : Fin D) => X.get i a - mu.get a)
      let spread := if spread0 == 0 then xscale else spread0
      let cy := cmpMat Y.get Ymodel.get (εtight * spread * (if pmaxv < 1 then 1 else pmaxv) * ((D : Rat) + 1))
      -- 7. uncorrelated columns with variances lam: (1/N) YᵀY = diag lam, column means 0
      let YD := Y
      let covY : Mat d d Rat := fun a b => sumFin N (fun i => YD.get i a * YD.get i b) / (N : Rat)
      let vdef := Cert.maxAbs (fun a b => covY a b - (if a = b then lam.get a else 0))
      let cm := Cert.maxAbs (vecAsMat (fun a => sumFin N (fun i => YD.get i a) / (N : Rat)))
      --    per column: variance of embedding column j vs lam j, relative to lam j plus the absolute accuracy 2^-48·scale of a
      --    symmetric eigensolver (a retained direction that is tiny against the leading one is still constrained)
      let colBad := (List.finRange d).find? fun j =>
        decide (absR (covY j j - lam.get j) > εeig * absR (lam.get j) + pow2 (-48) * scale)
      let varTxt :=
        if colBad.isSome then s!"FAIL-column-variance:col{(colBad.map (·.1)).getD 0}"
        else if vdef > εeig * scale then s!"FAIL-covariance-of-embedding:{showMag vdef}>{showMag (εeig * scale)}"
        else if cm > εrel * xscale then s!"FAIL-column-means:{showMag cm}"
        else s!"ok:{showMag vdef}"
      let cs := [cmean, ccov, cpre, cP, cmu, cy]
      let nexact := (cs.filter Cmp.isExact).length
      s!"mean={tagMean cmean} cov={tag ccov} pre={tag cpre} contract={contract.text} proj={projTxt} eig={ce.text} robust={robTxt} y={cy.show} var={varTxt} cmp=exact:{nexact},approx:{cs.length - nexact + 4}"
    | _, _, _, _, _, _, _, _, _ => "bad-observation"
  | _, _, _, _, _ => "bad-case"

/-- `Y Yᵀ` -/
def gramOf {N d : Nat} (Y : DMat N d Rat) : DMat N N Rat := DMat.ofFn (gramRows Y.get)

def answerAgree (fs : List (String × String)) : String :=
  let get := field? fs
  match get "N" >>= String.toNat?, get "D" >>= String.toNat?, get "d" >>= String.toNat?, get "data" with
  | some N, some D, some d, some data =>
    match parseMat N D data, get "Ypca" >>= parseMat N d, get "Ykpca" >>= parseMat N d, get "Ymds" >>= parseMat N d with
    | some X, some Yp, some Yk, some Ym =>
      let Gp := gramOf Yp
      let Gk := gramOf Yk
      let Gm := gramOf Ym
      -- reference: centred Gram matrix of the data
      let μD := DVec.ofFn (computeMean X.get)
      let Xc := DMat.ofFn (fun i a => X.get i a - μD.get a)
      let G := DMat.ofFn (gramRows Xc.get)
      let s0 := maxAbsM G.get
      let scale := if s0 == 0 then 1 else s0
      let c1 := cmpMat Gp.get Gk.get (εrel * scale)
      let c2 := cmpMat Gp.get Gm.get (εrel * scale)
      let c3 := cmpMat Gk.get Gm.get (εrel * scale)
      s!"gram_pca_kpca={c1.show} gram_pca_mds={c2.show} gram_kpca_mds={c3.show}"
    | _, _, _, _ => "bad-observation"
  | _, _, _, _ => "bad-case"

def answer (line : String) : String :=
  let fs := fields line
  if line.startsWith "pca " then answerPca fs
  else if line.startsWith "agree " then answerAgree fs
  else "bad-topic"

def main : IO Unit := runLines answer
