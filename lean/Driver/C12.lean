import TapkeeVerif.Model.Util
import TapkeeVerif.Model.Mat
import TapkeeVerif.Model.DMat
import TapkeeVerif.Model.Equivariance
import TapkeeVerif.Model.Statics
import TapkeeVerif.Gen.Statics
/-! Line-protocol driver for C12 (equivariance).  All arithmetic is exact (`Rat`).

    rel kind=dist perm=2,0,1 c2=4 eps=20 Ya=r;r;r Yb=r;r;r
        -> pairwise squared row distances: `D(Yb) i j` against `c2 * D(Ya) (perm i) (perm j)`;
           `ok exact` | `ok approx lg=<log2 of the relative deviation>` | `viol i=.. j=.. lg=..`
           (tolerance `2^-eps * largest compared magnitude`)
    rel kind=mat  perm=.. c2=.. eps=.. A=rows B=rows     -> `B i j` against `c2 * A (perm i) (perm j)`
    rel kind=same eps=.. A=rows B=rows                   -> entrywise (any shape)
    model stage=mds|kpca metric=l1|euclid sh=e X=pts [perm=..] [t=..] [c=rat] [obs=rows] eps=..
        -> evaluates the model stage on the data and on the transformed data and confirms the relation the
           theorems state (`thm=ok`); compares the implementation's observed pre-matrix with the model's
           (`pre=exact|approx|viol:i:j|none`)
    conn nb=1,2;0,2;0,1            -> `<is_connected decision> strong=<strong connectivity> fwd=<reach from 0 alone>`
    center sh=e A=rows obs=rows     -> `exact` | `differ:i:j`     (model centerMatrix vs utils/matrix.hpp)
    trip n=3 T=i:j:v,... obs=rows   -> `exact` | `differ:i:j`     (model fromTriplets vs sparse_matrix_from_triplets)
    statics                        -> the generated table of static objects, one summary line -/
open TapkeeVerif TapkeeVerif.Util TapkeeVerif.Equivariance

abbrev Q := Rat

def absQ (a : Q) : Q := if a < 0 then -a else a

def parseRows (s : String) : Option (List (List Q)) :=
  allSome ((splitNonEmpty s ";").map fun r => parseRats r)

def dims (rows : List (List Q)) : Nat × Nat := (rows.length, (rows.headD []).length)

def parsePerm (n : Nat) (s : Option String) : Option (Fin n → Fin n) :=
  match s with
  | none => some id
  | some s =>
    match parseNats s with
    | none => none
    | some l =>
      if l.length = n ∧ l.all (· < n) then
        let arr := l.toArray
        some fun i => if h : arr[i.1]! < n then ⟨arr[i.1]!, h⟩ else i
      else none

/-- floor(log2 q) for q > 0 (roughly; used for reporting only) -/
def lg (q : Q) : Int :=
  if q ≤ 0 then -9999 else (Nat.log2 q.num.natAbs : Int) - (Nat.log2 q.den : Int)

/-- compare `B i j` with `A' i j` entrywise; tolerance `2^-eps * max magnitude` -/
def cmpMat {n m : Nat} (A B : Mat n m Q) (eps : Nat) : String := Id.run do
  let mut scale : Q := 0
  let mut worst : Q := 0
  let mut wi := 0
  let mut wj := 0
  for i in List.finRange n do
    for j in List.finRange m do
      let a := A i j
      let b := B i j
      if absQ a > scale then scale := absQ a
      if absQ b > scale then scale := absQ b
      let d := absQ (a - b)
      if d > worst then
        worst := d
        wi := i.1
        wj := j.1
  if worst == 0 then return "ok exact"
  let tol := scale / ((2 : Q) ^ eps)
  if worst ≤ tol then return s!"ok approx lg={lg (worst / scale)}"
  return s!"viol i={wi} j={wj} lg={lg (worst / scale)}"

/-- pairwise squared row distances, tabulated -/
def rowSqDistD {n d : Nat} (Y : DMat n d Q) : DMat n n Q := DMat.ofFn (rowSqDist Y.get)

def answerRel (fs : List (String × String)) : String :=
  let eps := (field? fs "eps" >>= String.toNat?).getD 20
  let c2 := (field? fs "c2" >>= parseRat).getD 1
  match field? fs "kind" with
  | some "dist" =>
    match field? fs "Ya" >>= parseRows, field? fs "Yb" >>= parseRows with
    | some ra, some rb =>
      let (n, d) := dims ra
      match DMat.ofLists? n d ra, DMat.ofLists? n d rb, parsePerm n (field? fs "perm") with
      | some Ya, some Yb, some p =>
        let Da := rowSqDistD Ya
        let Db := rowSqDistD Yb
        cmpMat (fun i j => c2 * relabel p Da.get i j) Db.get eps
      | _, _, _ => "bad-shape"
    | _, _ => "nonfinite"
  | some "mat" =>
    match field? fs "A" >>= parseRows, field? fs "B" >>= parseRows with
    | some ra, some rb =>
      let (n, _) := dims ra
      match DMat.ofLists? n n ra, DMat.ofLists? n n rb, parsePerm n (field? fs "perm") with
      | some A, some B, some p => cmpMat (fun i j => c2 * relabel p A.get i j) B.get eps
      | _, _, _ => "bad-shape"
    | _, _ => "nonfinite"
  | some "same" =>
    match field? fs "A" >>= parseRows, field? fs "B" >>= parseRows with
    | some ra, some rb =>
      let (n, m) := dims ra
      match DMat.ofLists? n m ra, DMat.ofLists? n m rb with
      | some A, some B => cmpMat (fun i j => c2 * A.get i j) B.get eps
      | _, _ => "bad-shape"
    | _, _ => "nonfinite"
  | _ => "bad-kind"

/-- integer coordinates scaled by 2^-sh -/
def parsePoints (s : String) (sh : Nat) : Option (List (List Q)) :=
  (parseRows s).map fun rows => rows.map fun r => r.map fun x => x / ((2 : Q) ^ sh)

def l1 {n D : Nat} (X : Mat n D Q) (i j : Fin n) : Q := sumFin D fun t => absQ (X i t - X j t)

/-- `centerMatrix` with the means tabulated once (equal to the model term by `DVec.get_ofFn`, `DMat.get_ofFn`
    and `centerMatrix = centerWith (colMean A) (grandMean A) A`, which holds by definition) -/
def centerD {n : Nat} (A : DMat n n Q) : DMat n n Q :=
  let cm := DVec.ofFn (colMean A.get)
  let g := grandMean A.get
  DMat.ofFn (centerWith cm.get g A.get)

/-- the pre-matrix of a stage on data `X`, every intermediate matrix tabulated -/
def stagePre (stage metric : String) {n D : Nat} (X : DMat n D Q) : DMat n n Q :=
  if stage == "kpca" then
    let G := DMat.ofFn (gram X.get)
    centerD (DMat.ofFn (kernelMatrix G.get))
  else
    let S : DMat n n Q :=
      if metric == "l1" then
        let L := DMat.ofFn (l1 X.get)
        DMat.ofFn (sqDistMatrix L.get)
      else DMat.ofFn (sqEuclid X.get)
    let C := centerD S
    DMat.ofFn fun i j => C.get i j * negHalf

def answerModel (fs : List (String × String)) : String :=
  let eps := (field? fs "eps" >>= String.toNat?).getD 30
  let sh := (field? fs "sh" >>= String.toNat?).getD 0
  let stage := (field? fs "stage").getD "mds"
  let metric := (field? fs "metric").getD "euclid"
  match field? fs "X" >>= (parsePoints · sh) with
  | none => "bad-X"
  | some rows =>
    let (n, D) := dims rows
    match DMat.ofLists? n D rows, parsePerm n (field? fs "perm") with
    | some X, some p =>
      let c := (field? fs "c" >>= parseRat).getD 1
      let tl := ((field? fs "t" >>= parseRats).getD (List.replicate D 0)).map fun x => x / ((2 : Q) ^ sh)
      match DVec.ofList? D tl with
      | none => "bad-t"
      | some t =>
        let B := stagePre stage metric X
        let X' : DMat n D Q := DMat.ofFn (scaleData c (translate (permRows p X.get) t.get))
        let B' := stagePre stage metric X'
        -- the relation the theorems state (translation drops out; MDS sees the data through distances only)
        let thm := cmpMat (fun i j => c * c * relabel p B.get i j) B'.get 0
        let pre :=
          match field? fs "obs" with
          | none => "none"
          | some o =>
            match parseRows o >>= fun r => DMat.ofLists? n n r with
            | none => "nonfinite"
            | some O =>
              match cmpMat B.get O.get eps with
              | "ok exact" => "exact"
              | r => if r.startsWith "ok" then "approx" else "viol:" ++ r
        s!"thm={if thm == "ok exact" then "ok" else "FAIL:" ++ thm} pre={pre}"
    | _, _ => "bad-shape"

def parseGraph (s : String) : Option ((n : Nat) × Graph n) :=
  let rows := (s.splitOn ";").map fun r => parseNats r
  match allSome rows with
  | none => none
  | some ls =>
    let n := ls.length
    if ls.all fun l => l.all (· < n) then
      let arr := ls.toArray
      some ⟨n, fun i => (arr[i.1]!).filterMap fun v => if h : v < n then some ⟨v, h⟩ else none⟩
    else none

def showOB : Option Bool → String
  | none => "cert-failed"
  | some true => "1"
  | some false => "0"

def answerConn (fs : List (String × String)) : String :=
  match field? fs "nb" >>= parseGraph with
  | none => "bad-graph"
  | some ⟨_, G⟩ => s!"{showOB (connectedCode G)} strong={showOB (strongCode G)} fwd={showOB (reachCode G)}"

def firstDiff {n m : Nat} (A B : Mat n m Q) : String :=
  match (List.finRange n).findSome? fun i => (List.finRange m).findSome? fun j =>
      if A i j == B i j then none else some s!"differ:{i.1}:{j.1}" with
  | none => "exact"
  | some s => s

def answerCenter (fs : List (String × String)) : String :=
  let sh := (field? fs "sh" >>= String.toNat?).getD 0
  match field? fs "A" >>= (parsePoints · sh), field? fs "obs" >>= parseRows with
  | some ra, some ro =>
    let (n, _) := dims ra
    match DMat.ofLists? n n ra, DMat.ofLists? n n ro with
    | some A, some O => firstDiff (centerD A).get O.get
    | _, _ => "bad-shape"
  | _, _ => "bad-case"

def parseTriplet (n : Nat) (s : String) : Option (Triplet n Q) :=
  match s.splitOn ":" with
  | [a, b, v] =>
    match a.toNat?, b.toNat?, v.toInt? with
    | some a, some b, some v => if h : a < n ∧ b < n then some (⟨a, h.1⟩, ⟨b, h.2⟩, (v : Q)) else none
    | _, _, _ => none
  | _ => none

def answerTrip (fs : List (String × String)) : String :=
  match field? fs "n" >>= String.toNat?, field? fs "T", field? fs "obs" >>= parseRows with
  | some n, some ts, some ro =>
    match allSome ((splitNonEmpty ts ",").map (parseTriplet n)), DMat.ofLists? n n ro with
    | some ts, some O => firstDiff (DMat.ofFn (fromTriplets ts)).get O.get
    | _, _ => "bad-shape"
  | _, _, _ => "bad-case"

def answerStatics : String :=
  let t := TapkeeVerif.Gen.Statics.table
  let unknown := t.filter fun s => !Statics.accounted s
  s!"statics n={t.length} mutable={(t.filter (·.isMutable)).length} unaccounted={unknown.length} " ++
    String.intercalate "," (unknown.map fun s => s.name ++ "@" ++ s.file)

def answer (line : String) : String :=
  let fs := fields line
  if line.startsWith "rel " then answerRel fs
  else if line.startsWith "model " then answerModel fs
  else if line.startsWith "conn " then answerConn fs
  else if line.startsWith "center " then answerCenter fs
  else if line.startsWith "trip " then answerTrip fs
  else if line.startsWith "statics" then answerStatics
  else "bad-case"

def main : IO Unit := runLines answer
