import TapkeeVerif.Model.Util
import TapkeeVerif.Model.QuadTree
/-! Line-protocol driver for the Barnes–Hut quadtree model (DESIGN §11, C18).

in : `quad root=def|x,y,hw,hh pts=x,y;x,y;… th=t0,t1,… [f=i@k:nx,ny,sq;…]`
      numbers: integers, `a/b`, or `m:e` (= m·2^e).  `f` carries the implementation's
      `computeNonEdgeForces(i, th[k])` results as exact dyadics.
out: `corr=1 idx=0,1,2 depth=3 frag=0 | cmp=… | th0=… below=… quad=…`
      * first block: the model's exact observables (compared textually with the implementation's);
        `frag=1` = some point lies within relative 2⁻⁴⁰ of a cell boundary of a non-dyadic (default) root,
        where the double computation may legitimately decide differently;
      * `cmp`: implementation forces vs model forces, `|Δ| ≤ tol`, `tol = ΣQ·(2⁻³⁰ + 2⁻⁴⁴·M)`, `M = max |coordinate|`
        (exact equalities are counted separately; near-ties of the summary criterion are skipped and counted);
      * `th0`/`below`/`quad`: the property oracle on the implementation's values against the exact
        all-pairs sums computed here in `Rat`.
-/
open TapkeeVerif TapkeeVerif.Util TapkeeVerif.QuadTree

/-- the `double` nearest to 1e-5 -/
def eps1em5 : Rat := (5902958103587057 : Rat) / (590295810358705651712 : Rat)

def two (n : Nat) : Rat := ((2 ^ n : Nat) : Rat)

def maxR (a b : Rat) : Rat := if a < b then b else a
def minR (a b : Rat) : Rat := if b < a then b else a

def parsePt (s : String) : Option (Rat × Rat) :=
  match parseRats s "," with
  | some [x, y] => some (x, y)
  | _ => none

structure Obs where
  i : Nat
  k : Nat
  v : Option (Rat × Rat × Rat)   -- none: a non-finite value was printed

def parseObs (s : String) : Option Obs :=
  match s.splitOn ":" with
  | hd :: rest =>
    match hd.splitOn "@" with
    | [i, k] =>
      match i.toNat?, k.toNat? with
      | some i, some k =>
        -- values may themselves contain ':' (m:e form): re-join
        let vs := String.intercalate ":" rest
        match parseRats vs "," with
        | some [a, b, c] => some ⟨i, k, some (a, b, c)⟩
        | _ => some ⟨i, k, none⟩
      | _, _ => none
    | _ => none
  | _ => none

/-- every cell of the tree (empty leaves included) -/
def cells : Tree Rat → List (Cell Rat)
  | .leaf b _ _ _ => [b]
  | .node b _ _ nw ne sw se => b :: (cells nw ++ cells ne ++ cells sw ++ cells se)

/-- some point within relative 2⁻⁴⁰ of (or exactly on) a cell boundary; used for the non-dyadic default root only,
    where the rounded child boxes of the double computation need not meet exactly on the dividing lines -/
def fragileStructure (t : Tree Rat) (pts : List (Rat × Rat)) : Bool :=
  let r : Rat := 1 / two 40
  (cells t).any fun c =>
    pts.any fun p =>
      let sx := (absR c.x + c.hw + absR p.1) * r
      let sy := (absR c.y + c.hh + absR p.2) * r
      let near (a b s : Rat) : Bool := decide (absR (a - b) ≤ s)
      near p.1 (c.x - c.hw) sx || near p.1 (c.x + c.hw) sx || near p.2 (c.y - c.hh) sy || near p.2 (c.y + c.hh) sy

/-- does the traversal of `forces` meet a summary decision that is a near-tie?
    (`|m² − θ²D| ≤ 2⁻⁴⁰·θ²·D`  or  `(m² − θ²D)² ≤ 2⁻⁸⁰·θ⁴·M²·D·16`: the centre of mass carries an absolute
    rounding error of order 2⁻⁵²·M) -/
def fragileCrit (data : Nat → Rat × Rat) (θ M : Rat) (pi : Nat) : Tree Rat → Bool
  | .leaf .. => false
  | .node b cum com nw ne sw se =>
    if cum = 0 then false else
    let buff : Rat × Rat := ((data pi).1 - com.1, (data pi).2 - com.2)
    let D := sqNorm buff
    let m := stdMax b.hh b.hw
    let lhs := m * m
    let rhs := θ * θ * D
    let diff := absR (lhs - rhs)
    let near := decide (0 < θ) && decide (D ≠ 0) &&
      (decide (diff ≤ rhs / two 40) || decide (diff * diff ≤ θ * θ * θ * θ * M * M * D * 16 / two 80))
    if near then true
    else if useSummary θ b D then false
    else fragileCrit data θ M pi nw || fragileCrit data θ M pi ne || fragileCrit data θ M pi sw || fragileCrit data θ M pi se

/-- `θ₀²` of `forces_exact_below_threshold`: the minimum of `max(hw,hh)²/D` over all non-empty internal cells.
    `e2 = 0`: the exact threshold (cells with `D = 0` never summarise).  `e2 > 0`: a threshold that is safe for the
    criterion as the C++ evaluates it in doubles — the offset `y_i − com` carries an absolute error of up to `e` per
    coordinate (rounding of the online mean and of the subtraction), so the computed `D'` satisfies
    `√D' ≤ √D + 2e`, hence `D' ≤ D(1 + 2⁻¹⁰) + 4100·e²`; this also covers `D = 0` cells whose computed `D'` is a tiny
    positive number. -/
def theta0sq (data : Nat → Rat × Rat) (pi : Nat) (e2 : Rat) : Tree Rat → Option Rat
  | .leaf .. => none
  | .node b cum com nw ne sw se =>
    let kids := [theta0sq data pi e2 nw, theta0sq data pi e2 ne, theta0sq data pi e2 sw, theta0sq data pi e2 se]
    let own : Option Rat :=
      if cum = 0 then none else
      let buff : Rat × Rat := ((data pi).1 - com.1, (data pi).2 - com.2)
      let D := sqNorm buff
      let m := stdMax b.hh b.hw
      let D' := if e2 = 0 then D else D * (1 + 1 / two 10) + 4100 * e2
      if D' = 0 then none else some (m * m / D')
    (own :: kids).foldl (fun a o => match a, o with
      | none, o => o
      | a, none => a
      | some x, some y => some (minR x y)) none

def dist3 (a b : Rat × Rat × Rat) : Rat :=
  maxR (absR (a.1 - b.1)) (maxR (absR (a.2.1 - b.2.1)) (absR (a.2.2 - b.2.2)))

def accTriple (a : Acc Rat) : Rat × Rat × Rat := (a.1.1, a.1.2, a.2)

def showTriple (a : Rat × Rat × Rat) : String := s!"{showRat a.1},{showRat a.2.1},{showRat a.2.2}"

structure Tally where
  exact : Nat := 0
  approx : Nat := 0
  fragile : Nat := 0
  bad : Option String := none

def answer (line : String) : String :=
  let fs := fields line
  match field? fs "pts", field? fs "root" with
  | some ptsS, some rootS =>
    match allSome ((splitNonEmpty ptsS ";").map parsePt) with
    | none => "bad-pts"
    | some pts =>
      let arr := pts.toArray
      let n := arr.size
      let data : Nat → Rat × Rat := fun i => arr.getD i (0, 0)
      let rootO : Option (Cell Rat) :=
        if rootS == "def" then some (rootCell eps1em5 pts)
        else match parseRats rootS "," with
          | some [x, y, hw, hh] => some ⟨x, y, hw, hh⟩
          | _ => none
      match rootO with
      | none => "bad-root"
      | some root =>
        let fuel := fuelBound root pts + 2
        match buildIn data fuel root (List.range n) with
        | none => s!"ERR:fuel fuel={fuel}"
        | some t =>
          let idx := (allIndices t).mergeSort (· ≤ ·)
          let frag := rootS == "def" && fragileStructure t pts
          let structS := s!"corr={if isCorrect data t then 1 else 0} idx={String.intercalate "," (idx.map toString)} depth={depth t} frag={if frag then 1 else 0}"
          match field? fs "f" with
          | none => structS
          | some fS =>
            match field? fs "th" >>= (parseRats · ","), allSome ((splitNonEmpty fS ";").map parseObs) with
            | some ths, some obs =>
              let thA := ths.toArray
              let M := pts.foldl (fun m p => maxR m (maxR (absR p.1) (absR p.2))) 0
              let relTol : Rat := 1 / two 30 + M / two 44
              -- absolute error of a coordinate of `y_i − com` in doubles: online mean over ≤ n points + one subtraction
              let e : Rat := M * ((n : Nat) + 4 : Nat) / two 50
              let e2 : Rat := e * e
              -- has the query a coincident partner / does the set contain coincident points at all
              let hasTwin (i : Nat) : Bool := (List.range n).any fun j => j ≠ i && decide (data j = data i)
              let dupSet := (List.range n).any hasTwin
              -- points outside an explicit root cell are refused by insert(): the tree is over the others
              let inRoot (i : Nat) : Bool := root.containsPoint (data i)
              let js := (List.range n).filter inRoot
              -- 1. implementation vs model
              let cmp : Tally := obs.foldl (fun (ta : Tally) o =>
                if ta.bad.isSome then ta else
                let θ := thA.getD o.k 0
                match o.v with
                | none => { ta with bad := some s!"nonfinite:i={o.i}:k={o.k}" }
                | some v =>
                  if fragileCrit data θ M o.i t then { ta with fragile := ta.fragile + 1 } else
                  let m := accTriple (forces data θ o.i t ((0, 0), 0))
                  if v == m then { ta with exact := ta.exact + 1 }
                  else if dist3 v m ≤ m.2.2 * relTol then { ta with approx := ta.approx + 1 }
                  else { ta with bad := some s!"i={o.i}:k={o.k}:impl={showTriple v}:model={showTriple m}" }) {}
              -- 2. the property oracle on the implementation's values
              let orc : (Option String × Option String × Option String × Nat × Nat × Nat × Nat) :=
                obs.foldl (fun (st : Option String × Option String × Option String × Nat × Nat × Nat × Nat) o =>
                  let (b0, b1, b2, n0, n1, n2, nskip) := st
                  match o.v with
                  | none => st
                  | some v =>
                    if hasTwin o.i || !inRoot o.i then st else
                    let θ := thA.getD o.k 0
                    let ex := accTriple (exactForces data js o.i)
                    let tol := ex.2.2 * relTol
                    let err := dist3 v ex
                    let tag := s!"i={o.i}:k={o.k}:dupset={if dupSet then 1 else 0}:impl={showTriple v}:exact={showTriple ex}"
                    -- θ = 0: equality with the exact sums
                    let (b0, n0) := if θ = 0 then (if err ≤ tol then (b0, n0 + 1) else (b0.orElse fun _ => some tag, n0 + 1)) else (b0, n0)
                    -- 0 < θ < θ₀ (safely below): still the exact sums
                    let belowExact : Bool := decide (0 < θ) && (match theta0sq data o.i 0 t with
                      | none => true
                      | some q => decide (θ * θ * (1 + 1 / two 20) < q))
                    -- … judged only when θ is below the threshold with the rounding margin of the double criterion
                    --   (when the structure itself is near a rounded cell boundary — `frag` — the double tree may split
                    --    one level earlier or later than the exact one: a further factor 2 on θ)
                    let below : Bool := belowExact && (match theta0sq data o.i e2 t with
                      | none => true
                      | some q => decide (θ * θ * (if frag then 4 else 1 + 1 / two 20) < q))
                    let nskip := if belowExact && !below then nskip + 1 else nskip
                    let (b1, n1) := if below then (if err ≤ tol then (b1, n1 + 1) else (b1.orElse fun _ => some tag, n1 + 1)) else (b1, n1)
                    -- any θ: error at most 16·θ²·ΣQ (test-level bound: the error vanishes quadratically)
                    let (b2, n2) := if decide (0 < θ) && !below then
                        (if err ≤ tol + 16 * θ * θ * ex.2.2 then (b2, n2 + 1) else (b2.orElse fun _ => some tag, n2 + 1)) else (b2, n2)
                    (b0, b1, b2, n0, n1, n2, nskip)) (none, none, none, 0, 0, 0, 0)
              let (b0, b1, b2, n0, n1, n2, nskip) := orc
              let sh (b : Option String) (n : Nat) : String := match b with | none => s!"ok:{n}" | some s => s!"BAD:{s}"
              let cmpS := match cmp.bad with
                | none => s!"ok:E{cmp.exact}:A{cmp.approx}:F{cmp.fragile}"
                | some s => s!"BAD:{s}"
              -- a non-finite value is a failure of the property whatever the near-tie status of the case
              let finS := match obs.find? (fun o => o.v.isNone) with
                | none => s!"ok:{obs.length}"
                | some o => s!"BAD:i={o.i}:k={o.k}"
              s!"{structS} | cmp={cmpS} | th0={sh b0 n0} below={sh b1 n1} quad={sh b2 n2} fin={finS} bskip={nskip}"
            | _, _ => "bad-f"
  | _, _ => "bad-case"

def main : IO Unit := runLines answer
