import TapkeeVerif.Model.Util
import TapkeeVerif.Model.LocallyLinear
import TapkeeVerif.Model.CertGen
/-! Line-protocol driver for C08 (KLLE / KLTSA / HLLE).  One input line = the case fields followed by the
    implementation's observation fields (harness/c08_ll.cpp); one output line = the verdict:

      res=ok | res=SKIP:<why> | res=BROKEN:<what> | res=FAIL:<what> | res=MODEL-ERR:<err>   + diagnostics

    * `BROKEN` : model and implementation disagree (or an oracle value violates its contract) — correspondence;
    * `FAIL`   : the property's oracle is false on the implementation's observation;
    * `MODEL-ERR` : the model reaches an explicit error state (undefined behaviour in the source) on this input.
    The model runs at `K := Fix` (2⁻¹⁹² fixed point); comparisons use the declared tolerance `tolM = 2⁻³⁰`. -/
open TapkeeVerif TapkeeVerif.Util TapkeeVerif.Cert TapkeeVerif.LocallyLinear

abbrev E := Except String

def need (fs : List (String × String)) (k : String) : E String :=
  match field? fs k with
  | some v => pure v
  | none => throw s!"missing field {k}"

def needNat (fs : List (String × String)) (k : String) : E Nat := do
  match (← need fs k).toNat? with
  | some v => pure v
  | none => throw s!"bad nat {k}"

def needFix (fs : List (String × String)) (k : String) : E Fix := do
  match parseFix (← need fs k) with
  | some v => pure v
  | none => throw s!"bad number {k}"

def needMat (fs : List (String × String)) (k : String) (n m : Nat) : E (Array (Array Fix)) := do
  match parseRows parseFix (← need fs k) with
  | some a => if rect a n m then pure a else throw s!"matrix {k} is not {n}x{m} (rows {a.size})"
  | none => throw s!"bad matrix {k}"

/-- per-sample objects separated by `|` -/
def needSamples {α} (fs : List (String × String)) (k : String) (n : Nat) (p : String → Option α) : E (Array α) := do
  let parts := (← need fs k).splitOn "|"
  if parts.length ≠ n then throw s!"{k}: expected {n} samples, got {parts.length}"
  match allSome (parts.map p) with
  | some l => pure l.toArray
  | none => throw s!"bad sample list {k}"

def mkFin (N : Nat) (h : 0 < N) (v : Nat) : Fin N := ⟨v % N, Nat.mod_lt _ h⟩

structure Nb (N : Nat) where
  k : Nat
  f : Fin N → Fin k → Fin N
  raw : Array (Array Nat)

def needNb (fs : List (String × String)) (key : String) (N : Nat) (hN : 0 < N) : E (Nb N) := do
  match parseRows String.toNat? (← need fs key) with
  | none => throw s!"bad neighbour lists {key}"
  | some a =>
    if a.size ≠ N then throw s!"{key}: {a.size} lists for {N} samples"
    let k := (a[0]!).size
    if !(a.all (·.size == k)) then throw "nonuniform"
    if !(a.all (·.all (· < N))) then throw "neighbour-index-out-of-range"
    pure { k := k, f := fun i c => mkFin N hN ((a[i.1]!)[c.1]!), raw := a }

def tolM : Fix := tolPow 30      -- matrices, model vs implementation
def tolS : Fix := tolPow 30      -- oracle contracts (residuals)
def tolY : Fix := tolPow 26      -- orthonormality / residual of the returned embedding
def tolC : Fix := tolPow 18      -- centring of the returned embedding (conditioned by the gap to the trivial eigenvalue)

/-- distinct positions among the triplets = `nonZeros()` of the assembled sparse matrix -/
def distinctPositions {N : Nat} (ts : List (Triplet N N Fix)) : Nat := Id.run do
  let mut seen : Array Bool := Array.replicate (N * N) false
  let mut c := 0
  for t in ts do
    let p := t.1.1 * N + t.2.1.1
    if !(seen[p]!) then
      seen := seen.set! p true
      c := c + 1
  return c

/-- magnitude of the summands: the largest entry of the matrix assembled from `|value|` (cancellation-aware scale) -/
def tripletScale {N : Nat} (ts : List (Triplet N N Fix)) : Fix :=
  maxAbsArr (fromTripletsD (ts.map fun t => (t.1, t.2.1, fabs t.2.2))).data

/-- smallest `‖c'‖² / ‖c‖²` met by the Gram–Schmidt loop (conditioning of the HLLE basis) -/
def gsMinRatio {k : Nat} (cols : List (DVec k Fix)) : Fix := Id.run do
  let mut done : List (DVec k Fix) := []
  let mut worst : Fix := 1
  for c in cols do
    let c' := done.foldl gsSub c
    let n0 := Mat.dot c.get c.get
    let n1 := Mat.dot c'.get c'.get
    let ratio := if n0.m = 0 then 0 else n1 / n0
    if ratio < worst then worst := ratio
    done := done ++ [gsOne Fix.sqrt done c]
  return worst

/-! ### oracle contracts -/

/-- `G w = 1` within `tolS` (row-wise backward-error form); also `|Σw|` not negligible -/
def lleContract {N : Nat} (κ : Mat N N Fix) (nb : Nb N) (tshift : Fix) (wraw : Array (Array Fix)) : Option String := Id.run do
  let k := nb.k
  for hi : i in [0:N] do
    let ii : Fin N := ⟨i, hi.2.1⟩
    let G := (lleSystemD κ ii (nb.f ii) tshift).get
    let w : Vec k Fix := vecOf (wraw[i]!) k
    for a in List.finRange k do
      let mut s : Fix := 0
      let mut sa : Fix := 0
      for b in List.finRange k do
        s := s + G a b * w b
        sa := sa + fabs (G a b * w b)
      if !(fabs (s - 1) ≤ tolS * (1 + sa)) then
        return some s!"ldlt-solve-contract sample {i} row {a.1}"
    let sw := sumFin k w
    let swa := sumFin k fun a => fabs (w a)
    if !(tolPow 20 * swa ≤ fabs sw) then return some s!"weights-sum-near-zero sample {i}"
  return none

inductive EigC where
  | ok
  | degenerate (i : Nat)
  | bad (msg : String)

/-- `U_i` = orthonormal eigenvectors of the model's centred local Gram matrix for its `d` largest eigenvalues -/
def eigContract {N : Nat} (κ : Mat N N Fix) (nb : Nb N) (d : Nat) (rsk : Fix)
    (U : Array (Array (Array Fix))) (ev : Array (Array Fix)) : EigC := Id.run do
  let k := nb.k
  if d > k then return .bad "d>k"
  if !(fabs (rsk * rsk * (k : Fix) - 1) ≤ tolPow 40) then return .bad "rsk-contract"
  for hi : i in [0:N] do
    let ii : Fin N := ⟨i, hi.2.1⟩
    let C := (localCenteredD κ (nb.f ii)).data
    let Ui := U[i]!
    let evi := ev[i]!
    if !(rect Ui k d) || evi.size ≠ k then return .bad s!"oracle-shape sample {i}"
    let cs := maxRowSum C
    if cs.m = 0 then return .degenerate i
    -- orthonormality
    let Ut := transposeArr Ui k d
    let G := mulArr Ut Ui d k d
    if !((cmpArr 0 G (identArr d)).maxdev ≤ tolS) then return .bad s!"eigvec-orthonormality sample {i}"
    -- residual
    let CU := mulArr C Ui k k d
    for a in [0:k] do
      for c in [0:d] do
        let lam := evi[k - d + c]!
        if !(fabs ((CU[a]!)[c]! - lam * (Ui[a]!)[c]!) ≤ tolS * cs) then
          return .bad s!"eigvec-residual sample {i}"
    -- top-d: exactly d eigenvalues above the midpoint of the boundary gap
    if d < k && 0 < d then
      let hi_ := evi[k - d]!
      let lo_ := evi[k - d - 1]!
      if !(tolPow 12 * cs ≤ hi_ - lo_) then return .degenerate i
      let σ := (hi_ + lo_) / (2 : Nat)
      match countBelow k C none σ (tolPow 16 * cs) with
      | none => return .bad s!"inertia-singular sample {i}"
      | some c => if c ≠ k - d then return .bad s!"eigvecs-not-top-d sample {i}: {k - c} eigenvalues above the gap"
  return .ok

/-! ### certificate of the public-API result -/

def certLine (c : CertOut) : String :=
  s!"orth={c.orth} resid={c.resid} centre={c.centre} count={c.count} inertia={c.inertia}"

/-- every list is a set of `k'` nearest others under the kernel distance (squared, exact) -/
def knnContract {N : Nat} (κ : Mat N N Fix) (nb : Nb N) : Option String := Id.run do
  for hi : i in [0:N] do
    let ii : Fin N := ⟨i, hi.2.1⟩
    let lst := nb.raw[i]!
    if lst.contains i then return some s!"self-neighbour sample {i}"
    if lst.toList.eraseDups.length ≠ lst.size then return some s!"duplicate-neighbour sample {i}"
    let d2 (j : Fin N) : Fix := κ ii ii - (2 : Nat) * κ ii j + κ j j
    let mut worstIn : Fix := 0
    for c in List.finRange nb.k do
      worstIn := fmax worstIn (d2 (nb.f ii c))
    for j in List.finRange N do
      if j.1 ≠ i && !(lst.contains j.1) then
        -- the implementation orders by sqrt of the double-rounded value: allow a relative 2⁻⁴⁰ slack
        if d2 j + tolPow 40 * fabs (d2 j) < worstIn then return some s!"not-k-nearest sample {i}: {j.1} is closer"
  return none

structure Common (N : Nat) where
  κ : Mat N N Fix
  κa : Array (Array Fix)

def parse3 (s : String) : Option (Array (Array Fix)) := parseRows parseFix s

def runModelLle {N : Nat} (hN : 0 < N) (fs : List (String × String)) (κ : Mat N N Fix) (nb : Nb N) :
    E (Array (Array Fix) × Nat × Fix) := do
  let shift ← needFix fs "shift"
  let tshift ← needFix fs "tshift"
  let wraw ← needSamples fs "wraw" N (parseVecA parseFix)
  if !(wraw.all (·.size == nb.k)) then throw "wraw shape"
  match lleContract κ nb tshift wraw with
  | some e => throw ("CONTRACT:" ++ e)
  | none => pure ()
  let w : Fin N → Vec nb.k Fix := fun i => vecOf (wraw[i.1]!) nb.k
  let M := lleMD nb.f w shift
  let ts := lleTriplets nb.f w shift
  pure (M.data, distinctPositions ts, tripletScale ts)

def runModelEig {N : Nat} (hN : 0 < N) (fs : List (String × String)) (κ : Mat N N Fix) (nb : Nb N) (hlle : Bool) :
    E (Array (Array Fix) × Nat × Fix) := do
  let d ← needNat fs "d"
  if hlle then
    match hlleIndexErr d with
    | some (.oob c cols) => throw s!"MODEL-ERR:oob:col={c}:cols={cols}"
    | some (.uninit c) => throw s!"MODEL-ERR:uninit:col={c}"
    | some (.clobber c) => throw s!"MODEL-ERR:clobber:col={c}"
    | none => pure ()
  let rsk ← needFix fs "rsk"
  let U ← needSamples fs "U" N parse3
  let ev ← needSamples fs "ev" N (parseVecA parseFix)
  match eigContract κ nb d rsk U ev with
  | .bad e => throw ("CONTRACT:" ++ e)
  | .degenerate i => throw s!"SKIP:degenerate-local-spectrum sample {i}"
  | .ok => pure ()
  let Uf : Fin N → Mat nb.k d Fix := fun i => matOf (U[i.1]!) nb.k d
  if hlle then
    if nb.k < hlleCols d then throw s!"SKIP:k<{hlleCols d} (below the method's minimum)"
    let thr : Fix := (1 : Fix) / (10000 : Nat)
    for i in List.finRange N do
      if gsMinRatio (hlleYi0 (Uf i)) < tolPow 32 then
        throw s!"SKIP:ill-conditioned-hessian-basis sample {i.1}"
    let ts := hlleTriplets nb.f Fix.sqrt thr Uf
    match hlleMD nb.f Fix.sqrt thr Uf with
    | .error _ => throw "MODEL-ERR:index"
    | .ok M => pure (M.data, distinctPositions ts, tripletScale ts)
  else
    let shift ← needFix fs "shift"
    let M := ltsaMD nb.f rsk Uf shift
    let ts := ltsaTriplets nb.f rsk Uf shift
    pure (M.data, distinctPositions ts, tripletScale ts)

def describe (c : Cmp) : String :=
  s!"dev={relDev c} at=({c.at_.1},{c.at_.2})"

def answerCore (fs : List (String × String)) : E String := do
  let op ← need fs "op"
  let N ← needNat fs "N"
  if hN : 0 < N then
    let κa ← needMat fs "kern" N N
    let κ : Mat N N Fix := matOf κa N N
    if op == "lle" || op == "ltsa" || op == "hlle" then
      let nb ← needNb fs "nb" N hN
      let (M, nnz, tscale) ← if op == "lle" then runModelLle hN fs κ nb else runModelEig hN fs κ nb (op == "hlle")
      if (field? fs "abort").isSome then
        return s!"res=FAIL:abort model=ok"
      let Mi ← needMat fs "M" N N
      let c := cmpArr tolM Mi M tscale
      let nnzI ← needNat fs "nnz"
      if (field? fs "dump").isSome then
        return "dump model=" ++ String.intercalate ";" (M.toList.map fun r => String.intercalate "," (r.toList.map showFix))
          ++ " impl=" ++ String.intercalate ";" (Mi.toList.map fun r => String.intercalate "," (r.toList.map showFix))
      if !c.ok then return s!"res=BROKEN:matrix {describe c} approx={N * N}"
      if nnzI ≠ nnz then return s!"res=BROKEN:sparsity impl={nnzI} model={nnz}"
      return s!"res=ok {describe c} approx={N * N} exact=1"
    else if op == "embed" then
      let method ← need fs "method"
      let d ← needNat fs "d"
      if (field? fs "abort").isSome then
        -- what does the model say about this input?
        if method == "hlle" then
          match hlleIndexErr d with
          | some e => return s!"res=FAIL:abort model=ERR:{repr e}"
          | none => pure ()
        return s!"res=FAIL:abort model=ok"
      let threw ← need fs "threw"
      if (← need fs "uniform") != "1" then return "res=SKIP:nonuniform-neighbour-lists"
      let nb ← needNb fs "nb" N hN
      match knnContract κ nb with
      | some e => return s!"res=BROKEN:neighbours {e}"
      | none => pure ()
      let (M, _, tscale) ← if method == "klle" then runModelLle hN fs κ nb else runModelEig hN fs κ nb (method == "hlle")
      if threw != "-" then return s!"res=FAIL:threw what={threw}"
      let lhs ← needMat fs "lhs" N N
      let c := cmpArr tolM lhs M tscale
      if !c.ok then return s!"res=BROKEN:solver-input {describe c} approx={N * N}"
      let hook := s!"{← need fs "calls"},{← need fs "skip"},{← need fs "smallest"},{← need fs "gen"},{← need fs "td"}"
      if hook != s!"1,1,1,0,{d}" then return s!"res=BROKEN:solver-call calls,skip,smallest,gen,td={hook}"
      let Y ← needMat fs "Y" N d
      let vecs ← needMat fs "vecs" N d
      if (cmpArr 0 Y vecs).maxdev.m ≠ 0 then return "res=BROKEN:embedding-is-not-the-solver-output"
      -- the trivial eigenpair (1, s) of the model matrix, checked on the observed matrix
      let s : Fix ← if method == "hlle" then pure 0 else needFix fs "shift"
      let scaleM := maxRowSum lhs
      let mut triv : Fix := 0
      for i in [0:N] do
        let mut r : Fix := 0
        for j in [0:N] do
          r := r + (lhs[i]!)[j]!
        triv := fmax triv (fabs (r - s))
      if !(triv ≤ tolPow 26 * scaleM) then return s!"res=BROKEN:constant-eigenvector dev={log2Str triv scaleM}"
      -- is the trivial eigenvalue separated from the returned ones?  (Rayleigh quotients are computed inside)
      let Yt := transposeArr Y N d
      let AG := mulArr Yt (mulArr lhs Y N N d) d N d
      let muMin := (List.range d).foldl (fun acc c => if (AG[c]!)[c]! < acc then (AG[c]!)[c]! else acc) ((AG[0]!)[0]!)
      let separated := decide (tolPow 10 * scaleM < muMin - s)
      let co := certBottom N d lhs none Y true separated scaleM tolY tolY tolC
      if !co.ok then return s!"res=FAIL:certificate:{co.why} {certLine co} {describe c}"
      return s!"res=ok {describe c} {certLine co} sep={separated} approx={N * N + N * d}"
    else throw s!"unknown op {op}"
  else throw "N=0"

def answer (line : String) : String :=
  let fs := fields line
  match answerCore fs with
  | .ok s => s
  | .error e =>
    if e.startsWith "SKIP:" then "res=" ++ e
    else if e.startsWith "MODEL-ERR:" then
      (if (field? fs "abort").isSome then "res=FAIL:abort model=" else "res=") ++ e
    else if e.startsWith "CONTRACT:" then "res=BROKEN:oracle-contract " ++ (e.drop 9).toString
    else if e == "nonuniform" then "res=SKIP:nonuniform-neighbour-lists"
    else "res=BADCASE:" ++ e

def main : IO Unit := runLines answer
