import Driver.Common0810
import Driver.LLRun
/-! Line-protocol driver for C08 (KLLE / KLTSA / HLLE).  One input line = the case fields followed by the
    implementation's observation fields (harness/c08_ll.cpp); one output line = the verdict:

      res=ok | res=SKIP:<why> | res=BROKEN:<what> | res=FAIL:<what> | res=MODEL-ERR:<err>   + diagnostics

    * `BROKEN` : model and implementation disagree (or an oracle value violates its contract) — correspondence;
    * `FAIL`   : the property's oracle is false on the implementation's observation;
    * `MODEL-ERR` : the model reaches an explicit error state (undefined behaviour in the source) on this input.
    The model runs at `K := Fix` (2⁻¹⁹² fixed point); comparisons use the declared tolerance `tolM = 2⁻³⁰`. -/
open TapkeeVerif TapkeeVerif.Util TapkeeVerif.Cert TapkeeVerif.LocallyLinear

def answerCore (fs : List (String × String)) : E String := do
  let op ← need fs "op"
  let N ← needNat fs "N"
  if hN : 0 < N then
    let (κa, kexp) ← needMatNorm fs "kern" N N
    let κ : Mat N N Fix := matOf κa N N
    if op == "lle" || op == "ltsa" || op == "hlle" then
      let nb ← needNb fs "nb" N hN
      let (M, nnz, tscale, genNote) ← if op == "lle" then runModelLle hN fs κ nb kexp else runModelEig hN fs κ nb (op == "hlle") kexp
      if (field? fs "abort").isSome then
        return s!"res=FAIL:abort model=ok"
      let Mi ← needMat fs "M" N N
      let c := cmpArr tolM Mi M tscale
      let nnzI ← needNat fs "nnz"
      if (field? fs "dump").isSome then
        return "dump model=" ++ String.intercalate ";" (M.toList.map fun r => String.intercalate "," (r.toList.map showFix))
          ++ " impl=" ++ String.intercalate ";" (Mi.toList.map fun r => String.intercalate "," (r.toList.map showFix))
      if !c.ok then return s!"res=FAIL:matrix-differs-from-model {describe c} approx={N * N}"
      if let some g := genNote then return s!"res=BROKEN:{g}"
      if nnzI ≠ nnz then return s!"res=BROKEN:sparsity impl={nnzI} model={nnz}"
      return s!"res=ok {describe c} approx={N * N} exact=1"
    else if op == "embed" then
      let method ← need fs "method"
      let d ← needNat fs "d"
      if (field? fs "abort").isSome then
        -- what does the model say about this input?
        if method == "hlle" then
          match hlleIndexErr d with
          | some e => return s!"res=FAIL:abort model=ERR:{repr e}"
          | none => pure ()
        return s!"res=FAIL:abort model=ok"
      let threw ← need fs "threw"
      if (← need fs "uniform") != "1" then return "res=SKIP:nonuniform-neighbour-lists"
      let nb ← needNb fs "nb" N hN
      match knnContract κ nb with
      | some e => return s!"res=BROKEN:neighbours {e}"
      | none => pure ()
      let (M, _, tscale, genNote) ← if method == "klle" then runModelLle hN fs κ nb kexp else runModelEig hN fs κ nb (method == "hlle") kexp
      if threw != "-" then return s!"res=FAIL:threw what={threw}"
      let lhs ← needMat fs "lhs" N N
      let c := cmpArr tolM lhs M tscale
      let hook := s!"{← need fs "calls"},{← need fs "skip"},{← need fs "smallest"},{← need fs "gen"},{← need fs "td"}"
      let Y ← needMat fs "Y" N d
      let vecs ← needMat fs "vecs" N d
      -- the property's oracle: the returned Y certified against the MODEL's matrix M (computed from the raw inputs)
      let s : Fix ← if method == "hlle" then pure 0 else needFix fs "shift"
      let scaleM := fmax (maxRowSum M) tscale
      let mut triv : Fix := 0
      for i in [0:N] do
        let mut r : Fix := 0
        for j in [0:N] do
          r := r + (M[i]!)[j]!
        triv := fmax triv (fabs (r - s))
      if !(triv ≤ tolPow 26 * scaleM) then return s!"res=BROKEN:model-constant-eigenvector dev={log2Str triv scaleM}"
      let Yt := transposeArr Y N d
      let AG := mulArr Yt (mulArr M Y N N d) d N d
      let muMin := (List.range d).foldl (fun acc c => if (AG[c]!)[c]! < acc then (AG[c]!)[c]! else acc) ((AG[0]!)[0]!)
      let separated := decide (tolPow 10 * scaleM < muMin - s)
      let co := certBottom N d M none Y true separated scaleM tolY tolY tolC
      if !co.ok then return s!"res=FAIL:certificate:{co.why} {certLine co} {describe c}"
      -- flat-manifold clause: for exactly flat data every returned column is an affine function of the intrinsic
      -- coordinates, i.e. lies in span{1, T} (orthonormal basis by Gram–Schmidt at Fix precision)
      let mut flatS := "-"
      match (if co.below == some (d + 1) then field? fs "flat" else none) with
      | none => if (field? fs "flat").isSome then flatS := "skipped(null-space-larger-than-d+1)"
      | some ft =>
        match parseRows parseFix ft with
        | none => throw "bad flat"
        | some T =>
          if !(rect T N d) then throw "flat shape"
          let cols0 : List (DVec N Fix) := (DVec.ofFn fun _ => (1 : Fix)) ::
            (List.finRange d).map fun c => DVec.ofFn fun i : Fin N => (T[i.1]!)[c.1]!
          let Q := gramSchmidt Fix.sqrt [] cols0
          let mut worst : Fix := 0
          for c in [0:d] do
            let y : DVec N Fix := DVec.ofFn fun i : Fin N => (Y[i.1]!)[c]!
            let r := Q.foldl gsSub y
            for i in List.finRange N do
              worst := fmax worst (fabs (r.get i))
          flatS := log2Str worst (maxAbsArr Y)
          if !(worst ≤ tolPow 18 * maxAbsArr Y) then
            return s!"res=FAIL:flat:not-affine dev={flatS} {certLine co}"
      -- correspondence: what was handed to the solver, how it was called, what was returned
      if let some g := genNote then return s!"res=BROKEN:{g}"
      if !c.ok then return s!"res=BROKEN:solver-input {describe c} approx={N * N}"
      if hook != s!"1,1,1,0,{d}" then return s!"res=BROKEN:solver-call calls,skip,smallest,gen,td={hook}"
      if (cmpArr 0 Y vecs).maxdev.m ≠ 0 then return "res=BROKEN:embedding-is-not-the-solver-output"
      return s!"res=ok {describe c} {certLine co} sep={separated} flat={flatS} approx={N * N + N * d}"
    else throw s!"unknown op {op}"
  else throw "N=0"

/-- `op=hlleidx d=…` : the written product columns and the index verdict of the generated recurrence -/
def answerIdx (fs : List (String × String)) : String :=
  match (field? fs "d") >>= String.toNat? with
  | none => "res=BADCASE:d"
  | some d =>
    let cols := String.intercalate "," ((hlleWrittenCols d).map toString)
    let writes := String.intercalate "," ((hlleWrites d).map fun w => s!"{w.1}:{w.2.1}:{w.2.2}")
    let err := match hlleIndexErr d with
      | none => "none"
      | some e => reprStr e
    let dI : Int := d
    s!"res=ok cols={cols} err={err} writes={writes} dp={hlleDp d} ncols={hlleCols d} " ++
      s!"rightcols={Gen.HlleIndex.rightColsArg dI (Gen.HlleIndex.dpExpr dI)} " ++
      s!"tangent={Gen.HlleIndex.tangentBlockCols dI},{Gen.HlleIndex.tangentRightCols dI}"

def answer (line : String) : String :=
  let fs := fields line
  if field? fs "op" == some "hlleidx" then answerIdx fs else
  match answerCore fs with
  | .ok s => s
  | .error e =>
    if e.startsWith "SKIP:" then
      -- an implementation exception on an input the model skips is counted separately (never silently dropped)
      (if (field? fs "threw").isSome && field? fs "threw" != some "-" then "res=SKIP:impl-threw-on-skipped-input " else "res=") ++ e
    else if e.startsWith "MODEL-ERR:" then
      (if (field? fs "abort").isSome then "res=FAIL:abort model=" else "res=") ++ e
    else if e.startsWith "CONTRACT:" then "res=BROKEN:oracle-contract " ++ (e.drop 9).toString
    else if e == "nonuniform" then "res=SKIP:nonuniform-neighbour-lists"
    else "res=BADCASE:" ++ e

def main : IO Unit := runLines answer
