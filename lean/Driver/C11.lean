import TapkeeVerif.Model.Util
import TapkeeVerif.Model.Mat
import TapkeeVerif.Model.DMat
import TapkeeVerif.Model.Landmarks
/-!
Line-protocol driver for the landmark model (C11, DESIGN §11).  All arithmetic is exact (`Rat`).

  sel n=16 r=3:-4 perm=11,8,5,..            -> sel count=<compiled count> exact=<⌊N·r⌋> lm=<prefix>     | sel ERR:ub
  tri n=6 d=2 lm=4,1,3 dist=.. V=.. lam=.. mu=..   -> tri Y=<n x d>   (same text as the harness prints)
  sweep num=3 lo=1 hi=100000                -> sweep bad=<N:count,..> exactbad=<how many N have ⌊N·fl(num/N)⌋ ≠ num>:<first few>
  chk kind=lmds n= d= lm= dist= [pts=] B= V= lam= s= Y=      -> verdict tokens (see `chkLmds`)
  chk kind=lisomap n= d= lm= G= B= V= lam= q= Y= dense=1|0     -> verdict tokens (see `chkLisomap`)
  gram n= d= A=<Y1> B=<Y2> [rowsA=<indices>] [rowsB=<indices>] gap= norm=   -> gram=ok|bad:i:j|degenerate|nonfinite errlog=<k>
  dist n= d= Y= pts= lam=                  -> dist=ok|bad:i:j|nonfinite errlog=<k>
-/
open TapkeeVerif TapkeeVerif.Util TapkeeVerif.Landmarks

/-! ### printing / parsing -/

def twoAdic : Nat → Nat → Nat × Nat
  | 0, n => (n, 0)
  | fuel + 1, n => if n ≠ 0 ∧ n % 2 = 0 then let (m, e) := twoAdic fuel (n / 2); (m, e + 1) else (n, 0)

/-- the text `vh::num` prints for the double with this exact value (integers plainly, else `m:e`, `m` odd) -/
def showDyadic (q : Rat) : String :=
  if q.den = 1 then
    if q.num.natAbs < 9000000000000000 then toString q.num
    else
      let (m, e) := twoAdic 4000 q.num.natAbs
      s!"{if q.num < 0 then "-" else ""}{m}:{e}"
  else
    let (m, e) := twoAdic 4000 q.den
    if m = 1 then s!"{q.num}:-{e}" else s!"{q.num}/{q.den}"

/-- a number that may be non-finite on the implementation side -/
def parseNum? (s : String) : Option (Option Rat) :=
  if s == "nan" || s == "inf" || s == "-inf" || s == "dblmax" then some none else (parseRat s).map some

def parseRows (s : String) : Option (List (List Rat)) :=
  allSome ((splitNonEmpty s ";").map fun r => parseRats r)

def parseRowsNF (s : String) : Option (List (List (Option Rat))) :=
  allSome ((splitNonEmpty s ";").map fun r => allSome ((splitNonEmpty r ",").map parseNum?))

def parseMat (n m : Nat) (s : String) : Option (DMat n m Rat) :=
  if s == "-" then DMat.ofLists? n m [] else (parseRows s) >>= DMat.ofLists? n m

/-- a matrix that may contain non-finite entries, as rows (checked shape) -/
def parseMatNF (n m : Nat) (s : String) : Option (List (List (Option Rat))) :=
  let rows := if s == "-" then some [] else parseRowsNF s
  rows.bind fun rows => if rows.length = n ∧ rows.all (fun r => r.length = m) then some rows else none

def parseVec (n : Nat) (s : String) : Option (DVec n Rat) :=
  if s == "-" then DVec.ofList? n [] else (parseRats s) >>= DVec.ofList? n

/-- a vector with possibly non-finite entries (`sqrt` of a negative eigenvalue is NaN) -/
def parseVecNF (n : Nat) (s : String) : Option (List (Option Rat)) :=
  let l := if s == "-" then some [] else allSome ((splitNonEmpty s ",").map parseNum?)
  l.bind fun l => if l.length = n then some l else none

def parseIdx (s : String) : Option (List Nat) := if s == "-" then some [] else parseNats s

def showMat {n m : Nat} (A : DMat n m Rat) : String :=
  if n = 0 ∨ m = 0 then "-" else
  String.intercalate ";" (A.toLists.map fun r => String.intercalate "," (r.map showDyadic))

def showIdx (l : List Nat) : String := if l.isEmpty then "-" else String.intercalate "," (l.map toString)

def lmFun? (N nl : Nat) (l : List Nat) : Option (Fin nl → Fin N) :=
  if h : l.length = nl ∧ ∀ x ∈ l, x < N then
    some fun a => ⟨l[a.1]'(h.1 ▸ a.2), h.2 _ (List.getElem_mem _)⟩
  else none

def absR (q : Rat) : Rat := if q < 0 then -q else q
def maxR (a b : Rat) : Rat := if a < b then b else a
def minR (a b : Rat) : Rat := if a < b then a else b

def maxAbs {n m : Nat} (A : DMat n m Rat) : Rat :=
  A.toLists.foldl (fun acc r => r.foldl (fun acc x => maxR acc (absR x)) acc) 0

/-- ⌊-log2 (err/scale)⌋ capped to [0, 99]; 99 when err = 0 (evidence only) -/
def errLog (err scale : Rat) : Nat :=
  if err ≤ 0 then 99 else
  let rec go : Nat → Rat → Nat
    | 0, _ => 99
    | f + 1, t => if scale ≤ t then 99 - (f + 1) else go f (t * 2)
  go 99 err

/-- machine epsilon of `double` (`std::numeric_limits<double>::epsilon()`) -/
def epsD : Rat := pow2 (-52)
def tol30 : Rat := pow2 (-30)
def tol40 : Rat := pow2 (-40)

/-- entrywise comparison: `eq`, `close` (within `tol`), or the first offending entry -/
def cmpMat {n m : Nat} (impl model : DMat n m Rat) (tol : Rat) : String × Rat :=
  let cells := (List.finRange n).flatMap fun i => (List.finRange m).map fun j => (i, j)
  let worst := cells.foldl (fun (acc : Rat × Nat × Nat) (ij : Fin n × Fin m) =>
      let e := absR (impl.get ij.1 ij.2 - model.get ij.1 ij.2)
      if acc.1 < e then (e, ij.1.1, ij.2.1) else acc) ((0 : Rat), 0, 0)
  if worst.1 = 0 then ("eq", 0)
  else if worst.1 ≤ tol then ("close", worst.1)
  else (s!"diff:{worst.2.1}:{worst.2.2}", worst.1)

/-! ### exact rank (Gaussian elimination over ℚ) -/
def rankAux : Nat → List (List Rat) → Nat
  | 0, _ => 0
  | c + 1, rows =>
    match rows.find? (fun r => r.headD 0 ≠ 0) with
    | none => rankAux c (rows.map List.tail)
    | some p =>
      let p0 := p.headD 1
      let rest := rows.erase p
      let rows' := rest.map fun r =>
        let f := r.headD 0 / p0
        List.zipWith (fun a b => a - f * b) r.tail p.tail
      1 + rankAux c rows'

/-- affine dimension of a list of points -/
def affDim (pts : List (List Rat)) : Nat :=
  match pts with
  | [] => 0
  | p0 :: rest => rankAux p0.length (rest.map fun p => List.zipWith (· - ·) p p0)

/-! ### commands -/

def answerSel (fs : List (String × String)) : String :=
  match field? fs "r" >>= parseRat, field? fs "perm" >>= parseIdx with
  | some r, some perm =>
    let n := perm.length
    match selectLandmarksFl perm r with
    | none => "sel ERR:ub"
    | some lm => s!"sel count={landmarkCountFl n r} exact={landmarkCount n r} lm={showIdx lm}"
  | _, _ => "bad-case"

def answerTri (fs : List (String × String)) : String :=
  match field? fs "n" >>= String.toNat?, field? fs "d" >>= String.toNat?, field? fs "lm" >>= parseIdx with
  | some n, some d, some lml =>
    let nl := lml.length
    match lmFun? n nl lml, field? fs "dist" >>= parseMat n n, field? fs "V" >>= parseMat nl d,
          field? fs "lam" >>= parseVec d, field? fs "mu" >>= parseVec nl with
    | some lm, some dist, some V, some lam, some mu =>
      "tri Y=" ++ showMat (triangulateD epsD dist lm mu V lam)
    | _, _, _, _, _ => "bad-case"
  | _, _, _ => "bad-case"

def answerSweep (fs : List (String × String)) : String :=
  match field? fs "num" >>= String.toNat?, field? fs "lo" >>= String.toNat?, field? fs "hi" >>= String.toNat? with
  | some num, some lo, some hi =>
    let ns := (List.range (hi + 1 - lo)).map (· + lo)
    let (bad, exbad) := ns.foldl (fun (acc : List String × List Nat) (N : Nat) =>
        if N = 0 then acc else
        let r := rne53 (((num : Nat) : Rat) / ((N : Nat) : Rat))
        let c := landmarkCountFl N r
        let acc1 := if c ≠ num then s!"{N}:{c}" :: acc.1 else acc.1
        let acc2 := if landmarkCount N r ≠ num then N :: acc.2 else acc.2
        (acc1, acc2)) ([], [])
    let bad := bad.reverse
    let exbad := exbad.reverse
    s!"sweep bad={if bad.isEmpty then "-" else String.intercalate "," bad} exactbad={exbad.length}:{showIdx (exbad.take 12)}"
  | _, _, _ => "bad-case"

def sqDistPts (pts : List (List Rat)) (i j : Nat) : Rat :=
  (List.zipWith (fun a b => (a - b) * (a - b)) (pts.getD i []) (pts.getD j [])).sum

/-- condition number proxy from the observed eigenvalues: `min(λmax/λmin, 2^20)`, `2^20` if some λ ≤ 0 -/
def condOf {d : Nat} (lam : DVec d Rat) : Rat :=
  let l := lam.data.toList
  match l with
  | [] => 1
  | x :: xs =>
    let mx := xs.foldl maxR x
    -- eigenvalues the pseudo-inverse keeps (far above the tolerance); the others contribute zero coordinates
    let kept := l.filter fun v => pow2 (-40) * mx < v
    match kept with
    | [] => 1
    | y :: ys => minR (mx / ys.foldl minR y) (pow2 20)

/-- pairwise squared distances of the (finite) embedding against the exact squared distances of the points -/
def distVerdict (n : Nat) (Y : List (List (Option Rat))) (pts : List (List Rat)) (cond : Rat) : String :=
  match allSome (Y.map allSome) with
  | none => "dist=nonfinite errlog=0"
  | some rows =>
    let idx := List.range n
    let scale := idx.foldl (fun acc i => idx.foldl (fun acc j => maxR acc (sqDistPts pts i j)) acc) 0
    let worst := idx.foldl (fun (acc : Rat × Nat × Nat) i => idx.foldl (fun acc j =>
        if j ≤ i then acc else
        let e := absR (sqDistPts rows i j - sqDistPts pts i j)
        if acc.1 < e then (e, i, j) else acc) acc) ((0 : Rat), 0, 0)
    let tol := tol40 * scale * cond
    if worst.1 ≤ tol then s!"dist=ok errlog={errLog worst.1 scale}"
    else s!"dist=bad:{worst.2.1}:{worst.2.2} errlog={errLog worst.1 scale}"

/-- eigen-contract on the observed pair: residual and orthonormality, relative to the size of `B` -/
def eigVerdict {n d : Nat} (B : DMat n n Rat) (V : DMat n d Rat) (lam : DVec d Rat) : String :=
  let nb := maxAbs B
  let BV := DMat.ofFn (Mat.mul B.get V.get)
  let res := DMat.ofFn (fun a i => BV.get a i - V.get a i * lam.get i : Mat n d Rat)
  let G := DMat.ofFn (Mat.mul (Mat.transpose V.get) V.get)
  let orth := DMat.ofFn (fun i j => G.get i j - (if i = j then 1 else 0) : Mat d d Rat)
  if maxAbs res > tol30 * nb * (n : Rat) then "eig=bad:residual"
  else if maxAbs orth > tol30 then "eig=bad:orth"
  else "eig=ok"

def finiteMat? (n m : Nat) (Y : List (List (Option Rat))) : Option (DMat n m Rat) :=
  (allSome (Y.map allSome)) >>= DMat.ofLists? n m

/-- Landmark MDS through the method class: matrix handed to the solver vs `lmdsB`; the returned embedding vs
    `lmdsEmbed` evaluated on the solver's own `(V, lam)` and the observed `sqrt` values; rank facts; distance oracle. -/
def chkLmds (fs : List (String × String)) : String :=
  match field? fs "n" >>= String.toNat?, field? fs "d" >>= String.toNat?, field? fs "lm" >>= parseIdx with
  | some n, some d, some lml =>
    let nl := lml.length
    match lmFun? n nl lml, field? fs "dist" >>= parseMat n n with
    | some lm, some dist =>
      let distinct := if lml.eraseDups.length = lml.length then "lmdistinct=1" else "lmdistinct=0"
      -- rank facts (Euclidean cases)
      let ptsO := field? fs "pts" >>= parseRows
      let rankTok := match ptsO with
        | some pts => s!" adim={affDim pts} ladim={affDim (lml.map fun a => pts.getD a [])}"
        | none => ""
      let Bm := lmdsBD dist lm
      -- oob: the model says d > n_l reads outside the eigenvector matrix
      if d > nl then s!"{distinct} model=ERR:oob{rankTok}" else
      (match field? fs "B" >>= parseMat nl nl, field? fs "V" >>= parseMat nl d, field? fs "lam" >>= parseVec d,
            field? fs "s" >>= parseVec d, field? fs "Y" >>= parseMatNF n d with
      | some Bi, some V, some lam, some s, some Y =>
        let scaleB := maxAbs Bm
        let (pre, _) := cmpMat Bi Bm (tol30 * scaleB)
        let sqrtOk := (List.finRange d).all fun i =>
          absR (s.get i * s.get i - clamp0 (lam.get i)) ≤ tol40 * absR (lam.get i)
        let eig := eigVerdict Bi V lam
        let (model, post) :=
          match lmdsEmbedD epsD dist lm V lam s with
          | .error .oob => ("ERR:oob", "na")
          | .ok Ym =>
            match finiteMat? n d Y with
            | none => ("ok", "nonfinite")
            | some Yi =>
              -- the implementation's δ² − μ carries rounding of the size of the largest δ² / μ, also where the exact
              -- difference vanishes: the scale of the summed terms is Σ_a |W a i| · scaleD
              let W := DMat.ofFn (pinvCols (eigTol nl epsD lam.get) (post V.get s.get) lam.get)
              let mu := lmdsMuD dist lm
              let scaleD := (List.finRange n).foldl (fun acc x => (List.finRange nl).foldl (fun acc a =>
                  maxR acc (maxR (absR (dist.get x (lm a) * dist.get x (lm a))) (absR (mu.get a)))) acc) 0
              let termScale := (List.finRange d).foldl (fun acc i =>
                  maxR acc ((sumFin nl fun a => absR (W.get a i)) * scaleD)) (maxAbs Ym)
              ("ok", (cmpMat Yi Ym (tol30 * termScale)).1)
        let distTok := match ptsO with
          | some pts => " " ++ distVerdict n Y pts (condOf lam)
          | none => ""
        s!"{distinct} model={model} pre={pre} sqrt={if sqrtOk then "ok" else "bad"} {eig} post={post}{rankTok}{distTok}"
      | _, _, _, _, _ => "bad-case:obs")
    | _, _ => "bad-case:lm"
  | _, _, _ => "bad-case"

/-- Landmark Isomap after the geodesic stage -/
def chkLisomap (fs : List (String × String)) : String :=
  match field? fs "n" >>= String.toNat?, field? fs "d" >>= String.toNat?, field? fs "lm" >>= parseIdx with
  | some n, some d, some lml =>
    let nl := lml.length
    let dense := (field? fs "dense").getD "1" == "1"
    match field? fs "G" >>= parseMat nl n with
    | some G =>
      let Bm := lisomapPreD G
      if d > nl then "model=ERR:oob" else
      -- `sqrt(sqrt(lam))` of a (noise-)negative eigenvalue is NaN; the guard never uses it: read it as 1
      match field? fs "V" >>= parseMat nl d, field? fs "lam" >>= parseVec d,
            (field? fs "q" >>= parseVecNF d).map (fun l => (⟨(l.map fun o => o.getD 1).toArray⟩ : DVec d Rat)),
            field? fs "Y" >>= parseMatNF n d with
      | some V, some lam, some q, some Y =>
        let pre :=
          if dense then
            match field? fs "B" >>= parseMat nl nl with
            | some Bi => let Sm := lisomapSymD Bm; (cmpMat Bi Sm (tol30 * maxAbs Sm)).1
            | none => "bad-case"
          else
            match field? fs "B" >>= parseMat nl n with
            | some Bi => (cmpMat Bi Bm (tol30 * maxAbs Bm)).1
            | none => "bad-case"
        let tolL := eigTol nl epsD lam.get
        let qOk := (List.finRange d).all fun i => lam.get i ≤ tolL ||
          decide (absR (q.get i * q.get i * q.get i * q.get i - lam.get i) ≤ tol40 * 4 * absR (lam.get i))
        let eig := if dense then
            match field? fs "B" >>= parseMat nl nl with
            | some Bi => eigVerdict Bi V lam
            | none => "eig=na"
          else "eig=na"
        let (model, post) :=
          match lisomapPostD epsD Bm V lam q with
          | .error .oob => ("ERR:oob", "na")
          | .ok Ym =>
            match finiteMat? n d Y with
            | none => ("ok", "nonfinite")
            | some Yi =>
              -- likewise the implementation's B carries rounding of the size of its largest entry everywhere
              let scaleB := maxAbs Bm
              let termScale := (List.finRange d).foldl (fun acc i =>
                  if lam.get i ≤ tolL then acc
                  else maxR acc ((sumFin nl fun a => absR (V.get a i)) * scaleB / absR (q.get i))) (maxAbs Ym)
              ("ok", (cmpMat Yi Ym (tol30 * termScale)).1)
        -- specification-level oracle, independent of the solver's eigenvectors: the returned columns are the right
        -- singular directions of the model's B (from the observed one-directional geodesics) scaled to norm² √λ:
        --   (BᵀB) y_i = λ_i y_i,  y_i·y_j = δ_ij q_i²  (zero column where the guard fires);  and the selected λ are the
        -- largest ones: the rest of the spectrum of the PSD matrix B Bᵀ sums to tr − Σλ, each ≤ λ_min
        let (svd, top) :=
          match finiteMat? n d Y with
          | none => ("nonfinite", "na")
          | some Yi =>
            if !dense then ("na", "na") else
            let M := DMat.ofFn (Mat.mul (Mat.transpose Bm.get) Bm.get)
            let MY := DMat.ofFn (Mat.mul M.get Yi.get)
            let kept (i : Fin d) : Bool := decide (tolL < lam.get i)
            let res := DMat.ofFn (fun x i => if kept i then MY.get x i - lam.get i * Yi.get x i else Yi.get x i : Mat n d Rat)
            let scaleR := maxAbs M * maxAbs Yi * (n : Rat)
            let G := DMat.ofFn (Mat.mul (Mat.transpose Yi.get) Yi.get)
            let want (i j : Fin d) : Rat := if i = j ∧ kept i then q.get i * q.get i else 0
            let gdef := DMat.ofFn (fun i j => G.get i j - want i j : Mat d d Rat)
            let scaleG := (List.finRange d).foldl (fun acc i => if kept i then maxR acc (q.get i * q.get i) else acc) 0
            let svd := if maxAbs res > tol30 * scaleR then "bad:residual"
                       else if maxAbs gdef > tol30 * scaleG then "bad:gram" else "ok"
            let Sm := lisomapSymD Bm
            let tr := sumFin nl fun a => Sm.get a a
            let sumSel := sumFin d fun i => lam.get i
            let lmin := (List.finRange d).foldl (fun acc i => minR acc (lam.get i)) (if h : 0 < d then lam.get ⟨0, h⟩ else 0)
            let top := if tr - sumSel > ((nl - d : Nat) : Rat) * maxR lmin 0 + tol30 * tr then "bad" else "ok"
            (svd, top)
        s!"model={model} pre={pre} root={if qOk then "ok" else "bad"} {eig} post={post} svd={svd} top={top}"
      | _, _, _, _ => "bad-case:obs"
    | none => "bad-case:G"
  | _, _, _ => "bad-case"

def pickRows (rows : List (List (Option Rat))) (idx : Option (List Nat)) : List (List (Option Rat)) :=
  match idx with
  | none => rows
  | some l => l.map fun i => rows.getD i []

/-- Gram-level comparison of two embeddings (row `rowsA[i]` of `A` against row `rowsB[i]` of `B`) -/
def answerGram (fs : List (String × String)) : String :=
  match field? fs "A" >>= parseRowsNF, field? fs "B" >>= parseRowsNF with
  | some A, some B =>
    let A := pickRows A (field? fs "rowsA" >>= parseIdx)
    let B := pickRows B (field? fs "rowsB" >>= parseIdx)
    match allSome (A.map allSome), allSome (B.map allSome) with
    | some A, some B =>
      if A.length ≠ B.length then "gram=bad:shape errlog=0" else
      let gap := (field? fs "gap" >>= parseRat).getD 1
      let norm := maxR ((field? fs "norm" >>= parseRat).getD 1) (pow2 (-1000))
      if gap ≤ pow2 (-20) * norm then "gram=degenerate errlog=0" else
      let dot (u v : List Rat) : Rat := (List.zipWith (· * ·) u v).sum
      let idx := List.range A.length
      let scale := idx.foldl (fun acc i => maxR acc (maxR (dot (A.getD i []) (A.getD i [])) (dot (B.getD i []) (B.getD i [])))) 0
      let worst := idx.foldl (fun (acc : Rat × Nat × Nat) i => idx.foldl (fun acc j =>
          let e := absR (dot (A.getD i []) (A.getD j []) - dot (B.getD i []) (B.getD j []))
          if acc.1 < e then (e, i, j) else acc) acc) ((0 : Rat), 0, 0)
      let tol := tol40 * scale * minR (norm / gap) (pow2 20)
      if worst.1 ≤ tol then s!"gram=ok errlog={errLog worst.1 scale}"
      else s!"gram=bad:{worst.2.1}:{worst.2.2} errlog={errLog worst.1 scale}"
    | none, some _ => "gram=nonfinite:A errlog=0"
    | some _, none => "gram=nonfinite:B errlog=0"
    | none, none => "gram=nonfinite:AB errlog=0"
  | _, _ => "bad-case"

def answerDist (fs : List (String × String)) : String :=
  match field? fs "n" >>= String.toNat?, field? fs "d" >>= String.toNat?, field? fs "pts" >>= parseRows with
  | some n, some d, some pts =>
    match field? fs "Y" >>= parseMatNF n d, field? fs "lam" >>= parseVec d with
    | some Y, some lam => distVerdict n Y pts (condOf lam)
    | _, _ => "bad-case"
  | _, _, _ => "bad-case"

def answer (line : String) : String :=
  let fs := fields line
  if line.startsWith "sel " then answerSel fs
  else if line.startsWith "tri " then answerTri fs
  else if line.startsWith "sweep " then answerSweep fs
  else if line.startsWith "chk " then
    (if (field? fs "kind").getD "" == "lisomap" then chkLisomap fs else chkLmds fs)
  else if line.startsWith "gram " then answerGram fs
  else if line.startsWith "dist " then answerDist fs
  else if line.startsWith "negdom " then
    match field? fs "neg" >>= parseRat, field? fs "lamd" >>= parseRat, field? fs "norm" >>= parseRat with
    | some neg, some lamd, some norm =>
      s!"negdom={if neg < 0 ∧ lamd * (1 - pow2 (-20)) < -neg then 1 else 0} rankdef={if lamd ≤ pow2 (-20) * norm then 1 else 0}"
    | _, _, _ => "bad-case"
  else "bad-case"

def main : IO Unit := runLines answer
